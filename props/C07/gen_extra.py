"""Two further program families for the C07 correspondence (no Coq model; the expectation
is a specification-level statement checked on the checker's verdict / the compiled HUGR):

rebind_cases()      callees that (try to) rebind a borrowed parameter.  Python: rebinding a
                    parameter never affects the caller; the compiler implements lending by
                    returning the callee's variable, so such a callee must be REJECTED
                    (BorrowShadowedError).  An accepted one is a counterexample.
comptime_cases(r,n) @guppy.comptime callers that lend Python lists (elements: wires, plain
                    Python numbers, mixed) to borrowing callees and read an element
                    afterwards: the value read must derive from the call's output port of that
                    parameter (and not from the other same-typed list's port)."""

RB_HEADER = """import repo_shim  # noqa
from guppylang import guppy
from guppylang.std.builtins import array, owned
from guppylang.std.quantum import qubit


@guppy.struct
class SI:
    xs: array[int, 2]
    ys: array[int, 2]

"""

# (name, parameter list, body, type of the rebound parameter, its position among the borrowed ones)
AI2 = "array[int, 2]"
# (name, parameter list, body, rebound borrowed parameter)
RB_FORMS = [
    ("assign", f"xs: {AI2}", "xs = array(7, 7)", "xs"),
    ("annassign", f"xs: {AI2}", f"xs: {AI2} = array(7, 7)", "xs"),
    ("tuple_target", f"xs: {AI2}", "xs, n = array(7, 7), 1", "xs"),
    ("walrus", f"xs: {AI2}", "n = len(xs := array(7, 7))", "xs"),
    ("in_branch", f"xs: {AI2}, b: bool", "if b:\n        xs = array(7, 7)", "xs"),
    ("for_target", f"xs: {AI2}, yss: array[{AI2}, 2] @owned", "for xs in yss:\n        pass", "xs"),
    ("second_param", f"ys: {AI2}, xs: {AI2}", "ys[0] = 1\n    xs = array(7, 7)", "xs"),
    ("after_update", f"xs: {AI2}", "xs[0] = 1\n    xs = array(7, 7)", "xs"),
    ("float_array", "xs: array[float, 3]", "xs = array(1.0, 2.0, 3.0)", "xs"),
    ("struct", "s: SI", "s = SI(array(1, 2), array(3, 4))", "s"),
    ("struct_from_other", "s: SI, t: SI @owned", "s = t", "s"),
    ("qubit", "q: qubit", "q = qubit()", "q"),
    ("nested_def", f"xs: {AI2}", "def xs() -> int:\n        return 1", "xs"),
]


def rebind_cases():
    import re
    out = []
    for name, params, body, target in RB_FORMS:
        names = re.findall(r"(\w+): ", params)
        src = RB_HEADER + f"@guppy\ndef cal({params}) -> None:\n    {body}\n"
        out.append({"id": f"rebind-{name}", "src": src, "mode": "verdict", "entry": ["cal"], "funcs": ["cal"],
                    "expect": "rejected:BorrowShadowedError",
                    "borrowed_param_index": names.index(target),
                    "what": f"callee rebinds its borrowed parameter `{target}` ({name}): `{body.splitlines()[0]}`"})
    return out


CT_HEADER = """import repo_shim  # noqa
from guppylang import guppy
from guppylang.std.builtins import array


@guppy
def ident(x: int) -> int:
    return x

"""


def comptime_cases(r, n):
    out = []
    kinds_cycle = ["wires", "wires", "consts", "mixed"]
    for k in range(n):
        size = r.choice([2, 3])
        two = r.random() < 0.6
        nret = r.choice([0, 1]) if two else 0
        kind = kinds_cycle[k % 4]

        def elems(kind):
            es, ws = [], []
            for i in range(size):
                w = kind == "wires" or (kind == "mixed" and (i % 2 == 1 if r.random() < 0.5 else r.random() < 0.5))
                c = r.randrange(10)
                es.append(f"ident({c})" if w else str(c))
                ws.append(w)
            if kind == "mixed" and all(ws):
                es[0], ws[0] = "3", False
            if kind == "mixed" and not any(ws):
                es[-1], ws[-1] = "ident(4)", True
            return es, ws
        xs, xw = elems(kind)
        ys, yw = elems(r.choice(["wires", kind]))
        at = f"array[int, {size}]"
        if two:
            decl = f"@guppy.declare\ndef bump(xs: {at}, k: int, ys: {at}) -> {'int' if nret else 'None'}: ...\n"
            call = "bump(xs, 5, ys)"
        else:
            decl = f"@guppy.declare\ndef bump(xs: {at}) -> None: ...\n"
            call = "bump(xs)"
        read_list = r.choice(["xs", "ys"]) if two else "xs"
        idx = r.randrange(size)
        body = [f"xs = [{', '.join(xs)}]"] + ([f"ys = [{', '.join(ys)}]"] if two else []) + [call, f"return {read_list}[{idx}]"]
        src = CT_HEADER + decl + "\n\n@guppy.comptime\ndef caller() -> int:\n" + "\n".join("    " + l for l in body) + "\n"
        lent_all_wires = all(xw) and (all(yw) if two else True)
        out.append({"id": f"comptime-{k}", "src": src, "entry": ["caller"], "funcs": ["caller"], "mode": "comptime",
                    "callee": "bump", "need_port": nret + (0 if read_list == "xs" else 1),
                    "forbid_port": (nret + (1 if read_list == "xs" else 0)) if two else None,
                    "must_accept": lent_all_wires,
                    "elements": {"xs": xs, "ys": ys if two else None, "read": f"{read_list}[{idx}]"},
                    "kind": kind})
    return out


def deps(tree, events, memo=None):
    """set of atoms a serialised value tree (transitively, through events) depends on:
    ('in', k) and ('out', ev, port)"""
    memo = {} if memo is None else memo
    out, pos = set(), 0
    while pos < len(tree):
        t = tree[pos]
        if t == 0:
            out.add(("in", tree[pos + 1]))
            pos += 3 + tree[pos + 2]
        elif t == 1:
            ev, port = tree[pos + 1], tree[pos + 2]
            out.add(("out", ev, port))
            if ev not in memo:
                memo[ev] = set()
                acc = set()
                for i in events[ev][1]:
                    acc |= deps(i, events, memo)
                memo[ev] = acc
            out |= memo[ev]
            pos += 4 + tree[pos + 3]
        elif t in (2, 3):
            pos += 2
        elif t == 4:
            pos += 1
        else:
            pos += 2
    return out


# ---------------------------------------------------------------------------------------
# borrowing calls inside comprehensions: the lent place is loop-carried, leaf by leaf

CP_HEADER = """import repo_shim  # noqa
import guppylang
from guppylang import guppy
from guppylang.std.builtins import array, owned
from guppylang.std.quantum import qubit

guppylang.enable_experimental_features()


@guppy.struct
class Reg:
    hits: int
    log: array[int, 2]


@guppy.struct
class Outer:
    k: int
    r: Reg


@guppy.declare
def bump(r: Reg) -> int: ...


@guppy.declare
def bump2(r: Reg, k: int, t: Reg) -> int: ...


@guppy.declare
def bumpt(t: tuple[int, array[int, 2]]) -> int: ...


@guppy.declare
def bumpo(s: Outer) -> int: ...

"""

# leaves (paths) of the lendable types; all have copyable and non-copyable leaves
CP_LEAVES = {"Reg": [[0], [1]], "tuple[int, array[int, 2]]": [[0], [1]], "Outer": [[0], [1, 0], [1, 1]]}
# (params, call expression, [(param index, path of the lent place inside the param, its type, callee, port)])
CP_CALLS = [
    ("r: Reg", "bump(r)", [(0, [], "Reg", "bump", 1)]),
    ("s: Outer", "bump(s.r)", [(0, [1], "Reg", "bump", 1)]),
    ("s: Outer", "bumpo(s)", [(0, [], "Outer", "bumpo", 1)]),
    ("t: tuple[int, array[int, 2]]", "bumpt(t)", [(0, [], "tuple[int, array[int, 2]]", "bumpt", 1)]),
    ("r: Reg, t: Reg", "bump2(t, 1, r)", [(1, [], "Reg", "bump2", 1), (0, [], "Reg", "bump2", 2)]),
    ("r: Reg, s: Outer", "bump2(s.r, s.k, r)", [(1, [1], "Reg", "bump2", 1), (0, [], "Reg", "bump2", 2)]),
]
# comprehension contexts; {c} is the borrowing call
CP_CONTEXTS = [
    ("array_elt", "xs = array({c} for _ in range(3))"),
    ("list_elt", "xs = [{c} for _ in range(3)]"),
    ("list_guard", "xs = [i for i in range(4) if {c} > 0]"),
    ("list_elt_with_guard", "xs = [{c} for i in range(5) if i > 1]"),
    ("list_nested_inner", "xs = [{c} + j for i in range(2) for j in range(3)]"),
    ("list_nested_guard_outer", "xs = [j for i in range(2) if {c} > i for j in range(3)]"),
]


def comprehension_cases(r, n):
    combos = [(a, b) for a in CP_CONTEXTS for b in CP_CALLS]
    r.shuffle(combos)
    # always keep the array form of every call shape, then fill up
    first = [(CP_CONTEXTS[0], b) for b in CP_CALLS]
    chosen = first + [c for c in combos if c not in first][:max(0, n - len(first))]
    out = []
    for k, ((cname, ctx), (params, call, lent)) in enumerate(chosen):
        src = CP_HEADER + f"@guppy\ndef main({params}) -> None:\n    {ctx.format(c=call)}\n"
        out.append({"id": f"comp-{cname}-{k}", "src": src, "mode": "deps", "entry": ["main"], "funcs": ["main"],
                    "context": cname, "call": call,
                    "lent": [{"param": p, "path": path, "leaves": CP_LEAVES[ty], "callee": callee, "port": port}
                             for p, path, ty, callee, port in lent]})
    return out
