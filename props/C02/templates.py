"""C02 templates: small *accepted* guppy programs (check() and compile_function() succeed on /repo).

Each entry: {"name", "tags", "src"}; `src` is a complete module whose last definition is the
`@guppy` function `main`, preceded by the marker line `# --- main ---`.
"""

MARKER = "# --- main ---"

_HDR = '''from guppylang import guppy
from guppylang.std.builtins import array, owned, comptime, nat, py, result, panic
from guppylang.std.quantum import qubit, h, x, cx, rz, measure, discard, reset
from guppylang.std.angles import angle
from guppylang.std.option import Option, nothing, some
from collections.abc import Callable
'''

TEMPLATES: list[dict] = []


def _t(name, tags, body, helpers=""):
    src = _HDR + "\n" + (helpers.strip("\n") + "\n\n" if helpers.strip() else "") + "\n" + MARKER + "\n" + body.strip("\n") + "\n"
    TEMPLATES.append({"name": name, "tags": tags, "src": src})


# ---------------------------------------------------------------- control flow
_t("if_elif_else", ["if", "int"], '''
@guppy
def main(x: int, y: int) -> int:
    if x > y:
        z = x - y
    elif x == y:
        z = 0
    else:
        z = y - x
    return z * 2
''')

_t("while_break_continue", ["while", "break", "continue"], '''
@guppy
def main(n: int) -> int:
    i = 0
    acc = 0
    while i < n:
        i += 1
        if i % 2 == 0:
            continue
        if acc > 100:
            break
        acc += i
    return acc
''')

_t("for_range", ["for", "range"], '''
@guppy
def main(n: int) -> int:
    s = 0
    for i in range(n):
        if i > 5:
            s += i
        else:
            s -= 1
    return s
''')

_t("for_array", ["for", "array", "float"], '''
@guppy
def main(xs: array[float, 4] @ owned, scale: float) -> float:
    total = 0.0
    for v in xs:
        total = total + v * scale
    return total
''')

_t("early_return", ["return", "if", "while"], '''
@guppy
def main(x: int, flag: bool) -> int:
    if flag:
        return x
    y = x + 1
    while y < 10:
        if y == 7:
            return y
        y += 1
    return y - x
''')

_t("nested_if_in_loop", ["for", "if", "nested"], '''
@guppy
def main(n: int, m: int) -> int:
    count = 0
    for i in range(n):
        for j in range(m):
            if i < j:
                if (i + j) % 2 == 0:
                    count += 1
            elif i == j:
                count += 2
    return count
''')

_t("unreachable_after_return", ["unreachable", "return"], '''
@guppy
def main(x: int) -> int:
    y = x * 2
    return y
    z = y + 1
    return z
''')

_t("unreachable_loop_tail", ["unreachable", "while"], '''
@guppy
def main(x: int) -> int:
    while True:
        x += 1
        if x > 10:
            break
        continue
        x = 0
    return x
''')

# ---------------------------------------------------------------- tuples / unpacking
_t("tuple_unpack", ["tuple", "unpack"], '''
@guppy
def main(p: tuple[int, bool], q: tuple[float, int]) -> tuple[int, float]:
    a, b = p
    c, d = q
    if b:
        a, d = d, a
    t = (a + d, c)
    return t
''')

_t("tuple_nested_pattern", ["tuple", "unpack", "nested"], '''
@guppy
def main(t: tuple[int, tuple[bool, float]], k: int) -> float:
    a, (b, c) = t
    (u, v), w = (a, k), c
    if b:
        return c + w
    return c * 2.0
''')

_t("starred_unpack_array", ["unpack", "starred", "array"], '''
@guppy
def main(xs: array[int, 5] @ owned) -> int:
    a, *bs, c = xs
    [d, *es] = bs
    s = a + c + d
    for e in es:
        s += e
    return s
''')

_t("starred_unpack_tuple", ["unpack", "starred", "tuple"], '''
@guppy
def main(t: tuple[int, int, int, int]) -> array[int, 2]:
    x, *ys, z = t
    w = x + z
    first, second = ys
    return array(first + w, second)
''')

_t("unpack_qubits", ["unpack", "starred", "qubit", "linear", "array"], '''
@guppy
def main(qs: array[qubit, 4] @ owned) -> tuple[qubit, array[qubit, 2]]:
    q1, *rest, q2 = qs
    h(q1)
    cx(q1, q2)
    discard(q2)
    return q1, rest
''')

# ---------------------------------------------------------------- structs
_t("struct_classical", ["struct", "attr"], '''
@guppy
def main(p: Point, k: int) -> Point:
    q = Point(p.x + k, p.y)
    a = q.x * 2
    b = q.y + a
    r = Point(a, b)
    if r.x > r.y:
        return q
    return Point(r.y, q.x)
''', helpers='''
@guppy.struct
class Point:
    x: int
    y: int
''')

_t("struct_linear", ["struct", "qubit", "linear", "attr"], '''
@guppy
def main(s: Pair @ owned) -> tuple[qubit, bool]:
    h(s.a)
    cx(s.a, s.b)
    b = measure(s.b)
    if b:
        x(s.a)
    s.b = qubit()
    n = s.n
    discard(s.b)
    return s.a, b
''', helpers='''
@guppy.struct
class Pair:
    a: qubit
    b: qubit
    n: int
''')

_t("struct_method", ["struct", "method", "call"], '''
@guppy
def main(a: Vec, b: Vec, k: int) -> int:
    c = a.add(b)
    d = c.add(a).scale(k)
    return d.norm1() + Vec(1, 2).norm1()
''', helpers='''
@guppy.struct
class Vec:
    x: int
    y: int

    @guppy
    def add(self: "Vec", other: "Vec") -> "Vec":
        return Vec(self.x + other.x, self.y + other.y)

    @guppy
    def scale(self: "Vec", k: int) -> "Vec":
        return Vec(self.x * k, self.y * k)

    @guppy
    def norm1(self: "Vec") -> int:
        return self.x + self.y
''')

_t("struct_nested", ["struct", "nested", "attr"], '''
@guppy
def main(o: Outer, v: int) -> int:
    w = o.inner.a + v
    f = o.inner.b + 1.5
    c = not o.c
    t = o.inner
    u = Outer(Inner(w, f), c)
    if u.c:
        return t.a
    return u.inner.a + 1
''', helpers='''
@guppy.struct
class Inner:
    a: int
    b: float


@guppy.struct
class Outer:
    inner: Inner
    c: bool
''')

# ---------------------------------------------------------------- arrays
_t("array_index_assign", ["array", "subscript", "augassign"], '''
@guppy
def main(xs: array[int, 4] @ owned, i: int, v: int) -> array[int, 4]:
    xs[0] = v
    xs[i] = xs[0] + 1
    xs[i] += 1
    xs[1] -= xs[2]
    y = xs[3]
    xs[2] = y
    return xs
''')

_t("array_borrowed_mutate", ["array", "subscript", "inout", "for"], '''
@guppy
def main(xs: array[int, 3], ys: array[float, 3]) -> float:
    for i in range(3):
        xs[i] = i * 2
        ys[i] += 0.5
    xs[0], xs[1] = xs[1], xs[0]
    return ys[0] + ys[2]
''')

_t("array_literal_2d", ["array", "subscript", "nested"], '''
@guppy
def main(k: int) -> int:
    m = array(array(1, 2), array(3, k))
    a = m[1][0]
    m[0][0] = a + 1
    zs = array(a, k, a + k)
    zs[2] = m[0][1]
    return zs[0] + zs[2]
''')

_t("array_qubits", ["array", "qubit", "linear", "subscript", "for"], '''
@guppy
def main(qs: array[qubit, 3]) -> None:
    h(qs[0])
    for i in range(2):
        cx(qs[i], qs[i + 1])
    q = qubit()
    cx(q, qs[2])
    discard(q)
''')

_t("array_comprehension", ["array", "comprehension"], '''
@guppy
def main(xs: array[int, 4] @ owned, k: int) -> int:
    ys = array(x * k for x in xs)
    zs = array(i + k for i in range(3))
    ws = array((y, y > 2) for y in ys)
    s = 0
    for a, b in ws:
        if b:
            s += a
    return s + zs[0]
''')

_t("array_comprehension_qubits", ["array", "comprehension", "qubit", "linear"], '''
@guppy
def main(qs: array[qubit, 3] @ owned) -> array[bool, 3]:
    fresh = array(qubit() for _ in range(3))
    for i in range(3):
        cx(qs[i], fresh[i])
    bs = array(measure(q) for q in qs)
    for f in fresh:
        discard(f)
    return bs
''')

# ---------------------------------------------------------------- qubits / linearity
_t("qubit_basic", ["qubit", "linear", "measure"], '''
@guppy
def main() -> bool:
    q1 = qubit()
    q2 = qubit()
    h(q1)
    cx(q1, q2)
    b = measure(q1)
    if b:
        x(q2)
    discard(q2)
    return b
''')

_t("qubit_owned_borrowed", ["qubit", "linear", "owned", "inout"], '''
@guppy
def main(q: qubit @ owned, r: qubit, theta: angle) -> tuple[qubit, bool]:
    h(q)
    rz(r, theta)
    cx(q, r)
    aux = qubit()
    cx(r, aux)
    res = measure(aux)
    if res:
        reset(r)
    return q, res
''')

_t("qubit_loop", ["qubit", "linear", "while", "measure"], '''
@guppy
def main(n: int) -> int:
    count = 0
    i = 0
    while i < n:
        q = qubit()
        h(q)
        if measure(q):
            count += 1
        i += 1
    return count
''')

_t("qubit_helper_calls", ["qubit", "linear", "call", "owned"], '''
@guppy
def main(a: qubit @ owned, b: qubit @ owned, flag: bool) -> qubit:
    if flag:
        a, b = swap2(a, b)
    entangle(a, b)
    r = consume(b)
    if r:
        x(a)
    return a
''', helpers='''
@guppy
def entangle(a: qubit, b: qubit) -> None:
    h(a)
    cx(a, b)


@guppy
def swap2(a: qubit @ owned, b: qubit @ owned) -> tuple[qubit, qubit]:
    return b, a


@guppy
def consume(q: qubit @ owned) -> bool:
    return measure(q)
''')

# ---------------------------------------------------------------- generics
_t("generic_typevar", ["generic", "typevar", "call"], '''
@guppy
def main(x: int, y: float, b: bool) -> tuple[float, int]:
    p = pair(x, y)
    q = swap(p)
    r = ident(b)
    if r:
        return q
    return swap(pair(1, 2.5))
''', helpers='''
S = guppy.type_var("S")
T = guppy.type_var("T")


@guppy
def ident(x: T) -> T:
    return x


@guppy
def pair(x: S, y: T) -> tuple[S, T]:
    return x, y


@guppy
def swap(p: tuple[S, T]) -> tuple[T, S]:
    a, b = p
    return b, a
''')

_t("generic_main_typevar", ["generic", "typevar", "owned"], '''
@guppy
def main(x: T @ owned, y: U @ owned, flag: bool) -> tuple[U, T]:
    a = x
    b = y
    t = (b, a)
    if flag:
        return t
    u, v = t
    return u, v
''', helpers='''
T = guppy.type_var("T", copyable=False, droppable=False)
U = guppy.type_var("U", copyable=False, droppable=False)
''')

_t("generic_natvar", ["generic", "natvar", "array"], '''
@guppy
def main(xs: array[int, n], ys: array[int, 3]) -> int:
    s = total(xs) + total(ys)
    zs = copy_arr(ys)
    k = n
    for v in zs:
        s += v
    return s + int(k)
''', helpers='''
n = guppy.nat_var("n")


@guppy
def total(xs: array[int, n]) -> int:
    s = 0
    for v in xs.copy():
        s += v
    return s


@guppy
def copy_arr(xs: array[int, n]) -> array[int, n]:
    return array(v for v in xs.copy())
''')

_t("generic_py312", ["generic", "py312", "typevar", "natvar"], '''
@guppy
def main[T, n: nat](xs: array[T, n] @ owned, d: T @ owned, k: int) -> tuple[array[T, n], T, int]:
    m = n
    j = k + int(m)
    ys = xs
    e = d
    return ys, e, j
''')

_t("generic_struct", ["generic", "struct", "typevar"], '''
@guppy
def main(b: Box[int], c: Box[float]) -> Box[float]:
    v = b.val + 1
    w = c.val
    d = Box(v + w, b.tag)
    e = Box(d, 3)
    if e.tag > 2:
        return e.val
    return Box(get(c), get(b))
''', helpers='''
T = guppy.type_var("T")


@guppy.struct
class Box[T]:
    val: T
    tag: int


@guppy
def get(b: Box[T]) -> T:
    return b.val
''')

# ---------------------------------------------------------------- comptime
_t("comptime_args", ["comptime", "nat", "array"], '''
@guppy
def main(x: int) -> int:
    xs = build(4, x)
    s = 0
    for v in xs:
        s += v
    t = helper(3, s)
    u = helper(comptime(N), t)
    return t + u
''', helpers='''
N = 5


@guppy
def helper(m: nat @ comptime, x: int) -> int:
    return x + int(m)


@guppy
def build(n: nat @ comptime, x: int) -> "array[int, n]":
    return array(i + x for i in range(n))
''')

_t("comptime_expr", ["comptime", "py"], '''
@guppy
def main(x: int) -> float:
    a = comptime(K + 1)
    b = comptime(F * 2)
    xs = comptime(LST)
    if comptime(FLAG):
        return b + a + x
    return xs[0] + b
''', helpers='''
K = 41
F = 1.5
FLAG = True
LST = [1, 2, 3]
''')

# ---------------------------------------------------------------- nested functions / closures
_EXP = '''
import guppylang
guppylang.enable_experimental_features()
'''

_t("nested_closure", ["nested", "closure", "call", "experimental"], '''
@guppy
def main(x: int, y: int) -> int:
    a = x + y

    def inner(z: int) -> int:
        return z + a

    def twice(z: int) -> int:
        return inner(inner(z))

    if a > 3:
        return twice(x)
    return inner(y)
''', helpers=_EXP)

_t("nested_higher_order", ["nested", "closure", "higher_order", "experimental"], '''
@guppy
def main(x: int, b: bool) -> int:
    k = 3

    def add(v: int) -> int:
        return v + k

    def mul(v: int) -> int:
        return v * k

    f = add if b else mul
    g = apply
    return g(f, x) + apply(add, 1)
''', helpers='''
import guppylang
guppylang.enable_experimental_features()


@guppy
def apply(f: Callable[[int], int], x: int) -> int:
    return f(x)
''')

# ---------------------------------------------------------------- overloads / calls
_t("overload", ["overload", "call"], '''
@guppy
def main(i: int, f: float) -> float:
    a = combine(i)
    b = combine(i, i)
    c = combine(f, i)
    if b > 3:
        return c + a
    return combine(1.5, b)
''', helpers='''
@guppy
def combine1(x: int) -> float:
    return x * 1.0


@guppy
def combine2(x: int, y: int) -> int:
    return x + y


@guppy
def combine3(x: float, y: int) -> float:
    return x + y


@guppy.overload(combine1, combine2, combine3)
def combine(): ...
''')

_t("calls_many_args", ["call", "declare"], '''
@guppy
def main(a: int, b: float, c: bool) -> int:
    r = f3(a, b, c)
    s = f3(r, g(a), not c)
    t = f3(f3(1, 2.0, True), g(s), c)
    w = g(int(g(t)))
    return s + int(w)
''', helpers='''
@guppy.declare
def f3(x: int, y: float, z: bool) -> int: ...


@guppy
def g(x: int) -> float:
    return x + 0.5
''')

# ---------------------------------------------------------------- expressions
_t("bool_ops", ["boolop", "compare", "ifexp"], '''
@guppy
def main(a: int, b: int, c: bool) -> bool:
    p = a < b and b < 10 or c
    q = not p and (a == b or not c)
    r = 0 <= a < b <= 100
    s = a if p else b
    if q or r and s > 3:
        return p
    return q != r
''')

_t("chained_compare_calls", ["compare", "call", "boolop"], '''
@guppy
def main(x: int, y: int) -> int:
    if 0 < sq(x) < sq(y) < 1000:
        return 1
    if not (x != y) or sq(x) >= y > 0:
        return 2
    z = sq(y) if x < y else sq(x)
    return z if z < 50 and x > 0 else 0
''', helpers='''
@guppy
def sq(x: int) -> int:
    return x * x
''')

_t("walrus_augassign", ["walrus", "augassign", "annassign"], '''
@guppy
def main(x: int, y: float) -> float:
    z: int = x + 1
    if (w := z * 2) > 10:
        z += w
    y *= 2.0
    z -= 1
    u: float = y / 2.0
    z //= 2
    return u + (v := z + 1) * v
''')

_t("numeric_mix", ["int", "float", "bool", "nat", "cast"], '''
@guppy
def main(i: int, f: float, b: bool, n: nat) -> float:
    a = i + f
    c = int(f) + i
    d = nat(3) + n
    e = float(i) * 0.5
    g = -i ** 2
    k = i << 2 | 1
    if b and bool(i):
        return a + c + e
    return g + k + float(int(d))
''')

_t("strings_none", ["str", "none", "result"], '''
@guppy
def main(x: int, b: bool) -> None:
    s = "hello"
    t = "tag"
    result("a", x)
    result("b", b)
    if x > 100:
        panic("too big", x)
    u = None
    return u
''')

_t("option", ["option", "generic", "method"], '''
@guppy
def main(x: int, b: bool) -> int:
    o: Option[int] = nothing()
    if b:
        o = some(x)
    if o.is_some():
        v = o.unwrap()
        return v + 1
    p: Option[int] = nothing()
    p.unwrap_nothing()
    return 0
''')

_t("option_qubit", ["option", "qubit", "linear"], '''
@guppy
def main(q: qubit @ owned, b: bool) -> bool:
    o: Option[qubit] = some(q)
    r = o.unwrap()
    h(r)
    e: Option[qubit] = nothing()
    e.unwrap_nothing()
    m = measure(r)
    return m and b
''')

_t("tuple_index_and_loop_tuple", ["tuple", "subscript", "for"], '''
@guppy
def main(t: tuple[int, float, bool], xs: array[tuple[int, int], 3] @ owned) -> float:
    a = t[0]
    b = t[1]
    s = 0
    for p, q in xs:
        s += p * q
    if t[2]:
        return b + s
    return b - a
''')

_t("for_break_else_free", ["for", "break", "continue", "array"], '''
@guppy
def main(xs: array[int, 6] @ owned, limit: int) -> int:
    found = -1
    idx = 0
    for v in xs:
        idx += 1
        if v < 0:
            continue
        if v > limit:
            found = idx
            break
    return found
''')

_t("closure_qubit_loop", ["nested", "qubit", "linear", "for"], '''
@guppy
def main(qs: array[qubit, 2], n: int) -> int:
    def layer(a: qubit, b: qubit) -> None:
        h(a)
        cx(a, b)

    c = 0
    for i in range(n):
        layer(qs[0], qs[1])
        c += i
    return c
''')

# ---------------------------------------------------------------- boundary-prone shapes (round 2)
_t("tuple_index_literals", ["tuple", "subscript", "boundary"], '''
@guppy
def main(t: tuple[int, float, bool], u: tuple[int]) -> int:
    a = t[0]
    b = u[0]
    p = (a, b)
    e = ()
    last = t[2]
    return p[1] + p[0] + a
''')

_t("annotated_declarations", ["annassign", "boundary"], '''
@guppy
def main(n: int, flag: bool) -> int:
    total: int = 0
    step: int = 1
    if flag:
        step = 2
    total += n * step
    return total
''')

_t("explicit_dunder_calls", ["dunder", "method", "boundary"], '''
@guppy
def main(x: int, y: int, f: float, xs: array[int, 3]) -> int:
    a = x.__add__(y)
    b = a.__neg__()
    c = xs.__getitem__(1)
    d = f.__lt__(2.5)
    if d:
        return a.__mul__(c)
    return b
''')

_t("empty_and_singleton_arrays", ["array", "boundary", "for"], '''
@guppy
def main(xs: array[int, 0] @ owned, ys: array[int, 1] @ owned) -> int:
    acc = 0
    for v in xs:
        acc += v
    [single] = ys
    zs = array(single)
    return acc + zs[0]
''')

_t("comptime_tuple_values", ["comptime", "tuple", "boundary"], '''
@guppy
def main(k: int) -> int:
    pair: tuple[int, int] = comptime((1, 2))
    first, second = pair
    trip = comptime((3, 4.5, True))
    return first + second + trip[0] + k
''')

_t("generic_container_calls", ["generic", "array", "call", "boundary"], '''
@guppy
def main(k: int) -> int:
    a = fst(array(k, 2))
    b = fst(array(a))
    return a + b
''', helpers='''
T = guppy.type_var("T")
n = guppy.nat_var("n")


@guppy
def fst(xs: array[T, n] @ owned) -> int:
    return 1
''')
