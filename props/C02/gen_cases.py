"""C02 — case generation, run under /venv/bin/python (3.12: PEP 695 syntax in templates, same `ast` as the
implementation side).  stdin JSON:
  {"mode": "tie", "seed", "tier", "profiles": {name: n}, "corpus": [{"src", "returns_none", "name"}]}
  {"mode": "search", "seed", "tier", "n", "corpus": [{"src", "name", "what"}]}
stdout JSON: tie -> {"progs": [{"src","coq","returns_none","profile","name"}], "hist": {...}}
             search -> {"progs": [{"id","src"}], "meta": [{"kind","template","desc"}], "n_corpus", "n_templates"}"""
import json
import random
import sys
from collections import Counter

import tie
import xast


def rng(seed, salt):
    return random.Random(f"{seed}/{salt}")


def gen_tie(req):
    progs, hist = [], Counter()
    for c in req["corpus"]:
        p = tie.from_source(c["src"], c.get("returns_none", True), "corpus", c.get("name", ""))
        progs.append(p)
    for prof, n in req["profiles"].items():
        ps, h = tie.make_programs(rng(req["seed"], f"C02/tie/{req['tier']}/{prof}"), n, prof)
        progs += ps
        hist.update(h)
    out = [{"src": p["src"], "coq": xast.sscoq(p["body"]), "returns_none": p["returns_none"], "profile": p["profile"],
            "name": p.get("name", "")} for p in progs]
    return {"progs": out, "hist": dict(sorted(hist.items()))}


def gen_search(req):
    import mutate
    import templates
    r = rng(req["seed"], f"C02/search/{req['tier']}")
    progs, meta = [], []
    for c in req["corpus"]:
        progs.append({"id": f"c{len(progs)}", "src": c["src"]})
        meta.append({"kind": "corpus", "template": c.get("name", ""), "desc": c.get("what", "")})
    n_corpus = len(progs)
    for t in templates.TEMPLATES:
        progs.append({"id": f"t{len(progs)}", "src": t["src"]})
        meta.append({"kind": "template", "template": t["name"], "desc": ""})
    n_templates = len(templates.TEMPLATES)
    # the deterministic boundary grid (same for every seed)
    import warnings

    import boundary
    with warnings.catch_warnings():
        warnings.simplefilter("ignore")
        grid = boundary.programs(full=req["tier"] == "thorough")
    for g in grid:
        progs.append({"id": f"g{len(progs)}", "src": g["src"]})
        meta.append({"kind": "boundary_grid", "template": g["name"], "desc": g["name"]})
    per = max(1, req["n"] // n_templates)
    seen = {p["src"] for p in progs}
    for t in templates.TEMPLATES:
        for m in mutate.mutants(t, r, per):
            if m["src"] in seen:
                continue
            seen.add(m["src"])
            progs.append({"id": f"m{len(progs)}", "src": m["src"]})
            meta.append({"kind": m["kind"], "template": t["name"], "desc": m["desc"]})
            # the same mutant with its expressions wrapped over several source lines (multi-line spans)
            if r.random() < 0.3:
                lay = mutate.relayout(m["src"], r)
                if lay is not None and lay not in seen:
                    seen.add(lay)
                    progs.append({"id": f"m{len(progs)}", "src": lay})
                    meta.append({"kind": m["kind"] + "+layout", "template": t["name"], "desc": m["desc"] + " [re-laid out]"})
    return {"progs": progs, "meta": meta, "n_corpus": n_corpus, "n_templates": n_templates, "n_grid": len(grid)}


if __name__ == "__main__":
    req = json.load(sys.stdin)
    json.dump(gen_tie(req) if req["mode"] == "tie" else gen_search(req), sys.stdout)
