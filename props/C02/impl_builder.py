"""Implementation side of the C02 builder tie: run the repo-under-test's real CFGBuilder on Python
sources and return, per program, either the error class or the CFG (and the CFGs of nested
functions in completion order) as integer tokens of coq/C02/Encode.v, plus the list of
checker-crashing nodes found in the real output (the invariant, checked on the real CFG directly).
stdin: JSON list of {"src", "returns_none"}."""
import ast
import itertools
import json
import sys

import repo_shim  # noqa: F401
import guppylang
import guppylang_internals.cfg.builder as B
from guppylang_internals.ast_util import annotate_location
from guppylang_internals.checker.core import Globals
from guppylang_internals.error import GuppyError, InternalGuppyError

import xast

guppylang.enable_experimental_features()

_done = []
_orig_build = B.CFGBuilder.build


def _build(self, *a, **k):
    cfg = _orig_build(self, *a, **k)
    _done.append(cfg)
    return cfg


B.CFGBuilder.build = _build


def classify(e):
    if isinstance(e, GuppyError):
        d = e.error
        name = type(d).__name__
        if name == "UnsupportedError":
            things = getattr(d, "things", "")
            if things == "Loop else clauses":
                return 0, things
            if things == "This statement":
                return 1, things
            if getattr(d, "unsupported_in", "") == "a list comprehension":
                return 2, things
            return "GuppyError:Unsupported:" + things, things
        if name == "EmptyComptimeExprError":
            return 3, ""
        if name == "ExpectedError":
            return 4, ""
        return "GuppyError:" + name, ""
    if isinstance(e, InternalGuppyError):
        if "BB not defined" in str(e):
            return 5, str(e)
        return "Internal:" + str(e)[:120], str(e)
    return "Crash:" + type(e).__name__, str(e)[:200]


def span_ok(e, nlines):
    """the raised diagnostic must carry a span inside the function source"""
    from guppylang_internals.span import to_span
    d = e.error
    if d.span is None:
        return "no span"
    sp = to_span(d.span)
    if not (1 <= sp.start.line <= sp.end.line <= nlines):
        return f"span lines {sp.start.line}-{sp.end.line} outside 1..{nlines}"
    return None


def encode_cfg(cfg, nested_index):
    idx = {id(bb): i for i, bb in enumerate(cfg.bbs)}
    blocks = []
    crash = []
    for i, bb in enumerate(cfg.bbs):
        assert bb.idx == i
        stmts = [xast.from_bstmt(s, nested_index) for s in bb.statements]
        pred = None if bb.branch_pred is None else xast.from_expr(bb.branch_pred)
        for s in stmts:
            crash += xast.bstmt_crash_nodes(s)
        if pred is not None:
            crash += xast.crash_nodes(pred)
        blocks.append({"stmts": stmts, "pred": pred, "succs": [idx[id(s)] for s in bb.successors],
                       "dummy": [idx[id(s)] for s in bb.dummy_successors], "reach": bool(bb.reachable)})
    assert cfg.entry_bb is cfg.bbs[0] and cfg.exit_bb is cfg.bbs[1]
    return blocks, crash


def dump(blocks):
    out = []
    for i, b in enumerate(blocks):
        st = []
        for s in b["stmts"]:
            if s[0] == "bdef":
                st.append(f"<def #{s[1]}>")
            elif s[0] == "assign":
                st.append(" = ".join(xast.tsrc(t) for t in s[1]) + " = " + xast.esrc(s[2]))
            elif s[0] == "aug":
                st.append(f"{xast.esrc(s[1])} {xast.BINOPS[s[2]]}= {xast.esrc(s[3])}")
            elif s[0] == "ann":
                st.append(f"{xast.esrc(s[1])}: _" + ("" if s[2] is None else " = " + xast.esrc(s[2])))
            elif s[0] == "expr":
                st.append(xast.esrc(s[1]))
            else:
                st.append("return" + ("" if s[1] is None else " " + xast.esrc(s[1])))
        out.append(f"{i}: reach={int(b['reach'])} stmts={st} pred={None if b['pred'] is None else xast.esrc(b['pred'])} "
                   f"succ={b['succs']} dummy={b['dummy']}")
    return out


def build(src, returns_none):
    fn = ast.parse(src).body[0]
    annotate_location(fn, src, "prog.py", 1)
    B.tmp_vars = (f"%tmp{i}" for i in itertools.count())
    _done.clear()
    try:
        cfg = B.CFGBuilder().build(fn.body, returns_none, Globals(None))
    except Exception as e:  # noqa: BLE001
        kind, msg = classify(e)
        rec = {"ok": False, "err": kind, "msg": str(msg), "exc": type(e).__name__}
        if isinstance(e, GuppyError):
            rec["span_problem"] = span_ok(e, src.count("\n") + 1)
        return rec
    try:
        assert _done and _done[-1] is cfg
        nested = _done[:-1]
        nested_index = {id(c): i for i, c in enumerate(nested)}
        blocks, crash = encode_cfg(cfg, nested_index)
        toks = [1]
        xast.cfg_tok(blocks, toks)
        toks.append(len(nested))
        dumps = dump(blocks)
        for c in nested:
            nb, ncrash = encode_cfg(c, nested_index)
            crash += ncrash
            xast.cfg_tok(nb, toks)
            dumps.append("nested:")
            dumps += dump(nb)
    except xast.Unencodable as e:
        return {"ok": False, "err": "Unencodable", "msg": str(e), "exc": "Unencodable"}
    return {"ok": True, "tokens": toks, "crash": crash, "dump": dumps}


def main():
    jobs = json.load(sys.stdin)
    json.dump([build(j["src"], j["returns_none"]) for j in jobs], sys.stdout)


if __name__ == "__main__":
    main()
