"""C02 — deterministic small-scope enumeration of *boundary* programs (run in full on every tier, before the
random mutants): containers of length 0..3 indexed at and beyond both ends, explicit dunder/method calls with
too few / too many arguments, annotated declarations without a value followed by uses, unpacking patterns over
short right-hand sides, loops over empty iterables, calls with arguments that do not determine their type.
Every program is a module with one `main`; the classifier of impl_search.py decides (accepted | located
GuppyError | FAIL).  No randomness: the grid is the same for every seed."""

PRELUDE = '''import guppylang
from guppylang import guppy
from guppylang.std.builtins import array, owned, comptime, frozenarray
from guppylang.std.quantum import qubit, discard

{exp}import math as py_mod


class PyCls:
    attr = 1


def py_fun(a):
    return a


py_int = 3
py_none = None
py_list = [1, 2]
py_str = "s"
py_float = 1.5
py_tuple = (1, 2)
py_dict = {{}}
py_lambda = lambda a: a  # noqa: E731
py_obj = PyCls()
py_type = int
py_exc = ValueError("v")

T = guppy.type_var("T")
n = guppy.nat_var("n")


@guppy
def unit() -> tuple[()]:
    return ()


@guppy.declare
def takes_list(xs: list[T]) -> None: ...


@guppy.declare
def takes_frozen(xs: frozenarray[T, n]) -> None: ...


@guppy.declare
def takes_array(xs: array[T, n]) -> None: ...


@guppy.declare
def takes_tuple(xs: tuple[T, T]) -> None: ...


# --- main ---
@guppy
def main({sig}:
{body}
{tail}'''

DEFAULT_SIG = "x: int, f: float, b: bool, xs: array[int, 2] @ owned, t: tuple[int, float], q: qubit @ owned) -> None"


DUNDER_CALLS = ["{x}.__add__()", "{x}.__radd__()", "{x}.__rpow__(1, 2, 3)", "{x}.__neg__(1)", "{x}.__getitem__()",
                "{x}.__len__(1)", "{x}.__iter__(1)", "{x}.__bool__({x})", "{x}.__eq__()", "{x}.__lt__(1, 2)",
                "{x}.__call__()", "{x}.__rsub__({x}, {x})", "{x}.__setitem__(0)", "{x}.__next__(0)", "{x}.__mul__(*())",
                "{x}.__pos__({x}, {x})", "{x}.__rmul__()", "{x}.__truediv__()", "{x}.__int__(1)", "{x}.__float__(1)",
                "{x}.__new__()", "{x}.copy(1)", "{x}.__rfloordiv__()", "{x}.__abs__(1)", "{x}.__radd__({x})",
                "{x}.__rtruediv__(1, 2)", "{x}.__rand__()", "{x}.__rlshift__(1, 1)", "{x}.__pow__()", "{x}.__divmod__()"]


def _elts(n):
    return ["1", "2.5", "True", "x"][:n]


def container(kind, n):
    e = _elts(n)
    if kind == "tuple":
        return "(" + "".join(a + ", " for a in e) + ")"
    if kind == "array":
        return "array(" + ", ".join(["1", "2", "3", "x"][:n]) + ")"
    if kind == "list":
        return "[" + ", ".join(["1", "2", "3", "x"][:n]) + "]"
    if kind == "comptime_tuple":
        return "comptime((" + "".join(a + ", " for a in ["1", "2.5", "True"][:n]) + "))"
    if kind == "comptime_list":
        return "comptime([" + ", ".join(["1", "2", "3"][:n]) + "])"
    raise AssertionError(kind)


def programs(full=False):
    """[{"name", "src"}] — deterministic.  `full` (thorough tier) adds the secondary usage shapes of family 9."""
    bodies = []

    def add(name, *lines, exp=False):
        bodies.append((name, "\n".join("    " + ln for stmt in lines for ln in stmt.split("\n")), exp))

    # 1. index grid
    for kind in ("tuple", "array", "list", "comptime_tuple", "comptime_list"):
        for n in (0, 1, 2, 3):
            if kind.startswith("comptime") and n == 3 and kind == "comptime_tuple":
                pass
            lit = container(kind, n)
            ks = sorted({0, -1, n, -n - 1, n - 1, -n})
            for k in ks:
                exp = kind == "list"
                add(f"index:{kind}:{n}:[{k}]:direct", f"v = {lit}[{k}]", exp=exp)
                add(f"index:{kind}:{n}:[{k}]:var", f"c = {lit}", f"v = c[{k}]", exp=exp)
                if kind == "array":
                    add(f"index:{kind}:{n}:[{k}]:store", f"c = {lit}", f"c[{k}] = 0")
                    add(f"index:{kind}:{n}:[{k}]:augstore", f"c = {lit}", f"c[{k}] += 1")
    for k in (0, -1, 1, 2, -2, -3, 3):
        add(f"index:param_tuple:[{k}]", f"v = t[{k}]")
        add(f"index:param_array:[{k}]", f"v = xs[{k}]")
        add(f"index:param_array:[{k}]:store", f"xs[{k}] = 1")
        add(f"index:unit_call:[{k}]", f"v = unit()[{k}]")
        add(f"index:nested:[{k}]", f"v = ((), (1,))[{k}]", f"w = ((), (1,))[1][{k}]")
    for k in ("True", "1.0", "None", "x", "-x", "0:1", ":", "()", "(0,)", "''"):
        add(f"index:param_tuple:[{k}]", f"v = t[{k}]")
        add(f"index:empty_tuple:[{k}]", f"v = ()[{k}]")
    # 2. explicit dunder / method calls with wrong arity
    for recv in ("x", "f", "b", "xs", "t", "q", "unit()", "()", "main"):
        for call in DUNDER_CALLS:
            c = call.format(x=recv)
            add(f"dunder:{c}", f"r = {c}")
    # 3. annotated declarations without a value
    for ty in ("int", "float", "bool", "qubit", "array[int, 0]", "tuple[()]", "tuple[int]", "None", "T", "array[int, n]"):
        for i, use in enumerate(["d + 1", "d", "(d, d)", "d[0]", "-d", "d.__add__(1)", "takes_tuple((d, d))"]):
            add(f"decl:{ty}:use{i}", f"d: {ty}", f"u = {use}")
        add(f"decl:{ty}:aug", f"d: {ty}", "d += 1")
        add(f"decl:{ty}:only", f"d: {ty}")
        add(f"decl:{ty}:then_assigned", f"d: {ty}", "if b:\n    d = 1\nelse:\n    d = 2", "u = d")
        add(f"decl:{ty}:maybe_assigned", f"d: {ty}", "if b:\n    d = 1", "u = d")
        add(f"decl:{ty}:nested", f"def g(k: int) -> int:\n    d: {ty}\n    return d + k", "u = g(1)")
        add(f"decl:{ty}:loop", f"while b:\n    d: {ty}\n    d += 1")
        add(f"decl:{ty}:shadow_param", f"x: {ty}", "u = x + 1")
    add("decl:subscript", "xs[0]: int", "u = xs[0]")
    add("decl:attribute", "t.a: int")
    # 4. unpacking patterns over short right-hand sides
    for pat in ("[*a]", "*a,", "a, *c", "*a, c", "a, *c, d", "a,", "[a]", "a, c", "()", "[]", "a, (c, *d)", "*a, (c,)"):
        for rhs in ("()", "array()", "(0,)", "array(0)", "(0, 1)", "array(0, 1)", "range(0)", "range(1)", "unit()",
                    "comptime(())", "comptime([])", "t", "xs"):
            add(f"unpack:{pat}={rhs}", f"{pat} = {rhs}")
    # 5. loops / comprehensions over empty things
    for it in ("()", "array()", "range(0)", "[]", "comptime([])", "comptime(())", "''", "unit()"):
        add(f"loop:{it}", f"for i in {it}:\n    pass")
        add(f"loop:{it}:use_after", f"for i in {it}:\n    j = i", "k = j")
        add(f"comp:{it}", f"c = array(i for i in {it})")
        add(f"listcomp:{it}", f"c = [i for i in {it}]", exp=True)
    # 6. arguments that do not determine their type / empty argument lists
    for f in ("takes_list", "takes_frozen", "takes_array", "takes_tuple"):
        for a in ("[]", "comptime([])", "array()", "()", "comptime(())", "", "[], []", "array(())", "(1,)", "((), ())"):
            add(f"call:{f}({a})", f"{f}({a})", exp=True)
    for c in ("array()", "array(())", "range()", "len()", "int()", "float()", "bool()", "abs()", "unit(1)", "main()", "discard()",
              "comptime()", "comptime(())", "comptime([])", "comptime((1, 2, 3))", "comptime({})", "qubit(1)", "owned()"):
        add(f"call:{c}", f"r = {c}")
    # 7. comptime values against annotations of another shape
    for ty, val in (("tuple[int, int]", "(1, 2, 3)"), ("tuple[int, int]", "(1,)"), ("tuple[()]", "(1,)"), ("tuple[int]", "()"),
                    ("array[int, 2]", "[1, 2, 3]"), ("array[int, 0]", "[1]"), ("frozenarray[int, 2]", "[1]"), ("int", "()"),
                    ("tuple[int, tuple[int, int]]", "(1, (2,))")):
        add(f"comptime:{ty}={val}", f"c: {ty} = comptime({val})")
        add(f"comptime_arg:{ty}={val}", f"def g(a: {ty}) -> None:\n    pass", f"g(comptime({val}))")
    # 8. layout: an ill-typed link / operand of an expression wrapped over several source lines, so that the span of
    #    the error (often a node synthesised by the builder) crosses lines; tails shorter and longer than the head
    bad_operands = ["(x, 1)", "(x, 1, 2, 3, 4, 5, 6, 7, 8, 9)", "t", "xs", "unit()"]
    heads = ["0 <= x", "0 <= x * 1000000 + x", "f < x < 3"]
    for hi, head in enumerate(heads):
        for bi, bad in enumerate(bad_operands):
            for ind in (0, 2, 8, 30):
                pad = " " * ind
                add(f"layout:chain:{hi}:{bi}:{ind}", f"r = ({head}\n{pad}< {bad})")
                add(f"layout:chain3:{hi}:{bi}:{ind}", f"r = ({head}\n{pad}< {bad}\n{pad}< 10)")
                add(f"layout:chain_if:{hi}:{bi}:{ind}", f"if ({head}\n{pad}<= {bad}\n{pad}< 10):\n    pass")
                add(f"layout:boolop:{hi}:{bi}:{ind}", f"r = ({head} and\n{pad}{bad} and\n{pad}b)")
                add(f"layout:binop:{hi}:{bi}:{ind}", f"r = (x +\n{pad}{bad} +\n{pad}1)")
                add(f"layout:ifexp:{hi}:{bi}:{ind}", f"r = (x if\n{pad}{bad}\n{pad}else 2)")
                add(f"layout:call:{hi}:{bi}:{ind}", f"r = takes_tuple(\n{pad}{bad},\n{pad}x)")
                add(f"layout:while:{hi}:{bi}:{ind}", f"while (x <\n{pad}{bad}\n{pad}< 3):\n    pass")
    # 9. name resolution: every name Python resolves at the definition site but Guppy may not define — all of
    #    dir(builtins) (computed now), module dunders, and names bound in the defining frame to non-Guppy Python
    #    objects of various kinds — in every usage shape.  Expected: success or a located Guppy error.
    import builtins
    import keyword
    names = [n for n in sorted(dir(builtins)) if n.isidentifier() and not keyword.iskeyword(n)]
    names += ["None", "True", "False", "__file__", "__path__", "__cached__", "__annotations__", "__dict__", "__class__",
              "py_mod", "PyCls", "py_fun", "py_int", "py_none", "py_list", "py_str", "py_float", "py_tuple", "py_dict",
              "py_lambda", "py_obj", "py_type", "py_exc", "guppylang", "guppy", "T", "n", "unit", "takes_list", "main",
              "DEFAULT_SIG_IS_NOT_A_NAME", "qubit", "array", "owned", "comptime"]
    sigs = []
    for X in dict.fromkeys(names):
        add(f"name:{X}:value", f"r = {X}")
        if full:
            add(f"name:{X}:return", f"r = x", f"if b:\n    r = {X}")
        add(f"name:{X}:call0", f"r = {X}()")
        add(f"name:{X}:call1", f"r = {X}(x)")
        add(f"name:{X}:cond", f"if {X}:\n    pass")
        if full:
            add(f"name:{X}:while", f"while {X}:\n    pass")
        add(f"name:{X}:local_annotation", f"y: {X} = x")
        add(f"name:{X}:nested", f"def g(k: int) -> int:\n    r = {X}\n    return k", "u = g(1)")
        if full:
            add(f"name:{X}:nested_call", f"def g(k: int) -> int:\n    r = {X}(k)\n    return k", "u = g(1)")
        add(f"name:{X}:nested_annotation", f"def g(k: {X}) -> {X}:\n    return k")
        add(f"name:{X}:attribute", f"r = {X}.y")
        if full:
            add(f"name:{X}:method", f"r = {X}.y(x)")
        add(f"name:{X}:subscript_type", f"r = {X}[int]")
        if full:
            add(f"name:{X}:subscript_int", f"r = {X}[0]")
        if full:
            add(f"name:{X}:arg", f"r = takes_tuple(({X}, {X}))")
        if full:
            add(f"name:{X}:binop", f"r = {X} + x")
        if full:
            add(f"name:{X}:for", f"for i in {X}:\n    pass")
        if full:
            add(f"name:{X}:comptime", f"r = comptime({X})")
        if full and X not in ("None", "True", "False", "__debug__"):
            add(f"name:{X}:assign_then_use", f"{X} = x", f"r = {X} + 1")
        sigs.append((f"name:{X}:param_annotation", f"a: {X}) -> None", "    pass"))
        sigs.append((f"name:{X}:return_annotation", f"a: int) -> {X}", "    return a"))
    out = []
    seen = set()
    items = [(name, DEFAULT_SIG, body, "    discard(q)\n", exp) for name, body, exp in bodies]
    items += [(name, sig, body, "", False) for name, sig, body in sigs]
    for name, sig, body, tail, exp in items:
        src = PRELUDE.format(exp="guppylang.enable_experimental_features()\n" if exp else "", body=body, sig=sig, tail=tail)
        if src in seen:
            continue
        seen.add(src)
        try:
            compile(src, "<b>", "exec")
        except SyntaxError:
            continue
        out.append({"name": name, "src": src})
    return out


if __name__ == "__main__":
    print(len(programs()), len(programs(True)))
