"""C02 — Python mirror of coq/C02/Ast.v: terms, printers (Python source / Coq / integer tokens of
coq/C02/Encode.v), conversion of real `ast` nodes (as left in basic blocks by the real CFGBuilder)
into terms, and the seeded program generator for the builder tie.

Terms are tuples.  Expressions:
  ("int", z) ("bool", b) ("none",) ("vu", n) ("vt", n) ("un", op, e) ("bin", op, a, b)
  ("cmp", l, [(op, e), ...]) ("bool2", op, a, b) ("if", c, a, b) ("walrus", x, e) ("call", f, [args])
  ("tuple", [es]) ("list", [es]) ("sub", v, i) ("attr", v, a) ("star", e)
  ("comp", kind, elt, [(target, iter, [ifs]), ...]) ("des", kind, elt, [(target, iter, [ifs])...])
  ("comptime", [args]) ("other", k, [es]) ("makeiter", e) ("iternext", e)
Statements:
  ("assign", [targets], e) ("aug", t, op, e) ("ann", t, e|None) ("expr", e) ("ifs", c, body, orelse)
  ("while", c, body, orelse) ("for", t, it, body, orelse) ("break",) ("continue",) ("pass",)
  ("return", e|None) ("def", body, returns_none) ("otherstmt", k)
"""
import ast

UNOPS = ["not", "-", "+", "~"]
UNOP_COQ = ["UNot", "UNeg", "UPos", "UInvert"]
UNOP_AST = [ast.Not, ast.USub, ast.UAdd, ast.Invert]
BINOPS = ["+", "-", "*", "//", "%", "&", "|", "^"]
BINOP_COQ = ["BAdd", "BSub", "BMul", "BFloorDiv", "BMod", "BBitAnd", "BBitOr", "BBitXor"]
BINOP_AST = [ast.Add, ast.Sub, ast.Mult, ast.FloorDiv, ast.Mod, ast.BitAnd, ast.BitOr, ast.BitXor]
CMPOPS = ["==", "!=", "<", "<=", ">", ">="]
CMPOP_COQ = ["CEq", "CNe", "CLt", "CLe", "CGt", "CGe"]
CMPOP_AST = [ast.Eq, ast.NotEq, ast.Lt, ast.LtE, ast.Gt, ast.GtE]
BOOLOPS = ["and", "or"]
BOOLOP_COQ = ["BoAnd", "BoOr"]
# EOther kinds: 0 lambda (child: body), 1 set display, 2 dict display (children: keys then values),
# 3 f-string (children: the formatted values), 4 slice lower:upper, 5 string constant (no children)
OTHER_STMTS = ["del v0", "assert v0", "raise v0", "import math", "global g0", "try:\n    pass\nfinally:\n    pass",
               "class C0:\n    pass", "match v0:\n    case _:\n        pass", "async def h0():\n    pass"]
ATTR_SPECIAL = {"is_some": 900, "unwrap_nothing": 901, "unwrap": 902}
ATTR_SPECIAL_INV = {v: k for k, v in ATTR_SPECIAL.items()}


class Unencodable(Exception):
    pass


# ---------------------------------------------------------------------------------- printers
def esrc(e, prec=0):
    """Python source of an expression (fully parenthesised where needed)."""
    k = e[0]
    if k == "int":
        return str(e[1]) if e[1] >= 0 else f"({e[1]})"
    if k == "bool":
        return "True" if e[1] else "False"
    if k == "none":
        return "None"
    if k == "vu":
        return f"v{e[1]}"
    if k == "vt":
        return f"%tmp{e[1]}"
    if k == "un":
        return f"({UNOPS[e[1]]} {esrc(e[2])})"
    if k == "bin":
        return f"({esrc(e[2])} {BINOPS[e[1]]} {esrc(e[3])})"
    if k == "cmp":
        return "(" + esrc(e[1]) + "".join(f" {CMPOPS[o]} {esrc(x)}" for o, x in e[2]) + ")"
    if k == "bool2":
        # right-nested same-operator chains are printed flat: that is what Python parses to a
        # flat BoolOp and what the builder re-nests
        parts, cur = [e[2]], e[3]
        while cur[0] == "bool2" and cur[1] == e[1]:
            parts.append(cur[2])
            cur = cur[3]
        parts.append(cur)
        return "(" + f" {BOOLOPS[e[1]]} ".join(esrc(p) for p in parts) + ")"
    if k == "if":
        return f"({esrc(e[2])} if {esrc(e[1])} else {esrc(e[3])})"
    if k == "walrus":
        return f"(v{e[1]} := {esrc(e[2])})"
    if k == "call":
        return f"{esrc(e[1])}({', '.join(esrc(a) for a in e[2])})"
    if k == "tuple":
        return "(" + "".join(esrc(a) + ", " for a in e[1]) + ")" if e[1] else "()"
    if k == "list":
        return "[" + ", ".join(esrc(a) for a in e[1]) + "]"
    if k == "sub":
        if e[2][0] == "other" and e[2][1] == 4:
            return f"{esrc(e[1])}[{esrc(e[2][2][0])}:{esrc(e[2][2][1])}]"
        return f"{esrc(e[1])}[{esrc(e[2])}]"
    if k == "attr":
        return f"{esrc(e[1])}.{ATTR_SPECIAL_INV.get(e[2], 'a%d' % e[2])}"
    if k == "star":
        return f"*{esrc(e[1])}"
    if k in ("comp", "des"):
        gens = "".join(f" for {tsrc(t)} in {esrc(it)}" + "".join(f" if {esrc(c)}" for c in ifs) for t, it, ifs in e[3])
        body = esrc(e[2]) + gens
        return f"[{body}]" if e[1] == 0 else f"({body})"
    if k == "comptime":
        return f"comptime({', '.join(esrc(a) for a in e[1])})"
    if k == "other":
        kk, es = e[1], e[2]
        if kk == 0:
            return f"(lambda: {esrc(es[0])})"
        if kk == 1:
            return "{" + ", ".join(esrc(a) for a in es) + "}"
        if kk == 2:
            h = len(es) // 2
            return "{" + ", ".join(f"{esrc(es[i])}: {esrc(es[h + i])}" for i in range(h)) + "}"
        if kk == 3:
            return 'f"' + "".join("{ " + esrc(a) + " }" for a in es) + '"'
        if kk == 5:
            return '"s"'
        raise Unencodable(f"other kind {kk} outside a subscript")
    if k == "makeiter":
        return f"MakeIter({esrc(e[1])})"
    if k == "iternext":
        return f"IterNext({esrc(e[1])})"
    raise Unencodable(k)


def tsrc(t, top=True):
    """source of an assignment target (no outer parentheses for a top-level tuple: `a, *b = ...`)"""
    if t[0] == "tuple" and t[1]:
        body = ", ".join(tsrc(x, False) for x in t[1]) + ("," if len(t[1]) == 1 else "")
        return body if top else "(" + body + ")"
    if t[0] == "list":
        return "[" + ", ".join(tsrc(x, False) for x in t[1]) + "]"
    if t[0] == "star":
        return "*" + tsrc(t[1], False)
    return esrc(t)


def ssrc(s, ind):
    pad = "    " * ind
    k = s[0]
    if k == "assign":
        return pad + "".join(tsrc(t) + " = " for t in s[1]) + esrc(s[2]) + "\n"
    if k == "aug":
        return pad + f"{esrc(s[1])} {BINOPS[s[2]]}= {esrc(s[3])}\n"
    if k == "ann":
        t = esrc(s[1])
        if s[1][0] != "vu":
            t = t  # subscripts/attributes are legal annotated targets as they are
        return pad + f"{t}: int" + (f" = {esrc(s[2])}" if s[2] is not None else "") + "\n"
    if k == "expr":
        return pad + esrc(s[1]) + "\n"
    if k == "ifs":
        out = pad + f"if {esrc(s[1])}:\n" + block_src(s[2], ind + 1)
        if s[3]:
            out += pad + "else:\n" + block_src(s[3], ind + 1)
        return out
    if k == "while":
        out = pad + f"while {esrc(s[1])}:\n" + block_src(s[2], ind + 1)
        if s[3]:
            out += pad + "else:\n" + block_src(s[3], ind + 1)
        return out
    if k == "for":
        out = pad + f"for {tsrc(s[1])} in {esrc(s[2])}:\n" + block_src(s[3], ind + 1)
        if s[4]:
            out += pad + "else:\n" + block_src(s[4], ind + 1)
        return out
    if k in ("break", "continue", "pass"):
        return pad + k + "\n"
    if k == "return":
        return pad + ("return\n" if s[1] is None else f"return {esrc(s[1])}\n")
    if k == "def":
        # an empty body is printed as a docstring-only function (parse_function_with_docstring strips it)
        body = block_src(s[1], ind + 1) if s[1] else "    " * (ind + 1) + '"""doc"""\n'
        return pad + f"def g() -> {'None' if s[2] else 'int'}:\n" + body
    if k == "otherstmt":
        return "".join(pad + line + "\n" for line in OTHER_STMTS[s[1] % len(OTHER_STMTS)].split("\n"))
    raise Unencodable(k)


def block_src(ss, ind):
    return "".join(ssrc(s, ind) for s in ss) if ss else "    " * ind + "pass\n"


def program_src(body):
    return "def f(v0, v1, v2, v3, v4, v5, v6, v7):\n" + ("".join(ssrc(s, 1) for s in body) if body else "    pass\n")


# ---- Coq
def clist(xs, nil, cons):
    out = nil
    for x in reversed(xs):
        out = f"({cons} {x} {out})"
    return out


def ecoq(e):
    k = e[0]
    if k == "int":
        return f"(EConst (CInt ({e[1]})))"
    if k == "bool":
        return f"(EConst (CBool {'true' if e[1] else 'false'}))"
    if k == "none":
        return "(EConst CNone)"
    if k == "vu":
        return f"(EName (VU {e[1]}))"
    if k == "vt":
        return f"(EName (VT {e[1]}))"
    if k == "un":
        return f"(EUnary {UNOP_COQ[e[1]]} {ecoq(e[2])})"
    if k == "bin":
        return f"(EBin {BINOP_COQ[e[1]]} {ecoq(e[2])} {ecoq(e[3])})"
    if k == "cmp":
        t = None
        for o, x in reversed(e[2]):
            t = f"(CLast {CMPOP_COQ[o]} {ecoq(x)})" if t is None else f"(CMore {CMPOP_COQ[o]} {ecoq(x)} {t})"
        return f"(ECmp {ecoq(e[1])} {t})"
    if k == "bool2":
        return f"(EBool {BOOLOP_COQ[e[1]]} {ecoq(e[2])} {ecoq(e[3])})"
    if k == "if":
        return f"(EIf {ecoq(e[1])} {ecoq(e[2])} {ecoq(e[3])})"
    if k == "walrus":
        return f"(EWalrus {e[1]} {ecoq(e[2])})"
    if k == "call":
        return f"(ECall {ecoq(e[1])} {escoq(e[2])})"
    if k == "tuple":
        return f"(ETuple {escoq(e[1])})"
    if k == "list":
        return f"(EList {escoq(e[1])})"
    if k == "sub":
        return f"(ESub {ecoq(e[1])} {ecoq(e[2])})"
    if k == "attr":
        return f"(EAttr {ecoq(e[1])} {e[2]})"
    if k == "star":
        return f"(EStarred {ecoq(e[1])})"
    if k in ("comp", "des"):
        g = "GNil"
        for t, it, ifs in reversed(e[3]):
            g = f"(GCons {ecoq(t)} {ecoq(it)} {escoq(ifs)} {g})"
        return f"({'EComp' if k == 'comp' else 'EDesugared'} {'KList' if e[1] == 0 else 'KGen'} {ecoq(e[2])} {g})"
    if k == "comptime":
        return f"(EComptime {escoq(e[1])})"
    if k == "other":
        return f"(EOther {e[1]} {escoq(e[2])})"
    raise Unencodable(k)


def escoq(es):
    return clist([ecoq(x) for x in es], "ENil", "ECons")


def scoq(s):
    k = s[0]
    if k == "assign":
        return f"(SAssign {escoq(s[1])} {ecoq(s[2])})"
    if k == "aug":
        return f"(SAug {ecoq(s[1])} {BINOP_COQ[s[2]]} {ecoq(s[3])})"
    if k == "ann":
        return f"(SAnn {ecoq(s[1])} {'None' if s[2] is None else '(Some ' + ecoq(s[2]) + ')'})"
    if k == "expr":
        return f"(SExpr {ecoq(s[1])})"
    if k == "ifs":
        return f"(SIf {ecoq(s[1])} {sscoq(s[2])} {sscoq(s[3])})"
    if k == "while":
        return f"(SWhile {ecoq(s[1])} {sscoq(s[2])} {sscoq(s[3])})"
    if k == "for":
        return f"(SFor {ecoq(s[1])} {ecoq(s[2])} {sscoq(s[3])} {sscoq(s[4])})"
    if k == "break":
        return "SBreak"
    if k == "continue":
        return "SContinue"
    if k == "pass":
        return "SPass"
    if k == "return":
        return f"(SReturn {'None' if s[1] is None else '(Some ' + ecoq(s[1]) + ')'})"
    if k == "def":
        return f"(SDef {sscoq(s[1])} {'true' if s[2] else 'false'})"
    if k == "otherstmt":
        return f"(SOther {s[1]})"
    raise Unencodable(k)


def sscoq(ss):
    return clist([scoq(x) for x in ss], "SNil", "SCons")


# ---- tokens (mirror of Encode.v)
def etok(e, out):
    k = e[0]
    if k == "int":
        out += [0, e[1]]
    elif k == "bool":
        out += [1, int(e[1])]
    elif k == "none":
        out += [2]
    elif k == "vu":
        out += [3, e[1]]
    elif k == "vt":
        out += [4, e[1]]
    elif k == "un":
        out += [5, e[1]]; etok(e[2], out)
    elif k == "bin":
        out += [6, e[1]]; etok(e[2], out); etok(e[3], out)
    elif k == "cmp":
        out += [7]; etok(e[1], out); out += [len(e[2])]
        for o, x in e[2]:
            out += [o]; etok(x, out)
    elif k == "bool2":
        out += [8, e[1]]; etok(e[2], out); etok(e[3], out)
    elif k == "if":
        out += [9]; etok(e[1], out); etok(e[2], out); etok(e[3], out)
    elif k == "walrus":
        out += [10, e[1]]; etok(e[2], out)
    elif k == "call":
        out += [11]; etok(e[1], out); out += [len(e[2])]
        for a in e[2]:
            etok(a, out)
    elif k in ("tuple", "list"):
        out += [12 if k == "tuple" else 13, len(e[1])]
        for a in e[1]:
            etok(a, out)
    elif k == "sub":
        out += [14]; etok(e[1], out); etok(e[2], out)
    elif k == "attr":
        out += [15]; etok(e[1], out); out += [e[2]]
    elif k == "star":
        out += [16]; etok(e[1], out)
    elif k in ("comp", "des"):
        out += [17 if k == "comp" else 18, e[1]]; etok(e[2], out); out += [len(e[3])]
        for t, it, ifs in e[3]:
            etok(t, out); etok(it, out); out += [len(ifs)]
            for c in ifs:
                etok(c, out)
    elif k == "comptime":
        out += [19, len(e[1])]
        for a in e[1]:
            etok(a, out)
    elif k == "other":
        out += [20, e[1], len(e[2])]
        for a in e[2]:
            etok(a, out)
    elif k == "makeiter":
        out += [21]; etok(e[1], out)
    elif k == "iternext":
        out += [22]; etok(e[1], out)
    else:
        raise Unencodable(k)


def opt_tok(e, out):
    if e is None:
        out += [0]
    else:
        out += [1]; etok(e, out)


def bstmt_tok(s, out):
    k = s[0]
    if k == "assign":
        out += [30, len(s[1])]
        for t in s[1]:
            etok(t, out)
        etok(s[2], out)
    elif k == "aug":
        out += [31]; etok(s[1], out); out += [s[2]]; etok(s[3], out)
    elif k == "ann":
        out += [32]; etok(s[1], out); opt_tok(s[2], out)
    elif k == "expr":
        out += [33]; etok(s[1], out)
    elif k == "return":
        out += [34]; opt_tok(s[1], out)
    elif k == "bdef":
        out += [35, s[1]]
    else:
        raise Unencodable(k)


def cfg_tok(blocks, out):
    out += [len(blocks)]
    for b in blocks:
        out += [len(b["stmts"])]
        for s in b["stmts"]:
            bstmt_tok(s, out)
        opt_tok(b["pred"], out)
        out += [len(b["succs"])] + b["succs"] + [len(b["dummy"])] + b["dummy"] + [int(b["reach"])]


# ---------------------------------------------------------------------------------- real ast -> terms
def _name(n):
    if n.startswith("%tmp"):
        return ("vt", int(n[4:]))
    if n.startswith("v") and n[1:].isdigit():
        return ("vu", int(n[1:]))
    raise Unencodable(f"name {n}")


def from_expr(n):
    """real ast node (possibly containing guppylang's internal nodes) -> term"""
    cls = type(n).__name__
    if isinstance(n, ast.Constant):
        if n.value is None:
            return ("none",)
        if isinstance(n.value, bool):
            return ("bool", n.value)
        if isinstance(n.value, int):
            return ("int", n.value)
        if isinstance(n.value, str):
            return ("other", 5, [])
        raise Unencodable(f"constant {n.value!r}")
    if isinstance(n, ast.Name):
        return _name(n.id)
    if isinstance(n, ast.UnaryOp):
        return ("un", [type(n.op) is c for c in UNOP_AST].index(True), from_expr(n.operand))
    if isinstance(n, ast.BinOp):
        return ("bin", [type(n.op) is c for c in BINOP_AST].index(True), from_expr(n.left), from_expr(n.right))
    if isinstance(n, ast.Compare):
        return ("cmp", from_expr(n.left), [([type(o) is c for c in CMPOP_AST].index(True), from_expr(x))
                                           for o, x in zip(n.ops, n.comparators)])
    if isinstance(n, ast.BoolOp):
        op = 0 if isinstance(n.op, ast.And) else 1
        vals = [from_expr(v) for v in n.values]
        cur = vals[-1]
        for v in reversed(vals[:-1]):
            cur = ("bool2", op, v, cur)
        return cur
    if isinstance(n, ast.IfExp):
        return ("if", from_expr(n.test), from_expr(n.body), from_expr(n.orelse))
    if isinstance(n, ast.NamedExpr):
        return ("walrus", _name(n.target.id)[1], from_expr(n.value))
    if cls == "ComptimeExpr":
        v = n.value
        if isinstance(v, ast.Tuple) and _is_synth_tuple(v, n):
            return ("comptime", [from_expr(x) for x in v.elts])
        return ("comptime", [from_expr(v)])
    if isinstance(n, ast.Call):
        if n.keywords:
            raise Unencodable("keywords")
        if isinstance(n.func, ast.Name) and n.func.id in ("comptime", "py"):
            return ("comptime", [from_expr(a) for a in n.args])
        return ("call", from_expr(n.func), [from_expr(a) for a in n.args])
    if isinstance(n, ast.Tuple):
        return ("tuple", [from_expr(a) for a in n.elts])
    if isinstance(n, ast.List):
        return ("list", [from_expr(a) for a in n.elts])
    if isinstance(n, ast.Subscript):
        return ("sub", from_expr(n.value), from_expr(n.slice))
    if isinstance(n, ast.Slice):
        if n.step is not None or n.lower is None or n.upper is None:
            raise Unencodable("slice shape")
        return ("other", 4, [from_expr(n.lower), from_expr(n.upper)])
    if isinstance(n, ast.Attribute):
        a = ATTR_SPECIAL.get(n.attr)
        if a is None:
            if not (n.attr.startswith("a") and n.attr[1:].isdigit()):
                raise Unencodable(f"attr {n.attr}")
            a = int(n.attr[1:])
        return ("attr", from_expr(n.value), a)
    if isinstance(n, ast.Starred):
        return ("star", from_expr(n.value))
    if isinstance(n, ast.ListComp | ast.GeneratorExp):
        return ("comp", 0 if isinstance(n, ast.ListComp) else 1, from_expr(n.elt),
                [(from_expr(g.target), from_expr(g.iter), [from_expr(c) for c in g.ifs]) for g in n.generators])
    if cls in ("DesugaredListComp", "DesugaredGeneratorExpr"):
        gens = []
        for g in n.generators:
            assert type(g).__name__ == "DesugaredGenerator"
            mk = g.iter_assign.value
            assert type(mk).__name__ == "MakeIter"
            assert g.iter_assign.targets[0].id == g.iter.id and g.next_call.value.id == g.iter.id
            gens.append((from_expr(g.target), ("tuple", [_name(g.iter.id), ("makeiter", from_expr(mk.value))]),
                         [from_expr(c) for c in g.ifs]))
        return ("des", 0 if cls == "DesugaredListComp" else 1, from_expr(n.elt), gens)
    if cls == "MakeIter":
        return ("makeiter", from_expr(n.value))
    if cls == "IterNext":
        return ("iternext", from_expr(n.value))
    if isinstance(n, ast.Lambda):
        return ("other", 0, [from_expr(n.body)])
    if isinstance(n, ast.Set):
        return ("other", 1, [from_expr(a) for a in n.elts])
    if isinstance(n, ast.Dict):
        return ("other", 2, [from_expr(a) for a in n.keys] + [from_expr(a) for a in n.values])
    if isinstance(n, ast.JoinedStr):
        return ("other", 3, [from_expr(v.value) for v in n.values if isinstance(v, ast.FormattedValue)])
    raise Unencodable(cls)


def _is_synth_tuple(v, call):
    # comptime(a, b) is turned into ComptimeExpr(Tuple[a, b]) located at the call; comptime((a, b)) keeps
    # the user's tuple, whose location differs from the call's
    return (getattr(v, "lineno", None), getattr(v, "col_offset", None)) == (call.lineno, call.col_offset)


def from_bstmt(s, nested_index):
    cls = type(s).__name__
    if cls == "NestedFunctionDef":
        return ("bdef", nested_index[id(s.cfg)])
    if isinstance(s, ast.Assign):
        return ("assign", [from_expr(t) for t in s.targets], from_expr(s.value))
    if isinstance(s, ast.AugAssign):
        return ("aug", from_expr(s.target), [type(s.op) is c for c in BINOP_AST].index(True), from_expr(s.value))
    if isinstance(s, ast.AnnAssign):
        return ("ann", from_expr(s.target), None if s.value is None else from_expr(s.value))
    if isinstance(s, ast.Expr):
        return ("expr", from_expr(s.value))
    if isinstance(s, ast.Return):
        return ("return", None if s.value is None else from_expr(s.value))
    raise Unencodable(cls)


# ---- the spec-side predicate on *real* nodes (mirror of Ast.simple, applied to the real builder output)
def crash_nodes(e):
    """list of descriptions of nodes in term e on which the expression checker raises InternalGuppyError"""
    k = e[0]
    bad = []
    if k in ("bool2", "if", "walrus"):
        return [k]
    if k == "cmp":
        if len(e[2]) > 1:
            return ["chained-compare"]
        return crash_nodes(e[1]) + crash_nodes(e[2][0][1])
    if k == "comp":
        return ["listcomp"] if e[1] == 0 else []
    if k in ("comptime", "other", "int", "bool", "none", "vu", "vt"):
        return []
    if k == "un":
        return crash_nodes(e[2])
    if k == "bin":
        return crash_nodes(e[2]) + crash_nodes(e[3])
    if k == "call":
        bad = crash_nodes(e[1])
        for a in e[2]:
            bad += crash_nodes(a)
        return bad
    if k in ("tuple", "list"):
        for a in e[1]:
            bad += crash_nodes(a)
        return bad
    if k == "sub":
        return crash_nodes(e[1]) + crash_nodes(e[2])
    if k in ("attr", "star", "makeiter", "iternext"):
        return crash_nodes(e[1])
    if k == "des":
        bad = crash_nodes(e[2])
        for t, it, ifs in e[3]:
            bad += crash_nodes(t) + crash_nodes(it)
            for c in ifs:
                bad += crash_nodes(c)
        return bad
    raise Unencodable(k)


def bstmt_crash_nodes(s):
    k = s[0]
    if k == "assign":
        return [x for t in s[1] for x in crash_nodes(t)] + crash_nodes(s[2])
    if k == "aug":
        return crash_nodes(s[1]) + crash_nodes(s[3])
    if k == "ann":
        return crash_nodes(s[1]) + (crash_nodes(s[2]) if s[2] is not None else [])
    if k == "expr":
        return crash_nodes(s[1])
    if k == "return":
        return crash_nodes(s[1]) if s[1] is not None else []
    return []


# ---------------------------------------------------------------------------------- generator
class Gen:
    """Seeded generator of source programs of Ast.v.  Profiles:
       full      everything (lifted constructs in every slot incl. targets, for, def, comprehensions)
       targets   assignment/for targets with lifted constructs, starred/nested patterns
       comps     comprehensions (nested, in conditions/targets, with illegal nodes)
       reject    programs the builder rejects (loop else, unsupported stmts, empty comptime, missing return)
       chainmid  chained comparisons with lifted middle operands (the model declines)"""

    def __init__(self, rng, profile):
        self.r, self.p = rng, profile
        self.hist = {}

    def note(self, k):
        self.hist[k] = self.hist.get(k, 0) + 1

    def var(self):
        return ("vu", self.r.randrange(8))

    def leaf(self):
        c = self.r.random()
        if c < 0.55:
            return self.var()
        if c < 0.8:
            return ("int", self.r.choice([0, 1, 2, 3, 5]))
        if c < 0.9:
            return ("bool", self.r.random() < 0.5)
        return ("none",)

    def expr(self, d, lifted=True, chainmid=False):
        r = self.r
        if d <= 0 or r.random() < 0.25:
            return self.leaf()
        ks = ["un", "bin", "cmp", "call", "tuple", "sub", "attr"]
        if lifted:
            ks += ["bool2", "if", "walrus", "chain", "bool2", "if"]
        if self.p in ("full", "comps") and d >= 2:
            ks += ["comp", "comp"] if self.p == "comps" else ["comp"]
        if self.p == "full":
            ks += ["list", "other", "comptime", "neg"]
        if self.p == "reject":
            ks += ["comptime0"]
        k = r.choice(ks)
        self.note("expr:" + k)
        e = lambda: self.expr(d - 1, lifted)  # noqa: E731
        if k == "un":
            return ("un", r.randrange(4), e())
        if k == "neg":
            return ("un", 1, ("int", r.choice([0, 1, 7])) if r.random() < 0.7 else ("bool", True))
        if k == "bin":
            return ("bin", r.randrange(8), e(), e())
        if k == "cmp":
            return ("cmp", e(), [(r.randrange(6), e())])
        if k == "chain":
            n = r.choice([2, 2, 3])
            mids = []
            for i in range(n):
                last = i == n - 1
                if last or self.p == "chainmid" or (self.p == "full" and r.random() < 0.1):
                    mids.append((r.randrange(6), e()))
                else:
                    mids.append((r.randrange(6), self.expr(d - 1, lifted=False) if r.random() < 0.8 else ("un", 1, ("int", 1))))
            return ("cmp", e(), mids)
        if k == "bool2":
            return ("bool2", r.randrange(2), e(), e())
        if k == "if":
            return ("if", e(), e(), e())
        if k == "walrus":
            return ("walrus", r.randrange(8), e())
        if k == "call":
            return ("call", self.var() if r.random() < 0.8 else ("attr", self.var(), r.randrange(3)),
                    [e() for _ in range(r.randrange(3))])
        if k == "tuple":
            return ("tuple", [e() for _ in range(r.choice([1, 2, 2, 3]))])
        if k == "list":
            return ("list", [e() for _ in range(r.randrange(3))])
        if k == "sub":
            if self.p == "full" and r.random() < 0.15:
                return ("sub", e(), ("other", 4, [e(), e()]))
            return ("sub", e(), e())
        if k == "attr":
            return ("attr", e(), r.randrange(3))
        if k == "comp":
            return self.comp(d - 1)
        if k == "other":
            kk = r.choice([0, 1, 2, 3, 5])
            if kk == 0:
                return ("other", 0, [e()])
            if kk == 1:
                return ("other", 1, [e() for _ in range(r.choice([1, 2]))])
            if kk == 2:
                n = r.choice([1, 2])
                return ("other", 2, [e() for _ in range(2 * n)])
            if kk == 3:
                return ("other", 3, [e() for _ in range(r.choice([1, 2]))])
            return ("other", 5, [])
        if k == "comptime":
            return ("comptime", [e() for _ in range(r.choice([1, 1, 2]))])
        if k == "comptime0":
            return ("comptime", [])
        raise AssertionError(k)

    def comp(self, d):
        r = self.r
        illegal_ok = r.random() < (0.25 if self.p == "comps" else 0.15)
        gens = []
        for _ in range(r.choice([1, 1, 2])):
            t = self.target(d, lifted=illegal_ok, in_comp=True)
            it = self.expr(d, lifted=illegal_ok)
            ifs = [self.expr(d, lifted=illegal_ok) for _ in range(r.choice([0, 0, 1, 2]))]
            gens.append((t, it, ifs))
        self.note("comp:" + ("maybe-illegal" if illegal_ok else "legal"))
        return ("comp", r.randrange(2), self.expr(d, lifted=illegal_ok), gens)

    def target(self, d, lifted=True, in_comp=False, top=True):
        r = self.r
        c = r.random()
        if d <= 0 or c < 0.35:
            return self.var()
        if c < 0.6:
            self.note("target:subscript")
            return ("sub", self.expr(d - 1, lifted) if r.random() < 0.3 else self.var(), self.expr(d, lifted))
        if c < 0.7:
            self.note("target:attribute")
            return ("attr", self.expr(d - 1, lifted) if r.random() < 0.4 else self.var(), r.randrange(3))
        if c < 0.9:
            self.note("target:tuple")
            n = r.choice([1, 2, 3])
            elts = [self.target(d - 1, lifted, in_comp, False) for _ in range(n)]
            if r.random() < 0.4:
                i = r.randrange(n)
                self.note("target:starred")
                elts[i] = ("star", self.target(d - 1, lifted, in_comp, False))
            return ("tuple", elts)
        self.note("target:list")
        return ("list", [self.target(d - 1, lifted, in_comp, False) for _ in range(r.choice([1, 2]))])

    def stmts(self, d, inloop, n=None, infunc_returns=None):
        r = self.r
        n = n if n is not None else r.choice([1, 2, 2, 3, 4])
        return [self.stmt(d, inloop) for _ in range(n)]

    def stmt(self, d, inloop):
        r = self.r
        ks = ["assign", "assign", "aug", "ann", "expr", "return", "pass"]
        if d > 0:
            ks += ["ifs", "ifs", "while", "for", "for", "def"]
        if inloop:
            ks += ["break", "continue"]
        if self.p == "targets":
            ks += ["assign", "aug", "ann", "for"] * 2
        if self.p == "reject":
            ks += ["otherstmt", "loopelse"]
        if self.p == "full":
            ks += ["multi"]
            if r.random() < 0.03:
                ks += ["otherstmt", "loopelse"]
        k = r.choice(ks)
        self.note("stmt:" + k)
        ed = 2 if self.p in ("comps",) else r.choice([1, 2, 2, 3])
        e = lambda: self.expr(ed)  # noqa: E731
        if k == "assign":
            return ("assign", [self.target(2)], e())
        if k == "multi":
            return ("assign", [self.target(1), self.target(2)], e())
        if k == "aug":
            t = self.target(2)
            while t[0] in ("tuple", "list", "star"):
                t = self.target(2)
            return ("aug", t, r.randrange(8), e())
        if k == "ann":
            t = self.target(2)
            while t[0] in ("tuple", "list", "star"):
                t = self.target(2)
            return ("ann", t, e() if r.random() < 0.85 else None)
        if k == "expr":
            return ("expr", e())
        if k == "return":
            return ("return", e() if r.random() < 0.8 else None)
        if k == "pass":
            return ("pass",)
        if k == "break":
            return ("break",)
        if k == "continue":
            return ("continue",)
        if k == "ifs":
            return ("ifs", e(), self.stmts(d - 1, inloop), self.stmts(d - 1, inloop) if r.random() < 0.6 else [])
        if k == "while":
            return ("while", e(), self.stmts(d - 1, True), [])
        if k == "for":
            return ("for", self.target(2), e(), self.stmts(d - 1, True), [])
        if k == "loopelse":
            if r.random() < 0.5:
                return ("while", e(), self.stmts(0, True, 1), [("pass",)])
            return ("for", self.var(), e(), self.stmts(0, True, 1), [("pass",)])
        if k == "def":
            rn = r.random() < 0.5
            if r.random() < 0.08:
                self.note("def:docstring-only")
                return ("def", [], rn)
            body = self.stmts(d - 1, False)
            if not rn and r.random() < 0.8:
                body = body + [("return", e())]
            return ("def", strip_doc(body) or [("pass",)], rn)
        if k == "otherstmt":
            return ("otherstmt", r.randrange(len(OTHER_STMTS)))
        raise AssertionError(k)

    def program(self):
        d = self.r.choice([1, 2, 2, 3])
        body = self.stmts(d, False, self.r.choice([1, 2, 3, 4, 5]))
        rn = self.r.random() < 0.7
        if not rn and self.r.random() < 0.8:
            body = body + [("return", self.expr(2))]
        return body, rn


# ---------------------------------------------------------------------------------- source ast -> terms
def from_src_stmt(s):
    """a *source* statement (fresh from ast.parse) -> term; used to validate the printers"""
    if isinstance(s, ast.Assign):
        return ("assign", [from_expr(t) for t in s.targets], from_expr(s.value))
    if isinstance(s, ast.AugAssign):
        return ("aug", from_expr(s.target), [type(s.op) is c for c in BINOP_AST].index(True), from_expr(s.value))
    if isinstance(s, ast.AnnAssign):
        return ("ann", from_expr(s.target), None if s.value is None else from_expr(s.value))
    if isinstance(s, ast.Expr):
        return ("expr", from_expr(s.value))
    if isinstance(s, ast.Return):
        return ("return", None if s.value is None else from_expr(s.value))
    if isinstance(s, ast.If):
        return ("ifs", from_expr(s.test), [from_src_stmt(x) for x in s.body], [from_src_stmt(x) for x in s.orelse])
    if isinstance(s, ast.While):
        return ("while", from_expr(s.test), [from_src_stmt(x) for x in s.body], [from_src_stmt(x) for x in s.orelse])
    if isinstance(s, ast.For):
        return ("for", from_expr(s.target), from_expr(s.iter), [from_src_stmt(x) for x in s.body],
                [from_src_stmt(x) for x in s.orelse])
    if isinstance(s, ast.Break):
        return ("break",)
    if isinstance(s, ast.Continue):
        return ("continue",)
    if isinstance(s, ast.Pass):
        return ("pass",)
    if isinstance(s, ast.FunctionDef):
        rn = isinstance(s.returns, ast.Constant) and s.returns.value is None
        return ("def", strip_doc([from_src_stmt(x) for x in s.body]), rn)
    return ("otherstmt", type(s).__name__)


def strip_doc(body):
    """the real builder removes a leading string-constant expression statement of a nested function"""
    if body and body[0] == ("expr", ("other", 5, [])):
        return body[1:]
    return body


def norm(t):
    """normal form for comparing a generated term with the re-parsed source"""
    if isinstance(t, tuple):
        if t and t[0] == "otherstmt":
            return ("otherstmt",)
        return tuple(norm(x) for x in t)
    if isinstance(t, list):
        return tuple(norm(x) for x in t)
    return t
