"""C02 implementation-side runner: classify guppy programs as accepted / rejected / discarded / FAIL.

Run with the environment of vlib.impl_env:

    PYTHONPATH=/verif/tools:$VERIF_REPO/guppylang/src:$VERIF_REPO/guppylang-internals/src \
    PYTHONHASHSEED=0 VERIF_REPO=/repo /venv/bin/python impl_search.py < request.json > records.json

Request (stdin): {"dir": <existing scratch dir>, "programs": [{"id", "src"}...], "compile": bool,
                  "shrink": bool, "timeout_s": int, "workers": int (optional, default 6)}
Reply (stdout): JSON list, one record per program, in request order (see `_blank_record`).

Replay one module:  impl_search.py --replay file.py [--no-compile]

Isolation: guppylang is imported (and warmed up on two fixed tiny programs) once in the parent.
Forking one process per program is not affordable on the sandbox (page faults after fork() cost
seconds), so `workers` persistent worker processes are forked from the warmed parent; worker w runs
programs w, w+workers, ... and after *every* program restores guppylang's global state (DEF_STORE
tables and sources, ENGINE caches and extensions, the experimental-features flag, sys.modules entries
of program modules, recursion limit, excepthook) from a snapshot.  Every FAIL (and its shrunk form) is
then re-run in a *fresh* process forked from the warmed parent; if the fresh run disagrees, the fresh
result replaces the record (`confirmed: false`, `worker_view` keeps what the worker saw).
Timeouts are user-CPU seconds (ITIMER_VIRTUAL), plus a generous wall-clock watchdog in the parent.
Extra record keys: "frame" (innermost guppylang frame file:line:function), "sig" (failure class of
FAIL records: [stage, exc_class, file:function, span-violation kind]), "confirmed".
"""
import repo_shim  # noqa: F401  (must be first: selects the tree under test via VERIF_REPO)

import ast
import importlib.util
import json
import os
import re
import selectors
import signal
import sys
import time
import traceback
import warnings

warnings.simplefilter("ignore", SyntaxWarning)

REPO = os.path.realpath(os.environ.get("VERIF_REPO", "/repo"))
SRC_DIRS = (
    os.path.join(REPO, "guppylang", "src") + os.sep,
    os.path.join(REPO, "guppylang-internals", "src") + os.sep,
)
MARKER = "# --- main ---"
DEFAULT_WORKERS = 6
SHRINK_MAX_ATTEMPTS = 40


class _Timeout(BaseException):
    """Private: raised by the SIGVTALRM handler."""


def _on_alarm(signum, frame):
    raise _Timeout()


# ----------------------------------------------------------------------------------------------
# Running one program (in the current process)
# ----------------------------------------------------------------------------------------------

def _blank_record(pid):
    return {
        "id": pid, "outcome": None, "stage": None, "exc_class": None, "diag_class": None,
        "title": None, "rendered": None, "spans": [], "fail_reason": None, "traceback": None,
        "frame": None, "shrunk_src": None, "secs": 0.0,
    }


def _in_tree(filename):
    try:
        f = os.path.realpath(filename)
    except Exception:
        return False
    return f.startswith(SRC_DIRS[0]) or f.startswith(SRC_DIRS[1])


def _tb_frames(exc):
    try:
        return traceback.extract_tb(exc.__traceback__)
    except RecursionError:
        return []


def _innermost_tree_frame(frames):
    for fr in reversed(frames):
        if _in_tree(fr.filename):
            rel = os.path.realpath(fr.filename)
            for d in SRC_DIRS:
                if rel.startswith(d):
                    rel = rel[len(d):]
            return f"{rel}:{fr.lineno}:{fr.name}"
    return None


def _fmt_tb(exc, limit=12, full=False):
    try:
        frames = _tb_frames(exc)
        if not full:
            frames = frames[-limit:]
        out = []
        for fr in frames:
            out.append(f'  File "{fr.filename}", line {fr.lineno}, in {fr.name}\n    {fr.line}')
        msg = _exc_msg(exc)
        out.append(f"{type(exc).__name__}: {msg}")
        return "\n".join(out)
    except Exception as e2:  # pragma: no cover
        return f"<traceback unavailable: {type(e2).__name__}>"


def _exc_msg(exc):
    try:
        s = str(exc)
    except Exception:
        s = "<unprintable>"
    return s[:500]


def decorated_regions(src):
    """Line ranges (first decorator line .. end_lineno) of all decorated top-level definitions."""
    regions = []
    try:
        tree = ast.parse(src)
    except SyntaxError:
        return regions
    for node in tree.body:
        if isinstance(node, (ast.FunctionDef, ast.AsyncFunctionDef, ast.ClassDef)):
            if node.decorator_list:
                start = min(d.lineno for d in node.decorator_list)
                regions.append((start, node.end_lineno))
    return regions


def check_span(span_like, path, lines, regions):
    """Returns (normalised span list or None, reason or None)."""
    from guppylang_internals.span import to_span

    try:
        sp = to_span(span_like)
    except BaseException as e:  # noqa: BLE001
        return None, f"to_span raised {type(e).__name__}: {_exc_msg(e)}"
    s, e = sp.start, sp.end
    norm = [s.file, s.line, s.column, e.line, e.column]
    if s.file != path or e.file != path:
        return norm, f"span file {s.file!r} is not the program file"
    n = len(lines)
    if not (1 <= s.line <= e.line <= n):
        return norm, f"span lines {s.line}..{e.line} outside file (1..{n})"
    if (s.line, s.column) > (e.line, e.column):
        return norm, f"span start {s.line}:{s.column} after end {e.line}:{e.column}"
    if not (0 <= s.column <= len(lines[s.line - 1])):
        return norm, f"start column {s.column} outside line {s.line} (len {len(lines[s.line - 1])})"
    if not (0 <= e.column <= len(lines[e.line - 1])):
        return norm, f"end column {e.column} outside line {e.line} (len {len(lines[e.line - 1])})"
    if not any(a <= s.line and e.line <= b for a, b in regions):
        return norm, f"span lines {s.line}..{e.line} not inside a decorated definition {regions}"
    return norm, None


def render(err):
    from guppylang_internals.diagnostic import DiagnosticsRenderer
    from guppylang_internals.engine import DEF_STORE

    r = DiagnosticsRenderer(DEF_STORE.sources)
    r.render_diagnostic(err.error)
    return "\n".join(r.buffer)


def _classify_exception(rec, exc, stage, path, src, full_tb=False):
    from guppylang_internals.error import GuppyError

    rec["stage"] = stage
    rec["exc_class"] = type(exc).__name__
    frames = _tb_frames(exc)
    rec["frame"] = _innermost_tree_frame(frames)
    if isinstance(exc, _Timeout):
        rec["outcome"] = "FAIL"
        rec["stage"] = "timeout"
        rec["exc_class"] = "Timeout"
        rec["fail_reason"] = f"timeout during {stage}"
        rec["traceback"] = _fmt_tb(exc, full=full_tb)
        return rec
    if isinstance(exc, GuppyError):
        diag = exc.error
        rec["diag_class"] = type(diag).__name__
        # 1. rendering must not raise
        try:
            try:
                rec["title"] = str(diag.rendered_title)[:200]
            except BaseException as e:  # noqa: BLE001
                if isinstance(e, _Timeout):
                    raise
                rec["title"] = None
                raise
            text = render(exc)
            rec["rendered"] = text[:600]
        except _Timeout as e:
            return _classify_exception(rec, e, "render", path, src, full_tb)
        except BaseException as e:  # noqa: BLE001
            rec["outcome"] = "FAIL"
            rec["stage"] = "render"
            rec["exc_class"] = type(e).__name__
            rec["fail_reason"] = f"render of {rec['diag_class']} raised {type(e).__name__}: {_exc_msg(e)}"
            rec["frame"] = _innermost_tree_frame(_tb_frames(e))
            rec["traceback"] = _fmt_tb(e, full=full_tb)
            return rec
        # 2. spans
        lines = src.split("\n")
        if lines and lines[-1] == "":
            lines = lines[:-1]
        regions = decorated_regions(src)
        reasons = []
        try:
            primary = diag.span
            children = list(diag.children)
        except BaseException as e:  # noqa: BLE001
            primary, children = None, []
            reasons.append(f"diagnostic attribute access raised {type(e).__name__}")
        if primary is None:
            reasons.append("no span")
        else:
            norm, why = check_span(primary, path, lines, regions)
            if norm:
                rec["spans"].append(norm)
            if why:
                reasons.append("primary: " + why)
        for i, ch in enumerate(children):
            csp = getattr(ch, "span", None)
            if csp is None:
                continue
            norm, why = check_span(csp, path, lines, regions)
            if norm:
                rec["spans"].append(norm)
            if why:
                reasons.append(f"child {i} ({type(ch).__name__}): " + why)
        if reasons:
            rec["outcome"] = "FAIL"
            rec["stage"] = "span"
            rec["fail_reason"] = "; ".join(reasons)
            rec["traceback"] = _fmt_tb(exc, full=full_tb)
            return rec
        rec["outcome"] = "rejected"
        return rec
    # not a GuppyError
    if stage == "import" and type(exc).__name__ == "GuppyComptimeError":
        # CPython evaluated a call of a guppy function while executing the module (e.g. a mutated
        # annotation `-> f()` is evaluated at `def` time).  guppylang answers with its designed
        # user-facing "may only be called in a Guppy context" exception; the compiler never saw
        # the program, so this is not a compiler outcome.
        rec["outcome"] = "discarded"
        rec["fail_reason"] = f"{type(exc).__name__}: {_exc_msg(exc)}"
        return rec
    if not any(_in_tree(fr.filename) for fr in frames) and not isinstance(exc, RecursionError):
        rec["outcome"] = "discarded"
        rec["fail_reason"] = f"{type(exc).__name__}: {_exc_msg(exc)}"
        return rec
    rec["outcome"] = "FAIL"
    rec["fail_reason"] = f"{type(exc).__name__}: {_exc_msg(exc)}"
    rec["traceback"] = _fmt_tb(exc, full=full_tb)
    return rec


def run_program(pid, path, src, do_compile=True, timeout_s=20, full_tb=False):
    """Import module `path` (text `src`), check and compile `main`; classify.  Current process."""
    rec = _blank_record(pid)
    t0 = time.time()
    # The budget is *user CPU* seconds of this process (ITIMER_VIRTUAL): the sandbox is heavily
    # loaded and page faults after fork() cost seconds of system time, which must not be mistaken
    # for a hang of the compiler.  The parent additionally enforces a generous wall-clock limit.
    old = signal.signal(signal.SIGVTALRM, _on_alarm)
    signal.setitimer(signal.ITIMER_VIRTUAL, max(1.0, float(timeout_s)))
    stage = "import"
    try:
        try:
            modname = "m_" + re.sub(r"\W", "_", str(pid))
            spec = importlib.util.spec_from_file_location(modname, path)
            mod = importlib.util.module_from_spec(spec)
            sys.modules[modname] = mod
            spec.loader.exec_module(mod)
            main = getattr(mod, "main", None)
            if main is None or not hasattr(main, "check"):
                rec["outcome"] = "discarded"
                rec["stage"] = "import"
                rec["fail_reason"] = "module has no guppy definition `main`"
                return rec
            stage = "check"
            main.check()
            if do_compile:
                stage = "compile"
                main.compile_function()
            signal.setitimer(signal.ITIMER_VIRTUAL, 0)
            rec["outcome"] = "accepted"
            rec["stage"] = stage
            return rec
        except BaseException as exc:  # noqa: BLE001
            if isinstance(exc, KeyboardInterrupt):
                raise
            try:
                # rendering / span checking is still covered by the alarm
                return _classify_exception(rec, exc, stage, path, src, full_tb)
            except _Timeout as exc2:
                return _classify_exception(rec, exc2, "render", path, src, full_tb)
    finally:
        signal.setitimer(signal.ITIMER_VIRTUAL, 0)
        signal.signal(signal.SIGVTALRM, old)
        rec["secs"] = round(time.time() - t0, 3)


# ----------------------------------------------------------------------------------------------
# State snapshot / restore (guppylang keeps global state: DEF_STORE, ENGINE, experimental flag)
# ----------------------------------------------------------------------------------------------

def snapshot_state():
    import guppylang_internals.experimental as exp
    from guppylang_internals.engine import DEF_STORE, ENGINE

    return {
        "raw_defs": dict(DEF_STORE.raw_defs),
        "impls": {k: dict(v) for k, v in DEF_STORE.impls.items()},
        "impl_parents": dict(DEF_STORE.impl_parents),
        "frames": dict(DEF_STORE.frames),
        "wasm": dict(DEF_STORE.wasm_functions),
        "sources": dict(DEF_STORE.sources.sources),
        "ext": list(ENGINE.additional_extensions),
        "exp": exp.EXPERIMENTAL_FEATURES_ENABLED,
        "modules": set(sys.modules),
        "reclimit": sys.getrecursionlimit(),
    }


def restore_state(snap):
    """Undo everything a program run may have left behind in guppylang's global state."""
    import guppylang_internals.experimental as exp
    from guppylang_internals.engine import DEF_STORE, ENGINE

    DEF_STORE.raw_defs.clear()
    DEF_STORE.raw_defs.update(snap["raw_defs"])
    DEF_STORE.impls.clear()
    for k, v in snap["impls"].items():
        DEF_STORE.impls[k] = dict(v)
    DEF_STORE.impl_parents.clear()
    DEF_STORE.impl_parents.update(snap["impl_parents"])
    DEF_STORE.frames.clear()
    DEF_STORE.frames.update(snap["frames"])
    DEF_STORE.wasm_functions.clear()
    DEF_STORE.wasm_functions.update(snap["wasm"])
    DEF_STORE.sources.sources.clear()
    DEF_STORE.sources.sources.update(snap["sources"])
    ENGINE.reset()
    ENGINE.additional_extensions[:] = snap["ext"]
    exp.EXPERIMENTAL_FEATURES_ENABLED = snap["exp"]
    for m in sorted(set(sys.modules) - snap["modules"]):
        if m.startswith("m_"):
            del sys.modules[m]
    sys.setrecursionlimit(snap["reclimit"])
    sys.excepthook = sys.__excepthook__
    import linecache

    linecache.clearcache()


# ----------------------------------------------------------------------------------------------
# Process pool.  Page faults after fork() are very expensive on the sandbox (a forked child needs
# seconds to touch its heap), so workers are persistent: each worker is forked once from the warmed
# parent, handles a fixed slice (index mod workers) and restores the global state after every
# program.  FAIL records are afterwards re-confirmed in a *fresh* process (see run_request).
# ----------------------------------------------------------------------------------------------

_WARM_DIR = [None]


def _worker_main(fn, items, wfd):
    """items: list of (idx, arg).  Writes one JSON line per event."""
    try:
        if _WARM_DIR[0]:
            warm_up(_WARM_DIR[0], tag=f"w{os.getpid()}")  # fault in the heap before the clock matters
        snap = snapshot_state()
        with os.fdopen(wfd, "w") as out:
            for idx, arg in items:
                out.write(json.dumps({"start": idx}) + "\n")
                out.flush()
                try:
                    res = fn(arg)
                except BaseException as e:  # noqa: BLE001
                    res = {"__child_error__": f"{type(e).__name__}: {_exc_msg(e)}",
                           "traceback": traceback.format_exc()[-3000:]}
                try:
                    restore_state(snap)
                except BaseException as e:  # noqa: BLE001
                    res = {"__child_error__": f"restore_state: {type(e).__name__}: {_exc_msg(e)}"}
                out.write(json.dumps({"done": idx, "res": res}) + "\n")
                out.flush()
    finally:
        os._exit(0)


def fork_map(fn, args, workers=DEFAULT_WORKERS, hard_timeout_s=60.0, fresh=False):
    """Apply fn to each arg in forked workers; results in order.
    fresh=False: `workers` persistent workers, worker w handles indices w, w+workers, ...
    fresh=True : every arg gets its own freshly forked process (at most `workers` at a time).
    A worker that dies or exceeds hard_timeout_s on one item yields {"__child_error__": ...} for
    that item; the rest of its slice is handed to a new worker."""
    n = len(args)
    results = [None] * n
    if n == 0:
        return results
    if fresh:
        queues = [[(i, args[i])] for i in range(n)]
    else:
        queues = [[(i, args[i]) for i in range(w, n, workers)] for w in range(workers)]
        queues = [q for q in queues if q]
    pending = list(reversed(queues))
    sel = selectors.DefaultSelector()
    running = {}  # rfd -> dict(pid, items, buf, cur, t0)
    sys.stdout.flush()
    sys.stderr.flush()

    def spawn(items):
        rfd, wfd = os.pipe()
        pid = os.fork()
        if pid == 0:
            os.close(rfd)
            for other in list(running):
                try:
                    os.close(other)
                except OSError:
                    pass
            _worker_main(fn, items, wfd)
        os.close(wfd)
        running[rfd] = {"pid": pid, "items": list(items), "buf": b"", "cur": None, "t0": time.time()}
        sel.register(rfd, selectors.EVENT_READ)

    def finish(rfd, why):
        st = running.pop(rfd)
        sel.unregister(rfd)
        os.close(rfd)
        if why is not None:
            try:
                os.kill(st["pid"], signal.SIGKILL)
            except OSError:
                pass
        try:
            _, status = os.waitpid(st["pid"], 0)
        except OSError:
            status = -1
        rest = [(i, a) for (i, a) in st["items"] if results[i] is None]
        if rest:
            # the item that was being processed (or the first one) is the casualty
            cur = st["cur"] if st["cur"] is not None else rest[0][0]
            results[cur] = {"__child_error__": why or f"worker died (wait status {status})"}
            rest = [(i, a) for (i, a) in rest if i != cur]
            if rest:
                pending.append(rest)

    while pending or running:
        while pending and len(running) < workers:
            spawn(pending.pop())
        for key, _ in sel.select(timeout=1.0):
            rfd = key.fd
            st = running[rfd]
            chunk = os.read(rfd, 1 << 16)
            if not chunk:
                finish(rfd, None)
                continue
            st["buf"] += chunk
            while b"\n" in st["buf"]:
                line, st["buf"] = st["buf"].split(b"\n", 1)
                try:
                    ev = json.loads(line)
                except ValueError:
                    continue
                if "start" in ev:
                    st["cur"] = ev["start"]
                    st["t0"] = time.time()
                elif "done" in ev:
                    results[ev["done"]] = ev["res"]
                    st["cur"] = None
                    st["t0"] = time.time()
        now = time.time()
        for rfd in [r for r, st in running.items() if now - st["t0"] > hard_timeout_s]:
            finish(rfd, "hard timeout")
    sel.close()
    return results


# ----------------------------------------------------------------------------------------------
# Jobs
# ----------------------------------------------------------------------------------------------

def _write(path, src):
    with open(path, "w") as f:
        f.write(src)


def _job_run(job):
    """job = {"id", "path", "src", "compile", "timeout_s"}; the file is written here."""
    _write(job["path"], job["src"])
    return run_program(job["id"], job["path"], job["src"], job["compile"], job["timeout_s"])


def _fix_child_error(res, pid):
    if isinstance(res, dict) and "__child_error__" in res:
        rec = _blank_record(pid)
        why = res["__child_error__"]
        rec["outcome"] = "FAIL"
        rec["stage"] = "timeout" if "timeout" in why else "check"
        rec["exc_class"] = "Timeout" if "timeout" in why else "ChildProcessError"
        rec["fail_reason"] = why
        rec["traceback"] = res.get("traceback")
        return rec
    return res


# ---- shrinking -------------------------------------------------------------------------------

def split_main(src):
    """(text before main, main FunctionDef, text after main) of a module text."""
    tree = ast.parse(src)
    main = None
    for node in tree.body:
        if isinstance(node, (ast.FunctionDef, ast.AsyncFunctionDef)) and node.name == "main":
            main = node
    if main is None:
        return None, None, None
    start = min([d.lineno for d in main.decorator_list] + [main.lineno])
    lines = src.split("\n")
    prefix = "\n".join(lines[: start - 1])
    suffix = "\n".join(lines[main.end_lineno:])
    return prefix, main, suffix


def join_main(prefix, main, suffix):
    text = prefix + ("\n" if prefix else "") + ast.unparse(main) + "\n"
    if suffix.strip():
        text += suffix if suffix.endswith("\n") else suffix + "\n"
    return text


def _stmt_lists(node):
    """All statement lists (the mutable python lists) nested in node, pre-order."""
    out = []
    for field in ("body", "orelse", "finalbody"):
        lst = getattr(node, field, None)
        if isinstance(lst, list) and lst and isinstance(lst[0], ast.stmt):
            out.append(lst)
            for s in lst:
                out.extend(_stmt_lists(s))
    for h in getattr(node, "handlers", []) or []:
        out.extend(_stmt_lists(h))
    for c in getattr(node, "cases", []) or []:
        out.extend(_stmt_lists(c))
    return out


def _count_stmts(main):
    return sum(len(lst) for lst in _stmt_lists(main))


def _delete_nth(main, n):
    """Delete the n-th statement (pre-order over statement lists) of a *copy*; None if impossible."""
    import copy

    m = copy.deepcopy(main)
    k = 0
    for lst in _stmt_lists(m):
        if n < k + len(lst):
            i = n - k
            if len(lst) == 1 and isinstance(lst[0], ast.Pass):
                return None
            del lst[i]
            if not lst:
                lst.append(ast.Pass())
            return m
        k += len(lst)
    return None


def _unwrap_nth(main, n):
    """Replace the n-th statement, if it is if/while/for/with/try, by its body (on a copy)."""
    import copy

    m = copy.deepcopy(main)
    k = 0
    for lst in _stmt_lists(m):
        if n < k + len(lst):
            st = lst[n - k]
            if isinstance(st, (ast.If, ast.While, ast.For, ast.With, ast.Try)) and st.body:
                lst[n - k:n - k + 1] = st.body
                return m
            return None
        k += len(lst)
    return None


def _drop_helpers(prefix_src, main_text_fn):
    """Candidates of the module prefix with one top-level statement (not an import) removed."""
    try:
        tree = ast.parse(prefix_src)
    except SyntaxError:
        return
    lines = prefix_src.split("\n")
    for node in reversed(tree.body):
        if isinstance(node, (ast.Import, ast.ImportFrom)):
            continue
        start = min([d.lineno for d in getattr(node, "decorator_list", [])] + [node.lineno])
        yield "\n".join(lines[: start - 1] + lines[node.end_lineno:])


def sig(rec):
    """Failure class of a record: (stage, exc_class, innermost guppylang frame file:function, kind)."""
    fr = rec.get("frame") or ""
    parts = fr.rsplit(":", 2)
    func = (parts[0] + ":" + parts[2]) if len(parts) == 3 else fr
    why = rec.get("fail_reason") or ""
    kind = ""
    if rec.get("stage") == "span":
        kind = re.sub(r"[0-9]+", "N", re.sub(r"'[^']*'", "'..'", why))[:60]
    return [rec.get("stage"), rec.get("exc_class"), func, kind]


def shrink_job(job):
    """job = run job + {"rec": failing record}.  Runs in a worker; every attempt is followed by a
    state restore.  Returns the shrunk module text, or None if nothing could be removed."""
    src = job["src"]
    target = sig(job["rec"])
    try:
        prefix, main, suffix = split_main(src)
    except SyntaxError:
        return None
    if main is None:
        return None
    snap = snapshot_state()
    attempts = [0]

    def still_fails(text):
        try:
            compile(text, "<shrink>", "exec")
        except (SyntaxError, ValueError):
            return None
        attempts[0] += 1
        path = job["path"][:-3] + f"_s{attempts[0]}.py"
        _write(path, text)
        try:
            r = run_program(job["id"], path, text, job["compile"], job["timeout_s"])
        finally:
            restore_state(snap)
            try:
                os.unlink(path)
            except OSError:
                pass
        return r.get("outcome") == "FAIL" and sig(r) == target

    best = None
    changed = True
    while changed and attempts[0] < SHRINK_MAX_ATTEMPTS:
        changed = False
        i = 0
        while i < _count_stmts(main) and attempts[0] < SHRINK_MAX_ATTEMPTS:
            cand = _delete_nth(main, i)
            if cand is None:
                i += 1
                continue
            text = join_main(prefix, cand, suffix)
            if still_fails(text):
                main = cand
                best = text
                changed = True
            else:
                i += 1
    # optional: replace a compound statement by its body (bounded number of extra attempts)
    unwraps = 0
    progress = True
    while progress and unwraps < 15:
        progress = False
        for k in range(_count_stmts(main)):
            cand = _unwrap_nth(main, k)
            if cand is None:
                continue
            unwraps += 1
            text = join_main(prefix, cand, suffix)
            if still_fails(text):
                main = cand
                best = text
                progress = True
                break
            if unwraps >= 15:
                break
    # optional: drop helper definitions that are not needed for the failure (cheap, bounded)
    extra = 0
    progress = True
    while progress and extra < 12:
        progress = False
        for cand_prefix in _drop_helpers(prefix, None) or ():
            extra += 1
            text = join_main(cand_prefix.rstrip("\n") + "\n", main, suffix)
            attempts[0] = min(attempts[0], SHRINK_MAX_ATTEMPTS + extra)  # helper drops are extra
            if still_fails(text):
                prefix = cand_prefix.rstrip("\n") + "\n"
                best = text
                progress = True
                break
            if extra >= 12:
                break
    return best


# ----------------------------------------------------------------------------------------------
# Entry points
# ----------------------------------------------------------------------------------------------

_WARM_SRC = '''from guppylang import guppy
from guppylang.std.builtins import array, owned, comptime, nat, result
from guppylang.std.quantum import qubit, h, cx, measure, discard
from guppylang.std.option import Option, nothing, some


@guppy
def main(q: qubit @ owned, xs: array[int, 2] @ owned) -> int:
    h(q)
    s = 0
    for x in xs:
        s += x
    if measure(q):
        s += 1
    return s
'''


def warm_up(scratch_dir, tag=""):
    """Run one fixed accepted program and one fixed rejected program in the parent so that the
    lazily imported parts of guppylang (checker, compiler, renderer) are loaded before forking."""
    snap = snapshot_state()
    path = os.path.join(scratch_dir, f"m__warm{tag}.py")
    _write(path, _WARM_SRC)
    rec = run_program("_warm", path, _WARM_SRC, True, 300)
    restore_state(snap)
    bad = _WARM_SRC.replace("s += 1\n", "s += undefined_name\n")
    _write(path, bad)
    rec2 = run_program("_warm", path, bad, True, 300)
    restore_state(snap)
    if tag:
        try:
            os.unlink(path)
        except OSError:
            pass
    if rec["outcome"] != "accepted" or rec2["outcome"] != "rejected":
        sys.stderr.write("impl_search: unexpected warm-up outcome: %r / %r\n" % (rec, rec2))
    return rec


def run_request(req):
    d = req["dir"]
    do_compile = bool(req.get("compile", True))
    timeout_s = int(req.get("timeout_s", 20))
    workers = int(req.get("workers", DEFAULT_WORKERS))
    confirm = bool(req.get("confirm", True))
    warm_up(d)
    _WARM_DIR[0] = d
    wall = timeout_s * 10 + 60  # wall-clock watchdog of the parent (per program)
    jobs = []
    for p in req["programs"]:
        pid = str(p["id"])
        fname = "m_" + re.sub(r"\W", "_", pid) + ".py"
        jobs.append({"id": pid, "path": os.path.join(d, fname), "src": p["src"],
                     "compile": do_compile, "timeout_s": timeout_s})
    raw = fork_map(_job_run, jobs, workers, wall)
    recs = [_fix_child_error(r, j["id"]) for r, j in zip(raw, jobs)]
    fails = [i for i, r in enumerate(recs) if r["outcome"] == "FAIL"]
    cap = req.get("max_fails_per_sig")
    if cap and fails:
        # A breaking change can make hundreds of mutants fail the same way; shrink and confirm only the
        # `cap` smallest programs of every failure signature (corpus programs, id "c…", always).
        groups = {}
        for i in fails:
            groups.setdefault(tuple(sig(recs[i])), []).append(i)
        keep = set()
        for idxs in groups.values():
            idxs.sort(key=lambda i: (len(jobs[i]["src"]), i))
            keep.update(idxs[:int(cap)])
        keep.update(i for i in fails if jobs[i]["id"].startswith("c"))
        for i in fails:
            if i not in keep:
                recs[i]["same_signature_not_shrunk"] = True
        fails = sorted(keep)
    if req.get("shrink") and fails:
        sjobs = [dict(jobs[i], rec=recs[i]) for i in fails]
        shr = fork_map(shrink_job, sjobs, workers, wall * 4)
        for i, s in zip(fails, shr):
            recs[i]["shrunk_src"] = s if isinstance(s, str) else None
    if confirm and fails:
        # Re-run failing programs (and their shrunk forms) each in a *fresh* process forked from the
        # warmed parent: the failure must not depend on what else ran in the same worker.
        # Identical texts are confirmed once.
        texts = {}
        for i in fails:
            for key in ("src", "shrunk_src"):
                t = jobs[i]["src"] if key == "src" else recs[i]["shrunk_src"]
                if t is not None and t not in texts:
                    texts[t] = len(texts)
        order = sorted(texts, key=texts.get)
        cjobs = [{"id": f"confirm{k}", "path": os.path.join(d, f"m_confirm{k}.py"), "src": t,
                  "compile": do_compile, "timeout_s": timeout_s} for k, t in enumerate(order)]
        cres = fork_map(_job_run, cjobs, workers, wall, fresh=True)
        cres = [_fix_child_error(r, j["id"]) for r, j in zip(cres, cjobs)]
        by_text = {t: r for t, r in zip(order, cres)}
        for i in fails:
            rec = recs[i]
            want = sig(rec)
            fresh_rec = by_text[jobs[i]["src"]]
            rec["confirmed"] = fresh_rec["outcome"] == "FAIL" and sig(fresh_rec) == want
            if not rec["confirmed"]:
                # The fresh process is what --replay reproduces, so it is authoritative; keep the
                # worker's view for diagnosis of the harness.
                worker_view = {k: rec[k] for k in ("outcome", "stage", "exc_class", "frame", "fail_reason")}
                shrunk = rec.get("shrunk_src")
                rec.clear()
                rec.update(fresh_rec)
                rec["id"] = jobs[i]["id"]
                rec["confirmed"] = False
                rec["worker_view"] = worker_view
                rec["shrunk_src"] = shrunk if rec["outcome"] == "FAIL" else None
                if rec["outcome"] != "FAIL":
                    continue
                want = sig(rec)
            if rec["shrunk_src"] is not None:
                sr = by_text[rec["shrunk_src"]]
                if not (sr["outcome"] == "FAIL" and sig(sr) == want):
                    rec["shrunk_src"] = None
    for r in recs:
        if r["outcome"] == "FAIL":
            r["sig"] = sig(r)
    return recs


def replay(path, do_compile=True, timeout_s=120):
    with open(path) as f:
        src = f.read()
    path = os.path.abspath(path)
    rec = run_program(os.path.basename(path)[:-3], path, src, do_compile, timeout_s, full_tb=True)
    tb = rec.pop("traceback", None)
    rendered = rec.pop("rendered", None)
    if rec["outcome"] == "FAIL":
        rec["sig"] = sig(rec)
    print(json.dumps(rec, indent=1))
    if rendered:
        print("---- rendered diagnostic (first 600 chars) ----")
        print(rendered)
    if tb:
        print("---- traceback ----")
        print(tb)
    return rec


def main(argv):
    if len(argv) >= 2 and argv[0] == "--replay":
        rec = replay(argv[1], do_compile="--no-compile" not in argv)
        return 1 if rec["outcome"] == "FAIL" else 0
    req = json.load(sys.stdin)
    # Programs under test (and comptime expressions evaluated by the compiler) may print: keep the real
    # stdout for the JSON answer only and send everything else written to fd 1 to stderr.
    sys.stdout.flush()
    answer = os.fdopen(os.dup(1), "w")
    os.dup2(2, 1)
    recs = run_request(req)
    sys.stdout.flush()
    json.dump(recs, answer)
    answer.write("\n")
    answer.flush()
    return 0


if __name__ == "__main__":
    sys.exit(main(sys.argv[1:]))
