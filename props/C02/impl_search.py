"""C02 implementation-side runner: classify guppy programs as accepted / rejected / discarded / FAIL.

Run with the environment of vlib.impl_env:

    PYTHONPATH=/verif/tools:$VERIF_REPO/guppylang/src:$VERIF_REPO/guppylang-internals/src \
    PYTHONHASHSEED=0 VERIF_REPO=/repo /venv/bin/python impl_search.py < request.json > records.json

Request (stdin): {"dir": <existing scratch dir>, "programs": [{"id", "src"}...], "compile": bool,
                  "shrink": bool, "timeout_s": int, "workers": int (optional, default 6)}
Reply (stdout): JSON list, one record per program, in request order (see `_blank_record`).

Replay one module:  impl_search.py --replay file.py [--no-compile]

Isolation: guppylang is imported (and warmed up on one fixed tiny program) once in the parent; then
*every* program runs in its own freshly forked child process, so the outcome of a program cannot
depend on which other programs were run (DEF_STORE / ENGINE / tmp counters all start from the same
parent snapshot).  Up to `workers` children run concurrently; results are re-assembled in order.
"""
import repo_shim  # noqa: F401  (must be first: selects the tree under test via VERIF_REPO)

import ast
import importlib.util
import json
import os
import re
import selectors
import signal
import sys
import time
import traceback

REPO = os.path.realpath(os.environ.get("VERIF_REPO", "/repo"))
SRC_DIRS = (
    os.path.join(REPO, "guppylang", "src") + os.sep,
    os.path.join(REPO, "guppylang-internals", "src") + os.sep,
)
MARKER = "# --- main ---"
DEFAULT_WORKERS = 6
SHRINK_MAX_ATTEMPTS = 40


class _Timeout(BaseException):
    """Private: raised by the SIGALRM handler."""


def _on_alarm(signum, frame):
    raise _Timeout()


# ----------------------------------------------------------------------------------------------
# Running one program (in the current process)
# ----------------------------------------------------------------------------------------------

def _blank_record(pid):
    return {
        "id": pid, "outcome": None, "stage": None, "exc_class": None, "diag_class": None,
        "title": None, "rendered": None, "spans": [], "fail_reason": None, "traceback": None,
        "frame": None, "shrunk_src": None, "secs": 0.0,
    }


def _in_tree(filename):
    try:
        f = os.path.realpath(filename)
    except Exception:
        return False
    return f.startswith(SRC_DIRS[0]) or f.startswith(SRC_DIRS[1])


def _tb_frames(exc):
    try:
        return traceback.extract_tb(exc.__traceback__)
    except RecursionError:
        return []


def _innermost_tree_frame(frames):
    for fr in reversed(frames):
        if _in_tree(fr.filename):
            rel = os.path.realpath(fr.filename)
            for d in SRC_DIRS:
                if rel.startswith(d):
                    rel = rel[len(d):]
            return f"{rel}:{fr.lineno}:{fr.name}"
    return None


def _fmt_tb(exc, limit=12, full=False):
    try:
        frames = _tb_frames(exc)
        if not full:
            frames = frames[-limit:]
        out = []
        for fr in frames:
            out.append(f'  File "{fr.filename}", line {fr.lineno}, in {fr.name}\n    {fr.line}')
        msg = _exc_msg(exc)
        out.append(f"{type(exc).__name__}: {msg}")
        return "\n".join(out)
    except Exception as e2:  # pragma: no cover
        return f"<traceback unavailable: {type(e2).__name__}>"


def _exc_msg(exc):
    try:
        s = str(exc)
    except Exception:
        s = "<unprintable>"
    return s[:500]


def decorated_regions(src):
    """Line ranges (first decorator line .. end_lineno) of all decorated top-level definitions."""
    regions = []
    try:
        tree = ast.parse(src)
    except SyntaxError:
        return regions
    for node in tree.body:
        if isinstance(node, (ast.FunctionDef, ast.AsyncFunctionDef, ast.ClassDef)):
            if node.decorator_list:
                start = min(d.lineno for d in node.decorator_list)
                regions.append((start, node.end_lineno))
    return regions


def check_span(span_like, path, lines, regions):
    """Returns (normalised span list or None, reason or None)."""
    from guppylang_internals.span import to_span

    try:
        sp = to_span(span_like)
    except BaseException as e:  # noqa: BLE001
        return None, f"to_span raised {type(e).__name__}: {_exc_msg(e)}"
    s, e = sp.start, sp.end
    norm = [s.file, s.line, s.column, e.line, e.column]
    if s.file != path or e.file != path:
        return norm, f"span file {s.file!r} is not the program file"
    n = len(lines)
    if not (1 <= s.line <= e.line <= n):
        return norm, f"span lines {s.line}..{e.line} outside file (1..{n})"
    if (s.line, s.column) > (e.line, e.column):
        return norm, f"span start {s.line}:{s.column} after end {e.line}:{e.column}"
    if not (0 <= s.column <= len(lines[s.line - 1])):
        return norm, f"start column {s.column} outside line {s.line} (len {len(lines[s.line - 1])})"
    if not (0 <= e.column <= len(lines[e.line - 1])):
        return norm, f"end column {e.column} outside line {e.line} (len {len(lines[e.line - 1])})"
    if not any(a <= s.line and e.line <= b for a, b in regions):
        return norm, f"span lines {s.line}..{e.line} not inside a decorated definition {regions}"
    return norm, None


def render(err):
    from guppylang_internals.diagnostic import DiagnosticsRenderer
    from guppylang_internals.engine import DEF_STORE

    r = DiagnosticsRenderer(DEF_STORE.sources)
    r.render_diagnostic(err.error)
    return "\n".join(r.buffer)


def _classify_exception(rec, exc, stage, path, src, full_tb=False):
    from guppylang_internals.error import GuppyError

    rec["stage"] = stage
    rec["exc_class"] = type(exc).__name__
    frames = _tb_frames(exc)
    rec["frame"] = _innermost_tree_frame(frames)
    if isinstance(exc, _Timeout):
        rec["outcome"] = "FAIL"
        rec["stage"] = "timeout"
        rec["exc_class"] = "Timeout"
        rec["fail_reason"] = f"timeout during {stage}"
        rec["traceback"] = _fmt_tb(exc, full=full_tb)
        return rec
    if isinstance(exc, GuppyError):
        diag = exc.error
        rec["diag_class"] = type(diag).__name__
        # 1. rendering must not raise
        try:
            try:
                rec["title"] = str(diag.rendered_title)[:200]
            except BaseException as e:  # noqa: BLE001
                if isinstance(e, _Timeout):
                    raise
                rec["title"] = None
                raise
            text = render(exc)
            rec["rendered"] = text[:600]
        except _Timeout as e:
            return _classify_exception(rec, e, "render", path, src, full_tb)
        except BaseException as e:  # noqa: BLE001
            rec["outcome"] = "FAIL"
            rec["stage"] = "render"
            rec["exc_class"] = type(e).__name__
            rec["fail_reason"] = f"render of {rec['diag_class']} raised {type(e).__name__}: {_exc_msg(e)}"
            rec["frame"] = _innermost_tree_frame(_tb_frames(e))
            rec["traceback"] = _fmt_tb(e, full=full_tb)
            return rec
        # 2. spans
        lines = src.split("\n")
        if lines and lines[-1] == "":
            lines = lines[:-1]
        regions = decorated_regions(src)
        reasons = []
        try:
            primary = diag.span
            children = list(diag.children)
        except BaseException as e:  # noqa: BLE001
            primary, children = None, []
            reasons.append(f"diagnostic attribute access raised {type(e).__name__}")
        if primary is None:
            reasons.append("no span")
        else:
            norm, why = check_span(primary, path, lines, regions)
            if norm:
                rec["spans"].append(norm)
            if why:
                reasons.append("primary: " + why)
        for i, ch in enumerate(children):
            csp = getattr(ch, "span", None)
            if csp is None:
                continue
            norm, why = check_span(csp, path, lines, regions)
            if norm:
                rec["spans"].append(norm)
            if why:
                reasons.append(f"child {i} ({type(ch).__name__}): " + why)
        if reasons:
            rec["outcome"] = "FAIL"
            rec["stage"] = "span"
            rec["fail_reason"] = "; ".join(reasons)
            rec["traceback"] = _fmt_tb(exc, full=full_tb)
            return rec
        rec["outcome"] = "rejected"
        return rec
    # not a GuppyError
    if not any(_in_tree(fr.filename) for fr in frames) and not isinstance(exc, RecursionError):
        rec["outcome"] = "discarded"
        rec["fail_reason"] = f"{type(exc).__name__}: {_exc_msg(exc)}"
        return rec
    rec["outcome"] = "FAIL"
    rec["fail_reason"] = f"{type(exc).__name__}: {_exc_msg(exc)}"
    rec["traceback"] = _fmt_tb(exc, full=full_tb)
    return rec


def run_program(pid, path, src, do_compile=True, timeout_s=20, full_tb=False):
    """Import module `path` (text `src`), check and compile `main`; classify.  Current process."""
    rec = _blank_record(pid)
    t0 = time.time()
    old = signal.signal(signal.SIGALRM, _on_alarm)
    signal.alarm(max(1, int(timeout_s)))
    stage = "import"
    try:
        try:
            modname = "m_" + re.sub(r"\W", "_", str(pid))
            spec = importlib.util.spec_from_file_location(modname, path)
            mod = importlib.util.module_from_spec(spec)
            sys.modules[modname] = mod
            spec.loader.exec_module(mod)
            main = getattr(mod, "main", None)
            if main is None or not hasattr(main, "check"):
                rec["outcome"] = "discarded"
                rec["stage"] = "import"
                rec["fail_reason"] = "module has no guppy definition `main`"
                return rec
            stage = "check"
            main.check()
            if do_compile:
                stage = "compile"
                main.compile_function()
            signal.alarm(0)
            rec["outcome"] = "accepted"
            rec["stage"] = stage
            return rec
        except BaseException as exc:  # noqa: BLE001
            if isinstance(exc, KeyboardInterrupt):
                raise
            try:
                # rendering / span checking is still covered by the alarm
                return _classify_exception(rec, exc, stage, path, src, full_tb)
            except _Timeout as exc2:
                return _classify_exception(rec, exc2, "render", path, src, full_tb)
    finally:
        signal.alarm(0)
        signal.signal(signal.SIGALRM, old)
        rec["secs"] = round(time.time() - t0, 3)


# ----------------------------------------------------------------------------------------------
# Process isolation: one forked child per job
# ----------------------------------------------------------------------------------------------

def _child_main(fn, arg, wfd):
    try:
        try:
            res = fn(arg)
            data = json.dumps(res).encode()
        except BaseException as e:  # noqa: BLE001
            data = json.dumps({"__child_error__": f"{type(e).__name__}: {_exc_msg(e)}",
                               "traceback": traceback.format_exc()[-3000:]}).encode()
        with os.fdopen(wfd, "wb") as f:
            f.write(data)
    finally:
        os._exit(0)


def fork_map(fn, args, workers=DEFAULT_WORKERS, hard_timeout_s=60.0):
    """Apply fn to each arg in a freshly forked child each; returns results in order.
    A child that dies without output or exceeds hard_timeout_s yields {"__child_error__": ...}."""
    n = len(args)
    results = [None] * n
    sel = selectors.DefaultSelector()
    running = {}  # rfd -> [idx, pid, chunks, t0]
    nxt = 0
    sys.stdout.flush()
    sys.stderr.flush()
    while nxt < n or running:
        while nxt < n and len(running) < workers:
            rfd, wfd = os.pipe()
            pid = os.fork()
            if pid == 0:
                os.close(rfd)
                for other in running:
                    try:
                        os.close(other)
                    except OSError:
                        pass
                _child_main(fn, args[nxt], wfd)
            os.close(wfd)
            running[rfd] = [nxt, pid, [], time.time()]
            sel.register(rfd, selectors.EVENT_READ)
            nxt += 1
        events = sel.select(timeout=1.0)
        done = []
        for key, _ in events:
            rfd = key.fd
            chunk = os.read(rfd, 1 << 16)
            if chunk:
                running[rfd][2].append(chunk)
            else:
                done.append((rfd, None))
        now = time.time()
        for rfd, st in running.items():
            if now - st[3] > hard_timeout_s and all(rfd != d[0] for d in done):
                try:
                    os.kill(st[1], signal.SIGKILL)
                except OSError:
                    pass
                done.append((rfd, "hard timeout"))
        for rfd, why in done:
            idx, pid, chunks, _t0 = running.pop(rfd)
            sel.unregister(rfd)
            os.close(rfd)
            try:
                _, status = os.waitpid(pid, 0)
            except OSError:
                status = -1
            data = b"".join(chunks)
            if why is None and data:
                try:
                    results[idx] = json.loads(data)
                    continue
                except ValueError:
                    why = "unparseable child output"
            results[idx] = {"__child_error__": why or f"child died (wait status {status})"}
    sel.close()
    return results


# ----------------------------------------------------------------------------------------------
# Jobs
# ----------------------------------------------------------------------------------------------

def _write(path, src):
    with open(path, "w") as f:
        f.write(src)


def _job_run(job):
    """job = {"id", "path", "src", "compile", "timeout_s"}; the file is written here."""
    _write(job["path"], job["src"])
    return run_program(job["id"], job["path"], job["src"], job["compile"], job["timeout_s"])


def _fix_child_error(res, pid):
    if isinstance(res, dict) and "__child_error__" in res:
        rec = _blank_record(pid)
        why = res["__child_error__"]
        rec["outcome"] = "FAIL"
        rec["stage"] = "timeout" if "timeout" in why else "check"
        rec["exc_class"] = "Timeout" if "timeout" in why else "ChildProcessError"
        rec["fail_reason"] = why
        rec["traceback"] = res.get("traceback")
        return rec
    return res


def run_isolated_one(job, hard_timeout_s):
    return _fix_child_error(fork_map(_job_run, [job], 1, hard_timeout_s)[0], job["id"])


# ---- shrinking -------------------------------------------------------------------------------

def split_main(src):
    """(prefix text up to and including the marker / everything before main, main FunctionDef)."""
    tree = ast.parse(src)
    main = None
    for node in tree.body:
        if isinstance(node, (ast.FunctionDef, ast.AsyncFunctionDef)) and node.name == "main":
            main = node
    if main is None:
        return None, None, None
    start = min([d.lineno for d in main.decorator_list] + [main.lineno])
    lines = src.split("\n")
    prefix = "\n".join(lines[: start - 1])
    suffix = "\n".join(lines[main.end_lineno:])
    return prefix, main, suffix


def join_main(prefix, main, suffix):
    text = prefix + ("\n" if prefix else "") + ast.unparse(main) + "\n"
    if suffix.strip():
        text += suffix if suffix.endswith("\n") else suffix + "\n"
    return text


def _stmt_lists(node):
    """All statement lists (python lists, mutable) nested in node, pre-order."""
    out = []
    for field in ("body", "orelse", "finalbody"):
        lst = getattr(node, field, None)
        if isinstance(lst, list) and lst and isinstance(lst[0], ast.stmt):
            out.append(lst)
            for s in lst:
                out.extend(_stmt_lists(s))
    for h in getattr(node, "handlers", []) or []:
        out.extend(_stmt_lists(h))
    for c in getattr(node, "cases", []) or []:
        out.extend(_stmt_lists(c))
    return out


def _count_stmts(main):
    return sum(len(lst) for lst in _stmt_lists(main))


def _delete_nth(main, n):
    """Delete the n-th statement (pre-order over statement lists) of a *copy*; None if impossible."""
    import copy

    m = copy.deepcopy(main)
    k = 0
    for lst in _stmt_lists(m):
        if n < k + len(lst):
            i = n - k
            if len(lst) == 1 and isinstance(lst[0], ast.Pass):
                return None
            del lst[i]
            if not lst:
                lst.append(ast.Pass())
            return m
        k += len(lst)
    return None


def _sig(rec):
    fr = rec.get("frame") or ""
    parts = fr.rsplit(":", 2)
    func = (parts[0] + ":" + parts[2]) if len(parts) == 3 else fr
    why = rec.get("fail_reason") or ""
    # for span failures keep the kind of violation stable
    kind = re.sub(r"[0-9]+", "N", why)[:40] if rec.get("stage") == "span" else ""
    return (rec.get("stage"), rec.get("exc_class"), func, kind)


def shrink_job(job):
    """job = run job + {"rec": failing record}.  Returns shrunk module text (or None)."""
    src = job["src"]
    target = _sig(job["rec"])
    hard = job["timeout_s"] + 10
    try:
        prefix, main, suffix = split_main(src)
    except SyntaxError:
        return None
    if main is None:
        return None
    attempts = 0
    best = None
    changed = True
    while changed and attempts < SHRINK_MAX_ATTEMPTS:
        changed = False
        i = 0
        while i < _count_stmts(main) and attempts < SHRINK_MAX_ATTEMPTS:
            cand = _delete_nth(main, i)
            if cand is None:
                i += 1
                continue
            text = join_main(prefix, cand, suffix)
            try:
                compile(text, "<shrink>", "exec")
            except (SyntaxError, ValueError):
                i += 1
                continue
            attempts += 1
            sub = dict(job)
            sub.pop("rec", None)
            sub["src"] = text
            sub["path"] = job["path"][:-3] + f"_s{attempts}.py"
            r = run_isolated_one(sub, hard)
            try:
                os.unlink(sub["path"])
            except OSError:
                pass
            if r.get("outcome") == "FAIL" and _sig(r) == target:
                main = cand
                best = text
                changed = True
            else:
                i += 1
    return best


# ----------------------------------------------------------------------------------------------
# Entry points
# ----------------------------------------------------------------------------------------------

_WARM_SRC = '''from guppylang import guppy
from guppylang.std.builtins import array, owned, comptime, nat, result
from guppylang.std.quantum import qubit, h, cx, measure, discard
from guppylang.std.option import Option, nothing, some


@guppy
def main(q: qubit @ owned, xs: array[int, 2] @ owned) -> int:
    h(q)
    s = 0
    for x in xs:
        s += x
    if measure(q):
        s += 1
    return s
'''


def warm_up(scratch_dir):
    """Import the lazily-loaded parts of guppylang once so forked children do not repeat it."""
    path = os.path.join(scratch_dir, "m__warm.py")
    _write(path, _WARM_SRC)
    rec = run_program("_warm", path, _WARM_SRC, True, 120)
    return rec


def run_request(req):
    d = req["dir"]
    do_compile = bool(req.get("compile", True))
    timeout_s = int(req.get("timeout_s", 20))
    workers = int(req.get("workers", DEFAULT_WORKERS))
    warm = warm_up(d)
    if warm["outcome"] != "accepted":
        sys.stderr.write("impl_search: warm-up program not accepted: %r\n" % (warm,))
    jobs = []
    for p in req["programs"]:
        pid = str(p["id"])
        fname = "m_" + re.sub(r"\W", "_", pid) + ".py"
        jobs.append({"id": pid, "path": os.path.join(d, fname), "src": p["src"],
                     "compile": do_compile, "timeout_s": timeout_s})
    raw = fork_map(_job_run, jobs, workers, timeout_s + 10)
    recs = [_fix_child_error(r, j["id"]) for r, j in zip(raw, jobs)]
    if req.get("shrink"):
        idxs = [i for i, r in enumerate(recs) if r["outcome"] == "FAIL"]
        sjobs = [dict(jobs[i], rec=recs[i]) for i in idxs]
        # every shrink attempt itself runs in a fresh grandchild
        shr = fork_map(shrink_job, sjobs, workers, (timeout_s + 12) * (SHRINK_MAX_ATTEMPTS + 1))
        for i, s in zip(idxs, shr):
            recs[i]["shrunk_src"] = s if isinstance(s, str) else None
    return recs


def replay(path, do_compile=True, timeout_s=60):
    with open(path) as f:
        src = f.read()
    path = os.path.abspath(path)
    rec = run_program(os.path.basename(path)[:-3], path, src, do_compile, timeout_s, full_tb=True)
    tb = rec.pop("traceback", None)
    rendered = rec.pop("rendered", None)
    print(json.dumps(rec, indent=1))
    if rendered:
        print("---- rendered diagnostic ----")
        print(rendered)
    if tb:
        print("---- traceback ----")
        print(tb)
    return rec


def main(argv):
    if len(argv) >= 2 and argv[0] == "--replay":
        rec = replay(argv[1], do_compile="--no-compile" not in argv)
        return 1 if rec["outcome"] == "FAIL" else 0
    req = json.load(sys.stdin)
    recs = run_request(req)
    json.dump(recs, sys.stdout)
    sys.stdout.write("\n")
    return 0


if __name__ == "__main__":
    sys.exit(main(sys.argv[1:]))
