"""C02 near-miss mutations of accepted guppy programs.

    mutants(template, rng, n) -> [{"kind", "desc", "src"}, ...]      KINDS: list of mutation kinds

All randomness comes from `rng` (a random.Random); site selection walks the AST of `main`
generically.  Every mutant is a module text that CPython compiles and that differs from the template.
"""
import ast
import copy
import random
import warnings

MARKER = "# --- main ---"


# ----------------------------------------------------------------------------------------------
# module text <-> main AST
# ----------------------------------------------------------------------------------------------

def split_main(src):
    tree = ast.parse(src)
    main = None
    for node in tree.body:
        if isinstance(node, ast.FunctionDef) and node.name == "main":
            main = node
    if main is None:
        raise ValueError("template has no main")
    start = min([d.lineno for d in main.decorator_list] + [main.lineno])
    lines = src.split("\n")
    prefix = "\n".join(lines[: start - 1])
    suffix = "\n".join(lines[main.end_lineno:])
    return prefix, main, suffix


def join_main(prefix, main, suffix=""):
    ast.fix_missing_locations(main)
    text = prefix + ("\n" if prefix else "") + ast.unparse(main) + "\n"
    if suffix.strip():
        text += suffix if suffix.endswith("\n") else suffix + "\n"
    return text


def E(code):
    """Parse an expression."""
    return ast.parse(code, mode="eval").body


def S(code):
    """Parse statements."""
    return ast.parse(code).body


def N(name, ctx=None):
    return ast.Name(id=name, ctx=ctx or ast.Load())


def load(node):
    """Deep copy of an expression with all contexts set to Load."""
    node = copy.deepcopy(node)
    for n in ast.walk(node):
        if hasattr(n, "ctx"):
            n.ctx = ast.Load()
    return node


def store(node):
    node = copy.deepcopy(node)
    _set_store(node)
    return node


def _set_store(node):
    if isinstance(node, (ast.Name, ast.Attribute, ast.Subscript, ast.Starred, ast.Tuple, ast.List)):
        node.ctx = ast.Store()
    if isinstance(node, (ast.Tuple, ast.List)):
        for e in node.elts:
            _set_store(e)
    if isinstance(node, ast.Starred):
        _set_store(node.value)


# ----------------------------------------------------------------------------------------------
# generic site discovery
# ----------------------------------------------------------------------------------------------

STMT_FIELDS = ("body", "orelse", "finalbody")


def stmt_lists(node, depth=0, in_loop=False, in_nested=False, out=None):
    """[(list, owner, field, in_loop, in_nested_function)] for all statement lists under node."""
    if out is None:
        out = []
    for field in STMT_FIELDS:
        lst = getattr(node, field, None)
        if isinstance(lst, list) and lst and isinstance(lst[0], ast.stmt):
            loop_here = in_loop or (isinstance(node, (ast.While, ast.For)) and field == "body")
            nested_here = in_nested
            if isinstance(node, ast.FunctionDef) and depth > 0:
                loop_here = False
                nested_here = True
            out.append((lst, node, field, loop_here, nested_here))
            for s in lst:
                stmt_lists(s, depth + 1, loop_here, nested_here, out)
    for h in getattr(node, "handlers", []) or []:
        stmt_lists(h, depth + 1, in_loop, in_nested, out)
    for c in getattr(node, "cases", []) or []:
        stmt_lists(c, depth + 1, in_loop, in_nested, out)
    return out


def stmt_sites(main):
    """[(list, index, in_loop, in_nested)] for every statement of main."""
    out = []
    for lst, _owner, _f, in_loop, in_nested in stmt_lists(main):
        for i in range(len(lst)):
            out.append((lst, i, in_loop, in_nested))
    return out


class Slot:
    """A place holding an expression: parent.field or parent.field[index]."""

    def __init__(self, parent, field, index, ctx, where):
        self.parent, self.field, self.index, self.ctx, self.where = parent, field, index, ctx, where

    def get(self):
        v = getattr(self.parent, self.field)
        return v if self.index is None else v[self.index]

    def set(self, node):
        if self.index is None:
            setattr(self.parent, self.field, node)
        else:
            getattr(self.parent, self.field)[self.index] = node


def _is_annotation_field(parent, field):
    return (isinstance(parent, ast.arg) and field == "annotation") or \
        (isinstance(parent, ast.FunctionDef) and field == "returns") or \
        (isinstance(parent, ast.AnnAssign) and field == "annotation")


def expr_slots(main, include_targets=True, include_annotations=False):
    """All expression slots in main's body (and nested functions), with ctx "load"/"store"."""
    slots = []

    def ctx_of(node):
        c = getattr(node, "ctx", None)
        return "store" if isinstance(c, (ast.Store, ast.Del)) else "load"

    def visit(node, where):
        for field, value in ast.iter_fields(node):
            if field in ("decorator_list", "type_params", "ctx", "type_comment"):
                continue
            if _is_annotation_field(node, field) and not include_annotations:
                continue
            w = where
            if isinstance(node, (ast.Assign, ast.AugAssign, ast.AnnAssign, ast.For, ast.comprehension)) \
                    and field in ("targets", "target"):
                w = "target"
            elif isinstance(node, ast.withitem):
                w = "with"
            if isinstance(value, ast.expr):
                slots.append(Slot(node, field, None, ctx_of(value), w))
                visit(value, w)
            elif isinstance(value, list):
                for i, v in enumerate(value):
                    if isinstance(v, ast.expr):
                        slots.append(Slot(node, field, i, ctx_of(v), w))
                        visit(v, w)
                    elif isinstance(v, ast.AST):
                        visit(v, w)
            elif isinstance(value, ast.AST):
                visit(value, w)

    for s in main.body:
        visit(s, "body")
    if not include_targets:
        slots = [s for s in slots if s.ctx == "load" and s.where != "target"]
    return slots


def names_in(node, ctx_type=None):
    out = []
    for n in ast.walk(node):
        if isinstance(n, ast.Name) and (ctx_type is None or isinstance(n.ctx, ctx_type)):
            out.append(n.id)
    return out


def local_names(main):
    """Sorted names bound in main (params + stored names), excluding nested function internals."""
    s = set(a.arg for a in main.args.args + main.args.posonlyargs + main.args.kwonlyargs)
    for n in ast.walk(main):
        if isinstance(n, ast.Name) and isinstance(n.ctx, ast.Store):
            s.add(n.id)
    return sorted(s)


def used_globals(main):
    """Names loaded in main that are not local (functions, types...) - sorted."""
    loc = set(local_names(main))
    s = set()
    for n in ast.walk(main):
        if isinstance(n, ast.Name) and isinstance(n.ctx, ast.Load) and n.id not in loc:
            s.add(n.id)
    return sorted(s)


def called_functions(main):
    s = set()
    for n in ast.walk(main):
        if isinstance(n, ast.Call) and isinstance(n.func, ast.Name):
            s.add(n.func.id)
    return sorted(s)


def pick(rng, seq):
    seq = list(seq)
    if not seq:
        return None
    return seq[rng.randrange(len(seq))]


def a_name(rng, main, default="x"):
    n = pick(rng, local_names(main))
    return n or default


# ----------------------------------------------------------------------------------------------
# 1. type_swap
# ----------------------------------------------------------------------------------------------

_CONSTS = {
    "int": ["0", "1", "42", "-3"],
    "float": ["1.5", "0.0", "2.5e3"],
    "bool": ["True", "False"],
    "str": ["'abc'", "''"],
    "none": ["None"],
}
_ANN_TYPES = ["int", "float", "bool", "qubit", "nat", "array[int, 2]", "tuple[int, bool]", "str",
              "None", "array[qubit, 2]", "Option[int]", "angle"]


def _const_kind(v):
    if isinstance(v, bool):
        return "bool"
    if isinstance(v, int):
        return "int"
    if isinstance(v, float):
        return "float"
    if isinstance(v, str):
        return "str"
    if v is None:
        return "none"
    return None


def annotation_slots(main, nested=True):
    """Slots for annotations: params, returns, AnnAssign, nested function params/returns."""
    slots = []
    funcs = [main]
    if nested:
        funcs += [n for n in ast.walk(main) if isinstance(n, ast.FunctionDef) and n is not main]
    for f in funcs:
        for a in f.args.posonlyargs + f.args.args + f.args.kwonlyargs:
            if a.annotation is not None:
                slots.append(Slot(a, "annotation", None, "load", "ann_param"))
        if f.returns is not None:
            slots.append(Slot(f, "returns", None, "load", "ann_return"))
    for n in ast.walk(main):
        if isinstance(n, ast.AnnAssign):
            slots.append(Slot(n, "annotation", None, "load", "ann_assign"))
    return slots


def m_type_swap(main, rng, tpl):
    sites = []
    for sl in expr_slots(main, include_targets=False):
        v = sl.get()
        if isinstance(v, ast.Constant) and _const_kind(v.value):
            sites.append(("const", sl))
    for sl in annotation_slots(main):
        sites.append(("ann", sl))
        # sub-annotations (e.g. the element type of array[int, 4])
        for sub in ast.walk(sl.get()):
            for field, value in ast.iter_fields(sub):
                if isinstance(value, ast.expr) and isinstance(value, (ast.Name, ast.Constant)) \
                        and field in ("slice",):
                    sites.append(("ann", Slot(sub, field, None, "load", "ann_sub")))
                if isinstance(value, list):
                    for i, v in enumerate(value):
                        if isinstance(v, (ast.Name, ast.Constant)) and isinstance(sub, ast.Tuple):
                            sites.append(("ann", Slot(sub, field, i, "load", "ann_sub")))
    site = pick(rng, sites)
    if site is None:
        return None
    kind, sl = site
    old = ast.unparse(sl.get())
    if kind == "const":
        k = _const_kind(sl.get().value)
        nk = pick(rng, [x for x in sorted(_CONSTS) if x != k])
        new = pick(rng, _CONSTS[nk])
    else:
        new = pick(rng, [t for t in _ANN_TYPES if t != old])
        if isinstance(sl.get(), ast.Constant) and isinstance(sl.get().value, int):
            new = pick(rng, ["int", "-1", "0", "True", "2.0", "'3'", "100000000000000000000"])
    sl.set(E(new))
    return f"{kind} {old} -> {new}"


# ----------------------------------------------------------------------------------------------
# 2. delete_assign
# ----------------------------------------------------------------------------------------------

_ASSIGN = (ast.Assign, ast.AugAssign, ast.AnnAssign)


def _cond_expr(rng, main):
    """Some boolean-ish condition from in-scope names."""
    params = [a.arg for a in main.args.args]
    opts = ["True", "False"]
    for p in params:
        opts += [f"{p} == {p}", f"not {p}"]
    for a in main.args.args:
        if a.annotation is not None and ast.unparse(a.annotation) == "bool":
            opts += [a.arg, a.arg]
        if a.annotation is not None and ast.unparse(a.annotation) == "int":
            opts += [f"{a.arg} > 0", f"{a.arg} < 3"]
    return E(pick(rng, opts))


def m_delete_assign(main, rng, tpl):
    sites = [(lst, i) for (lst, i, _l, _n) in stmt_sites(main) if isinstance(lst[i], _ASSIGN)]
    site = pick(rng, sites)
    if site is None:
        return None
    lst, i = site
    st = lst[i]
    mode = pick(rng, ["delete", "delete", "into_if", "into_else", "into_while", "into_for"])
    txt = ast.unparse(st)
    if mode == "delete":
        del lst[i]
        if not lst:
            lst.append(ast.Pass())
    elif mode == "into_if":
        lst[i] = ast.If(test=_cond_expr(rng, main), body=[st], orelse=[])
    elif mode == "into_else":
        lst[i] = ast.If(test=_cond_expr(rng, main), body=[ast.Pass()], orelse=[st])
    elif mode == "into_while":
        lst[i] = ast.While(test=_cond_expr(rng, main), body=[st, ast.Break()], orelse=[])
    else:
        lst[i] = ast.For(target=N("_i", ast.Store()), iter=E("range(2)"), body=[st], orelse=[])
    return f"{mode}: {txt}"


# ----------------------------------------------------------------------------------------------
# 3. arity
# ----------------------------------------------------------------------------------------------

def m_arity(main, rng, tpl):
    sites = []
    for n in ast.walk(main):
        if isinstance(n, ast.Call):
            sites.append(("call_add", n))
            if n.args:
                sites.append(("call_del", n))
        elif isinstance(n, ast.Tuple) and not isinstance(getattr(n, "ctx", None), ast.Del):
            sites.append(("tuple_add", n))
            if len(n.elts) >= 1:
                sites.append(("tuple_del", n))
        elif isinstance(n, ast.List):
            sites.append(("tuple_add", n))
            if n.elts:
                sites.append(("tuple_del", n))
        elif isinstance(n, ast.FunctionDef):
            sites.append(("param_add", n))
            if n.args.args:
                sites.append(("param_del", n))
    site = pick(rng, sites)
    if site is None:
        return None
    how, n = site
    old = ast.unparse(n).split("\n")[0][:60]
    if how == "call_add":
        extra = pick(rng, [N(a_name(rng, main)), E("0"), E("True"), E("1.5")])
        n.args.insert(rng.randrange(len(n.args) + 1), extra)
    elif how == "call_del":
        del n.args[rng.randrange(len(n.args))]
    elif how == "tuple_add":
        is_store = isinstance(n.ctx, ast.Store)
        new = N("extra_", ast.Store()) if is_store else pick(rng, [N(a_name(rng, main)), E("0"), E("True")])
        n.elts.insert(rng.randrange(len(n.elts) + 1), new)
    elif how == "tuple_del":
        del n.elts[rng.randrange(len(n.elts))]
    elif how == "param_add":
        ann = pick(rng, ["int", "bool", "qubit", "float", "array[int, 2]"])
        n.args.args.insert(rng.randrange(len(n.args.args) + 1), ast.arg(arg="extra_", annotation=E(ann)))
    else:
        del n.args.args[rng.randrange(len(n.args.args))]
    return f"{how} at `{old}`"


# ----------------------------------------------------------------------------------------------
# 4. linearity
# ----------------------------------------------------------------------------------------------

_CONSUMERS = {"measure", "discard", "reset", "consume", "unwrap", "unwrap_nothing", "discard_array",
              "measure_array"}


def _uses_name(st):
    return bool(names_in(st, ast.Load))


def m_linearity(main, rng, tpl):
    sites = stmt_sites(main)
    mode = pick(rng, ["dup_stmt", "del_consumer", "use_after", "return_twice", "use_in_loop",
                      "dup_arg", "alias"])
    if mode == "dup_stmt":
        c = [(lst, i) for (lst, i, _l, _n) in sites
             if _uses_name(lst[i]) and not isinstance(lst[i], (ast.FunctionDef, ast.Return))]
        s = pick(rng, c)
        if s is None:
            return None
        lst, i = s
        lst.insert(i + 1, copy.deepcopy(lst[i]))
        return f"dup_stmt: {ast.unparse(lst[i])[:60]}"
    if mode == "del_consumer":
        def consumes(st):
            if isinstance(st, ast.Return):
                return True
            for n in ast.walk(st):
                if isinstance(n, ast.Call):
                    f = n.func
                    nm = f.id if isinstance(f, ast.Name) else (f.attr if isinstance(f, ast.Attribute) else "")
                    if nm in _CONSUMERS:
                        return True
            return False
        c = [(lst, i) for (lst, i, _l, _n) in sites if consumes(lst[i])]
        s = pick(rng, c)
        if s is None:
            return None
        lst, i = s
        txt = ast.unparse(lst[i])
        if isinstance(lst[i], ast.Return) and rng.random() < 0.5 and lst[i].value is not None:
            lst[i] = ast.Expr(value=lst[i].value) if rng.random() < 0.5 else ast.Return(value=None)
        else:
            del lst[i]
            if not lst:
                lst.append(ast.Pass())
        return f"del_consumer: {txt[:60]}"
    if mode == "use_after":
        c = [(lst, i) for (lst, i, _l, _n) in sites if isinstance(lst[i], (ast.Expr, ast.Assign))
             and _uses_name(lst[i])]
        s = pick(rng, c)
        if s is None:
            return None
        lst, i = s
        st = copy.deepcopy(lst[i])
        # copy it to the end of the same list (before a trailing return) or of main's body
        dest = lst if rng.random() < 0.5 else main.body
        pos = len(dest)
        if dest and isinstance(dest[-1], ast.Return):
            pos -= 1
        if dest is lst and pos <= i:
            pos = len(dest)
        dest.insert(pos, st)
        return f"use_after: {ast.unparse(st)[:60]}"
    if mode == "return_twice":
        rets = [n for n in ast.walk(main) if isinstance(n, ast.Return) and n.value is not None]
        r = pick(rng, rets)
        if r is None:
            return None
        v = r.value
        if isinstance(v, ast.Tuple) and v.elts:
            v.elts.append(load(pick(rng, v.elts)))
        else:
            r.value = ast.Tuple(elts=[v, load(v)], ctx=ast.Load())
        return "return_twice"
    if mode == "use_in_loop":
        c = [(lst, i) for (lst, i, _l, _n) in sites if isinstance(lst[i], (ast.Expr, ast.Assign, ast.AugAssign))
             and _uses_name(lst[i])]
        s = pick(rng, c)
        if s is None:
            return None
        lst, i = s
        st = lst[i]
        if rng.random() < 0.5:
            lst[i] = ast.For(target=N("_k", ast.Store()), iter=E("range(3)"), body=[st], orelse=[])
        else:
            lst[i] = ast.While(test=_cond_expr(rng, main), body=[st], orelse=[])
        return f"use_in_loop: {ast.unparse(st)[:60]}"
    if mode == "dup_arg":
        calls = [n for n in ast.walk(main) if isinstance(n, ast.Call) and n.args]
        c = pick(rng, calls)
        if c is None:
            return None
        j = rng.randrange(len(c.args))
        k = rng.randrange(len(c.args))
        if j == k:
            c.args.append(load(c.args[j]))
        else:
            c.args[k] = load(c.args[j])
        return f"dup_arg: {ast.unparse(c)[:60]}"
    # alias: y = x inserted, then both used
    s = pick(rng, sites)
    nm = pick(rng, local_names(main))
    if s is None or nm is None:
        return None
    lst, i = s[0], s[1]
    lst.insert(i, S(f"alias_ = {nm}")[0])
    return f"alias of {nm}"


# ----------------------------------------------------------------------------------------------
# 5. unsupported_expr
# ----------------------------------------------------------------------------------------------

HUGE = str(2 ** 70)

# {a} = the original expression (as Load), {b}/{c} = in-scope names, {f} = a called function name
_EXPR_FORMS = [
    "({a}) if {c} else {b}", "{b} if ({a}) else {c}", "({a}) and {b}", "{b} or ({a})", "not ({a})",
    "0 < ({a}) < 3", "{b} < ({a}) <= {c}", "(t_ := ({a}))", "[({a}) for _ in range(2)]",
    "[({a}) for _ in range(2) if {c}]", "(({a}) for _ in range(2))", "lambda: ({a})",
    "(lambda z_: z_)({a})", "{{'k': ({a})}}", "{{({a})}}", "{{({a}): {b}}}", "f'{{{b}}}'",
    "f'v={{({a})!r:>4}}'", "({a})[0:1]", "({a})[::2]", "({a})[0, 1]", "({a})[...]",
    "{f}(*({a}))", "{f}(*{b})", "{f}(x=({a}))", "{f}(**{b})", "{f}({b}, *({a},))",
    "({a}) @ {b}", "({a}) ** {b}", "({a}) is {b}", "({a}) is not None", "({a}) in {b}",
    "({a}) not in {b}", "...", "b'by'", "1j", "3 + 2j", HUGE, "-" + HUGE, "({a}, )", "()",
    "[({a}), {b}]", "[]", "*({a}),", "({a}).real", "({a}).nope", "({a})()", "({a})({b})",
    "~({a})", "+({a})", "-({a})", "({a}) // 0", "({a}) % {b}", "({a}) << {b}", "({a}) & {b}",
    "({a}) == {b} == {c}", "({a}) != None", "None", "'s'", "''", "1.0e308 * 10", "True",
    "({a}) if {c} else ({a}) if {b} else ({a})", "(({a}) and {b}) or (not {c})",
    "(t_ := {b}) + t_", "[x_ for x_ in ({a})]", "[x_ for x_ in {b}]", "array(x_ for x_ in ({a}))",
    "array(({a}) for _ in range(2))", "array(x_ for x_ in range(3) if x_)",
    "array((x_, y_) for x_ in range(2) for y_ in range(2))", "array()", "array(({a}))",
    "array(*({a}))", "comptime({b})", "comptime(({a}))", "comptime(1 + 1)", "comptime([1, 2])",
    "comptime(undefined_py_)", "comptime('s')", "comptime((1, 2.0))", "comptime({{1: 2}})",
    "py(3)", "range({b})", "range(({a}))", "len({b})", "int(({a}))", "float(({a}))",
    "bool(({a}))", "nat(({a}))", "str(({a}))", "abs(({a}))", "({a}).copy()", "({a}).__iter__()",
    "{b}.{b}", "{b}[{c}]", "{b}[({a})]", "({a})[{b}]", "({a})[-1]", "({a})[" + HUGE + "]",
    "qubit()", "measure(qubit())", "({a}, {b})[0]", "({a}, {b})[{c}]", "(({a}), ({a}))",
    "type(({a}))", "isinstance(({a}), int)", "print(({a}))", "max(({a}), {b})", "int", "array",
    "array[int, 2]", "{f}", "main", "main({b})", "guppy", "some(({a}))", "nothing()",
    "Option[int]", "tuple", "(yield_ := 1)",
]


def _fill(form, a_txt, main, rng):
    names = local_names(main) or ["x"]
    funcs = called_functions(main) or ["int"]
    return form.format(a=a_txt, b=pick(rng, names), c=pick(rng, names), f=pick(rng, funcs))


def m_unsupported_expr(main, rng, tpl):
    slots = expr_slots(main, include_targets=True)
    # Store-context slots cannot hold arbitrary expressions; their Load sub-slots (index, base)
    # are already separate slots.  Keep only Load slots, but give target-internal ones extra weight.
    load_slots = [s for s in slots if s.ctx == "load"]
    tgt = [s for s in load_slots if s.where in ("target", "with")]
    if not load_slots:
        return None
    sl = pick(rng, tgt) if (tgt and rng.random() < 0.35) else pick(rng, load_slots)
    old = sl.get()
    a_txt = ast.unparse(load(old))
    form = pick(rng, _EXPR_FORMS)
    new_txt = _fill(form, a_txt, main, rng)
    try:
        new = E(new_txt)
    except SyntaxError:
        return None
    sl.set(new)
    return f"[{sl.where}] `{a_txt[:40]}` -> `{new_txt[:70]}`"


# ----------------------------------------------------------------------------------------------
# 6. unsupported_target
# ----------------------------------------------------------------------------------------------

# {t} original target text, {v} original value text, {a},{b},{c} names, {xs} a name (container-ish)
_TARGET_STMTS = [
    "{a}, *[{b}, {c}] = {v}", "{a}, *({b}, {c}) = {v}", "*{a}, = {v}", "{a}, *{b}.{c} = {v}",
    "{a}, *{xs}[0] = {v}", "[{a}, {b}] = {v}", "({a}, {b}), {c} = {v}", "{a} = {b} = {v}",
    "{t} = {a} = {v}", "{xs}[{a} if {c} else 0] = {v}", "{xs}[(k_ := 0)] = {v}",
    "{xs}[{a} and {b}] = {v}", "{xs}[0 < {a} < 2] += 1", "({a} if {c} else {b}).f = {v}",
    "{f}({a}).x = {v}", "{xs}[0][1] = {v}", "{xs}[0:1] = {v}", "{a}.f.g = {v}", "{a}.b += 1",
    "{xs}[{f}({a})] = {v}", "{xs}[{f}({a})] += 1", "{xs}[[{a} for _ in range(2)]] = {v}",
    "{xs}[not {a}] = {v}", "{xs}[{a}, {b}] = {v}", "{xs}[...] = {v}", "{xs}[lambda: 0] = {v}",
    "{xs}[{a}][{b} if {c} else 0] = {v}", "{xs}[{xs}[(j_ := 0)]] = {v}", "{xs}[-1] = {v}",
    "{xs}[" + HUGE + "] = {v}", "{xs}[0]: int = {v}", "{a}.f: int = {v}", "({a}): int = {v}",
    "{xs}[{a} if {c} else 0]: int = {v}", "{xs}[{a} or {b}] -= 1", "{xs}[0].f = {v}",
    "{xs}[0].f += 1", "{a}.f[0] = {v}", "{a}.f[{b} and {c}] = {v}", "({a}, {b}) = ({b}, {a}) = {v}",
    "[{a}, [{b}, *{c}]] = {v}", "{a}, (*{b},) = {v}", "(*{a}, {b}), {c} = {v}", "[] = {v}",
    "() = {v}", "{a}, = {v}", "*{a}, {b} = {v}", "{a}, *_ = {v}", "*_, = {v}",
    "{a}, {xs}[0] = {v}", "{a}, {b}.f = {v}", "{xs}[0], {xs}[1] = {v}", "{xs}[0], *{a} = {v}",
    "{a}, *{xs}[0:1] = {v}", "{a}, *{xs}[{b} if {c} else 0] = {v}", "{t}, *{a} = {v}",
    "{a} += {v}", "{a} @= {v}", "{a} **= {v}", "{a} //= {v}", "{xs}[0] **= 2", "{xs}[0] @= {v}",
    "{a}: int", "{a}: int = {v}", "{a}: 'int' = {v}", "{xs}[{a}][{b}] += {xs}[{b}][{a}]",
    "{xs}[(k_ := {a})] += k_", "{xs}[{a}], {xs}[{b}] = {xs}[{b}], {xs}[{a}]",
    "{xs}[{f}({a}) if {c} else 0] += 1", "{xs}[{a} < {b} < {c}] = {v}",
]
_FOR_TARGETS = ["{xs}[0]", "{a}.b", "*{a}, {b}", "{a}, *{b}", "[{a}, {b}]", "({a}, {b}), {c}",
                "{xs}[{a} if {c} else 0]", "{a}, {a}", "{xs}[(k_ := 0)]", "{a}, *[{b}, {c}]",
                "{xs}[0][1]", "{xs}[0:1]", "{f}({a}).x", "()", "[]", "{a},"]
_COMP_FORMS = ["array({a} for {T} in {it})", "array({a} for {T} in {it} if {c})",
               "[{a} for {T} in {it}]"]


def _names3(main, rng):
    names = local_names(main) or ["x"]
    return dict(a=pick(rng, names), b=pick(rng, names), c=pick(rng, names), xs=pick(rng, names),
                f=pick(rng, called_functions(main) or ["int"]))


def m_unsupported_target(main, rng, tpl):
    sites = stmt_sites(main)
    ass = [(lst, i) for (lst, i, _l, _n) in sites if isinstance(lst[i], _ASSIGN)]
    fors = [n for n in ast.walk(main) if isinstance(n, ast.For)]
    comps = [n for n in ast.walk(main) if isinstance(n, ast.comprehension)]
    modes = []
    if ass:
        modes += ["assign"] * 6
    if fors:
        modes += ["for"] * 2
    if comps:
        modes += ["comp"]
    if not ass and sites:
        modes += ["insert"] * 2
    mode = pick(rng, modes)
    if mode is None:
        return None
    env = _names3(main, rng)
    # prefer actual array-ish names for {xs}: names that are subscripted somewhere in main
    subs = sorted({n.value.id for n in ast.walk(main) if isinstance(n, ast.Subscript)
                   and isinstance(n.value, ast.Name) and n.value.id in local_names(main)})
    if subs and rng.random() < 0.7:
        env["xs"] = pick(rng, subs)
    if mode in ("assign", "insert"):
        if mode == "assign":
            lst, i = pick(rng, ass)
            st = lst[i]
            if isinstance(st, ast.Assign):
                t_txt = ast.unparse(st.targets[0])
            else:
                t_txt = ast.unparse(st.target)
            v_txt = ast.unparse(st.value) if st.value is not None else "0"
            keep = rng.random() < 0.6
            if keep and rng.random() < 0.5:
                v_txt = ast.unparse(load(st.targets[0] if isinstance(st, ast.Assign) else st.target))
        else:
            lst, i, _l, _n = pick(rng, sites)
            t_txt, v_txt = env["a"], pick(rng, [env["b"], "0", "(1, 2)"])
            keep = False
        form = pick(rng, _TARGET_STMTS)
        txt = form.format(t=t_txt, v=v_txt, **env)
        try:
            new = S(txt)
        except SyntaxError:
            return None
        if mode == "assign" and keep:
            lst[i + 1:i + 1] = new      # keep the original definition (avoids masking by
            mode = "assign_after"       # "variable not defined" errors)
        elif mode == "assign":
            lst[i:i + 1] = new
        else:
            lst[i:i] = new
        return f"{mode}: {txt[:80]}"
    if mode == "for":
        f = pick(rng, fors)
        txt = pick(rng, _FOR_TARGETS).format(**env)
        try:
            f.target = store(E(txt))
        except SyntaxError:
            return None
        return f"for target: {txt}"
    c = pick(rng, comps)
    txt = pick(rng, _FOR_TARGETS).format(**env)
    try:
        c.target = store(E(txt))
    except SyntaxError:
        return None
    return f"comprehension target: {txt}"


# ----------------------------------------------------------------------------------------------
# 7. unsupported_stmt
# ----------------------------------------------------------------------------------------------

_STMT_FORMS = [
    "del {a}", "del {a}, {b}", "del {a}[0]", "del {a}.f", "assert {c}", "assert {c}, 'msg'",
    "raise ValueError()", "raise", "raise ValueError() from None",
    "try:\n    {S}\nexcept:\n    pass", "try:\n    {S}\nfinally:\n    pass",
    "try:\n    {S}\nexcept ValueError as e_:\n    pass\nelse:\n    pass",
    "try:\n    {S}\nexcept* ValueError:\n    pass",
    "global g_", "global {newname}", "import math", "from math import pi", "import math as m_",
    "class C_:\n    pass", "class C_:\n    x: int = 0\n    def m(self) -> int:\n        return 1",
    "match {a}:\n    case 1:\n        pass", "match {a}:\n    case (p_, q_):\n        {S}\n    case _:\n        pass",
    "while {c}:\n    {S}\n    break\nelse:\n    pass", "for i_ in range(2):\n    {S}\nelse:\n    pass",
    "with open({a}) as f_:\n    pass", "with {a}, {b}:\n    pass", "with {a}:\n    {S}",
    "with {a} as ({b}, {c}):\n    pass", "with {f}({a}) as w_:\n    {S}",
    "async def g_() -> None:\n    pass", "g_ = lambda: 0", "g_ = lambda z_: z_ + {a}",
    "{newname}: int", "{a}: int", "type X_ = int", "type X_[T_] = list[T_]",
    "@guppy\ndef g_(z_: int) -> int:\n    return z_", "@staticmethod\ndef g_(z_: int) -> int:\n    return z_",
    "def g_(z_: int = 0) -> int:\n    return z_", "def g_(*args_: int) -> int:\n    return 0",
    "def g_(**kw_: int) -> int:\n    return 0", "def g_(z_: int, *, k_: int) -> int:\n    return z_",
    "def g_(z_: int, /) -> int:\n    return z_", "def g_(z_: int, /, y_: int) -> int:\n    return z_",
    "def g_(z_) -> int:\n    return 0", "def g_(z_: int):\n    return z_", "def g_[T_](z_: T_) -> T_:\n    return z_",
    "def g_() -> int:\n    '''doc'''", "def g_() -> None:\n    '''doc'''\n    pass",
    "def g_() -> int:\n    def h_() -> int:\n        return {a}\n    return h_()",
    "def g_() -> int:\n    nonlocal {a}\n    {a} = 1\n    return {a}",
    "def {f}(z_: int) -> int:\n    return z_", "def main() -> None:\n    pass",
    "def g_(z_: int) -> int:\n    return g_(z_)", "def g_(q_: qubit @ owned) -> None:\n    pass",
    "'''a docstring in an odd place'''", "b'bytes'", "...", "{a}", "{a}, {b}", "[{a}, {b}]", "{a}.f",
    "{a}[0]", "{f}", "(yield_ := {a})", "lambda: 0", "{a} if {c} else {b}", "{a} and {b}",
    "{a} < {b} < {c}", "[{a} for _ in range(2)]", "pass", "return", "return {a}", "return {a}, {b}",
    "return None", "return ({a} if {c} else {b})", "return (r_ := {a})", "return [{a}]",
    "return lambda: 0", "return *{a},", "break_ = 0", "if {c}:\n    pass\nelif {a}:\n    {S}",
    "if {a}:\n    {S}", "if ({a}, {b}):\n    {S}", "if {a} is None:\n    {S}", "while {a}:\n    {S}\n    break",
    "while ({w_} := {c}):\n    break", "for _ in {a}:\n    {S}", "for _ in ({a}, {b}):\n    {S}",
    "for _ in range(" + HUGE + "):\n    {S}", "for i_, j_ in enumerate({a}):\n    pass",
    "for i_ in [{a}, {b}]:\n    pass", "for i_ in range(2):\n    def g_() -> int:\n        return i_\n",
    "print({a})", "{a}.append({b})", "result('tag', {a})", "result({a}, {b})", "panic({a})",
    "panic('m', {a}, {b})", "exit('m', 1)", "barrier({a})", "{a}()", "{a}({b})",
    "main({a})", "{f}()", "{f}({a}, {b}, {c}, {a})",
]


def m_unsupported_stmt(main, rng, tpl):
    sites = stmt_sites(main)
    s = pick(rng, sites)
    if s is None:
        return None
    lst, i, in_loop, in_nested = s
    env = _names3(main, rng)
    env["c"] = ast.unparse(_cond_expr(rng, main))
    env["newname"] = "fresh_"
    env["w_"] = "w_"
    orig = lst[i]
    s_txt = ast.unparse(orig).replace("\n", "\n    ")
    form = pick(rng, _STMT_FORMS)
    # indentation of the embedded statement: {S} always appears at indentation 4 in the forms
    txt = form.format(S=s_txt, **env)
    try:
        new = S(txt)
    except SyntaxError:
        # nested {S} at depth 8
        try:
            new = S(form.format(S=ast.unparse(orig).replace("\n", "\n        "), **env))
        except SyntaxError:
            return None
    how = pick(rng, ["before", "after", "replace", "first", "last"])
    if "{S}" in form:
        how = "replace"
    if how == "before":
        lst[i:i] = new
    elif how == "after":
        lst[i + 1:i + 1] = new
    elif how == "replace":
        lst[i:i + 1] = new
    elif how == "first":
        main.body[0:0] = new
    else:
        main.body.extend(new)
    return f"{how}: {txt.splitlines()[0][:70]}"


# ----------------------------------------------------------------------------------------------
# 8. bad_annotation
# ----------------------------------------------------------------------------------------------

_BAD_ANNS = [
    "Undefined_", "'int'", "'Undefined_'", "'array[int, 2'", "int[3]", "array[int]", "array[int, -1]",
    "array[int, {a}]", "array[int, 2, 3]", "array[2, int]", "array[int, int]", "array[int, 2.0]",
    "array[int, True]", "array[int, " + HUGE + "]", "array", "tuple[()]", "tuple[int, ...]", "tuple",
    "list[int]", "list", "dict[int, int]", "set[int]", "Callable[[int], int]", "Callable[int, int]",
    "Callable", "Callable[[], None]", "Callable[..., int]", "int | float", "int | None", "None",
    "int @ owned", "qubit @ owned", "qubit @ owned @ owned", "qubit @ comptime", "float @ comptime",
    "array[int, 2] @ comptime", "int @ comptime", "nat @ comptime", "int @ {a}", "int @ 3", "owned",
    "comptime", "{f}()", "{f}", "3", "3.5", "True", "...", "(int, bool)", "[int]", "int.real", "guppy",
    "Option", "Option[int, int]", "Option[qubit]", "Option[Option[int]]", "array[array[int, 2], 2]",
    "array[qubit @ owned, 2]", "tuple[qubit @ owned, int]", "lambda: int", "int if True else bool",
    "(t_ := int)", "[int for _ in range(2)]", "f'int'", "b'int'", "-int", "not int", "int and bool",
    "int < bool", "main", "type", "object", "str", "bytes", "complex", "T_unbound_", "nat[3]",
    "qubit[2]", "array[int, nat]", "array[T_unbound_, 2]", "'array[int, n_unbound_]'",
    "'tuple[int, Undefined_]'", "''", "' '", "'1 +'", "'lambda: 0'", "angle", "array[int, 2][0]",
    "Self", "'Self'", "typing.Any", "int.__class__",
]


def m_bad_annotation(main, rng, tpl):
    slots = annotation_slots(main)
    funcs = [main] + [n for n in ast.walk(main) if isinstance(n, ast.FunctionDef) and n is not main]
    modes = ["replace"] * 8 + ["drop_param_ann", "drop_return_ann", "nest"]
    mode = pick(rng, modes)
    env = _names3(main, rng)
    if mode == "drop_param_ann":
        params = [a for f in funcs for a in f.args.args if a.annotation is not None]
        p = pick(rng, params)
        if p is None:
            return None
        p.annotation = None
        return f"param {p.arg} without annotation"
    if mode == "drop_return_ann":
        f = pick(rng, [f for f in funcs if f.returns is not None])
        if f is None:
            return None
        f.returns = None
        return f"{f.name} without return annotation"
    sl = pick(rng, slots)
    if sl is None:
        return None
    old = ast.unparse(sl.get())
    txt = pick(rng, _BAD_ANNS).format(**env)
    if mode == "nest":
        txt = pick(rng, ["array[{x}, 2]", "tuple[int, {x}]", "Option[{x}]", "{x} @ owned",
                         "Callable[[{x}], int]", "tuple[{x}]", "array[{x}, 2] @ owned"]).format(x=txt)
    try:
        sl.set(E(txt))
    except SyntaxError:
        return None
    return f"{sl.where}: {old[:30]} -> {txt[:50]}"


# ----------------------------------------------------------------------------------------------
# 9. generic_misuse
# ----------------------------------------------------------------------------------------------

def _module_info(tpl_src):
    """Names of module-level type vars, nat vars, structs, generic functions (by syntax)."""
    info = {"tvars": [], "nvars": [], "structs": [], "funcs": [], "comptime_funcs": []}
    tree = ast.parse(tpl_src)
    for node in tree.body:
        if isinstance(node, ast.Assign) and isinstance(node.value, ast.Call):
            f = ast.unparse(node.value.func)
            if f == "guppy.type_var":
                info["tvars"].append(node.targets[0].id)
            elif f == "guppy.nat_var":
                info["nvars"].append(node.targets[0].id)
        elif isinstance(node, ast.ClassDef):
            info["structs"].append((node.name, len(node.type_params)))
        elif isinstance(node, ast.FunctionDef) and node.name != "main":
            info["funcs"].append(node.name)
            if any(a.annotation is not None and "comptime" in ast.unparse(a.annotation)
                   for a in node.args.args):
                info["comptime_funcs"].append(node.name)
    return info


def m_generic_misuse(main, rng, tpl):
    info = _module_info(tpl["src"])
    names = local_names(main) or ["x"]
    tparams = [p.name for p in getattr(main, "type_params", [])]
    tv = info["tvars"] + [p for p in tparams]
    nv = info["nvars"]
    modes = ["local_unbound_ann", "return_T", "pep695_add", "pep695_misuse", "comptime_nonconst",
             "natvar_as_type", "struct_args", "inconsistent_call", "bound_misuse"]
    mode = pick(rng, modes)
    sites = stmt_sites(main)
    a = pick(rng, names)
    if mode == "local_unbound_ann":
        T = pick(rng, tv + ["T_unbound_"]) or "T_unbound_"
        s = pick(rng, sites)
        if s is None:
            return None
        lst, i = s[0], s[1]
        txt = pick(rng, ["v_: {T} = {a}", "v_: array[{T}, 2] = array({a}, {a})", "v_: {T}",
                         "v_: tuple[{T}, int] = ({a}, 0)", "def g_(z_: {T}) -> {T}:\n    return z_",
                         "v_: Option[{T}] = nothing()", "v_: 'Callable[[{T}], {T}]' = {a}"]).format(T=T, a=a)
        lst[i:i] = S(txt)
        return f"local annotation with {T}: {txt.splitlines()[0]}"
    if mode == "return_T":
        T = pick(rng, tv + nv + ["T_unbound_"])
        main.returns = E(pick(rng, ["{T}", "array[{T}, 2]", "tuple[{T}, {T}]", "array[int, {T}]",
                                    "Option[{T}]"]).format(T=T))
        return f"return annotation mentions {T}"
    if mode == "pep695_add":
        # add PEP 695 parameters to main and use them somewhere
        spec = pick(rng, ["T_", "n_: nat", "T_: Copy", "T_: int", "*Ts_", "**P_", "T_, n_: nat",
                          "n_: int", "n_: float", "T_: (int, float)", "n_: array[int, 2]"])
        try:
            dummy = S(f"def f_[{spec}](): pass")[0]
        except SyntaxError:
            return None
        main.type_params = list(getattr(main, "type_params", [])) + dummy.type_params
        first = dummy.type_params[0].name
        use = pick(rng, ["param", "ret", "local", "none", "value"])
        if use == "param":
            ann = pick(rng, ["{T}", "array[int, {T}]", "array[{T}, 2]", "{T} @ owned", "{T} @ comptime"])
            main.args.args.append(ast.arg(arg="gp_", annotation=E(ann.format(T=first))))
        elif use == "ret":
            main.returns = E(first)
        elif use == "local" and sites:
            lst, i = sites[0][0], sites[0][1]
            lst[i:i] = S(f"v_: {first} = {a}")
        elif use == "value" and sites:
            lst, i = sites[0][0], sites[0][1]
            lst[i:i] = S(pick(rng, [f"v_ = {first}", f"v_ = {first} + 1", f"v_ = {first}()",
                                    f"v_ = array(0 for _ in range({first}))"]))
        return f"main[{spec}] use={use}"
    if mode == "pep695_misuse":
        if not tparams:
            return None
        T = pick(rng, tparams)
        s = pick(rng, sites)
        lst, i = s[0], s[1]
        lst[i:i] = S(pick(rng, [f"v_ = {T}", f"v_: {T} = 0", f"v_ = {T}({a})", f"{T} = {a}",
                                f"v_: array[int, {T}] = {a}", f"v_ = array({a} for _ in range({T}))"]))
        return f"misuse of type parameter {T}"
    if mode == "comptime_nonconst":
        calls = [n for n in ast.walk(main) if isinstance(n, ast.Call) and isinstance(n.func, ast.Name)
                 and n.func.id in info["comptime_funcs"] and n.args]
        if calls:
            c = pick(rng, calls)
            c.args[0] = pick(rng, [N(a), E(f"{a} + 1"), E("-1"), E("1.5"), E("True"), E(HUGE),
                                   E("comptime(-1)"), E("comptime('s')"), E(f"comptime({a})")])
            return f"comptime arg of {c.func.id} := {ast.unparse(c.args[0])}"
        # comptime expression on a runtime value
        sl = pick(rng, expr_slots(main, include_targets=False))
        if sl is None:
            return None
        old = ast.unparse(load(sl.get()))
        sl.set(E(pick(rng, [f"comptime({old})", f"comptime({a})", "comptime(main)", "comptime(qubit)",
                            "comptime(lambda: 0)", "comptime([1, 'a'])", "comptime([])",
                            "comptime(1 / 0)", "comptime(None)", "comptime(2 ** 70)", "comptime(-1.5)",
                            "comptime((1, [2, 3]))", "comptime([[1], [2, 3]])", "comptime(object())"])))
        return f"comptime misuse at `{old[:40]}`"
    if mode == "natvar_as_type":
        sl = pick(rng, annotation_slots(main))
        if sl is None:
            return None
        nm = pick(rng, nv + tv + ["n_unbound_"])
        txt = pick(rng, ["{n}", "array[int, {n}]", "array[{n}, 2]", "array[{n}, {n}]", "{n}[int]",
                         "tuple[{n}]", "{n} @ comptime"]).format(n=nm)
        sl.set(E(txt))
        return f"{sl.where}: {txt}"
    if mode == "struct_args":
        if not info["structs"]:
            return None
        nm, k = pick(rng, info["structs"])
        sl = pick(rng, annotation_slots(main))
        if sl is None:
            return None
        txt = pick(rng, [f"{nm}[int]", f"{nm}[int, int, int]", f"{nm}", f"{nm}[3]", f"{nm}[qubit]",
                         f"{nm}[{nm}]", f"array[{nm}, 2]", f"{nm}[[int]]", f"{nm}[()]"])
        sl.set(E(txt))
        return f"{sl.where}: {txt}"
    if mode == "inconsistent_call":
        calls = [n for n in ast.walk(main) if isinstance(n, ast.Call) and len(n.args) >= 1]
        c = pick(rng, calls)
        if c is None:
            return None
        j = rng.randrange(len(c.args))
        c.args[j] = E(pick(rng, ["1.5", "True", "'s'", "None", "qubit()", "(1, 2)", "array(1, 2)",
                                 "nothing()", f"({a}, {a})", "array()", "[]", "lambda z_: z_", "int"]))
        return f"arg {j} of {ast.unparse(c.func)} := {ast.unparse(c.args[j])}"
    # bound_misuse: copy a value of generic type
    s = pick(rng, sites)
    if s is None:
        return None
    lst, i = s[0], s[1]
    lst[i:i] = S(pick(rng, [f"c1_, c2_ = {a}, {a}", f"c_ = ({a}, {a})", f"c_ = array({a}, {a})",
                            f"c_ = [{a}, {a}]"]))
    return f"copy of {a}"


# ----------------------------------------------------------------------------------------------
# 10. undefined_var
# ----------------------------------------------------------------------------------------------

def m_undefined_var(main, rng, tpl):
    sites = stmt_sites(main)
    mode = pick(rng, ["rename_use", "rename_use", "swap_stmts", "use_loop_var_after", "def_in_branch",
                      "shadow_global", "rename_def", "use_in_nested", "del_param"])
    if mode == "rename_use":
        uses = [n for n in ast.walk(main) if isinstance(n, ast.Name) and isinstance(n.ctx, ast.Load)]
        n = pick(rng, uses)
        if n is None:
            return None
        old = n.id
        n.id = pick(rng, ["undefined_", old + "_", "__" + old, "self", "_"])
        return f"use of {old} -> {n.id}"
    if mode == "rename_def":
        defs = [n for n in ast.walk(main) if isinstance(n, ast.Name) and isinstance(n.ctx, ast.Store)]
        n = pick(rng, defs)
        if n is None:
            return None
        old = n.id
        n.id = old + "_r"
        return f"definition of {old} renamed"
    if mode == "swap_stmts":
        c = [(lst, i) for (lst, i, _l, _n) in sites if i + 1 < len(lst)]
        s = pick(rng, c)
        if s is None:
            return None
        lst, i = s
        j = rng.randrange(i + 1, len(lst))
        lst[i], lst[j] = lst[j], lst[i]
        return f"swap statements {i},{j}"
    if mode == "use_loop_var_after":
        loops = [(lst, i) for (lst, i, _l, _n) in sites if isinstance(lst[i], (ast.For, ast.While))]
        s = pick(rng, loops)
        if s is None:
            return None
        lst, i = s
        inner = sorted(set(names_in(lst[i], ast.Store)))
        nm = pick(rng, inner)
        if nm is None:
            return None
        lst.insert(i + 1, S(pick(rng, [f"after_ = {nm}", f"{nm} += 1", f"result('t', {nm})"]))[0])
        return f"loop-local {nm} used after loop"
    if mode == "def_in_branch":
        s = pick(rng, sites)
        if s is None:
            return None
        lst, i = s[0], s[1]
        c = ast.unparse(_cond_expr(rng, main))
        form = pick(rng, ["if {c}:\n    nv_ = 1\nuse_ = nv_", "while {c}:\n    nv_ = 1\n    break\nuse_ = nv_",
                          "for i_ in range(2):\n    nv_ = i_\nuse_ = nv_ + i_",
                          "if {c}:\n    nv_ = 1\nelse:\n    nv_ = 1.5\nuse_ = nv_",
                          "if {c}:\n    nv_ = qubit()\nuse_ = 0",
                          "if {c}:\n    def nf_() -> int:\n        return 0\nuse_ = nf_()",
                          "while {c}:\n    nv_ = qubit()\nuse_ = 0"])
        lst[i:i] = S(form.format(c=c))
        return "def_in_branch: " + form.splitlines()[0].format(c=c)
    if mode == "shadow_global":
        g = pick(rng, called_functions(main))
        if g is None:
            return None
        pos = pick(rng, ["end", "start", "mid"])
        st = S(pick(rng, [f"{g} = 0", f"{g}: int = 0", f"def {g}() -> None:\n    pass",
                          f"for {g} in range(2):\n    pass", f"{g}, _u = 1, 2"]))
        if pos == "end":
            idx = len(main.body) - (1 if isinstance(main.body[-1], ast.Return) else 0)
        elif pos == "start":
            idx = 0
        else:
            idx = rng.randrange(len(main.body) + 1)
        main.body[idx:idx] = st
        return f"shadow global {g} at {pos}"
    if mode == "use_in_nested":
        nm = pick(rng, local_names(main))
        s = pick(rng, sites)
        if s is None or nm is None:
            return None
        lst, i = s[0], s[1]
        form = pick(rng, ["def nf_() -> int:\n    return {n}\nu_ = nf_()",
                          "def nf_() -> None:\n    {n} = 1\nnf_()",
                          "def nf_() -> int:\n    {n} += 1\n    return {n}\nu_ = nf_()",
                          "def nf_() -> int:\n    return later_\nlater_ = 1\nu_ = nf_()",
                          "def nf_(z_: int) -> int:\n    return nf_(z_)\nu_ = nf_(0)",
                          "def nf_() -> int:\n    def ng_() -> int:\n        return {n}\n    return ng_()\nu_ = nf_()"])
        lst[i:i] = S(form.format(n=nm))
        return f"nested function using {nm}"
    if not main.args.args:
        return None
    j = rng.randrange(len(main.args.args))
    nm = main.args.args[j].arg
    del main.args.args[j]
    return f"deleted parameter {nm}"


# ----------------------------------------------------------------------------------------------
# 11. control_flow_wrap
# ----------------------------------------------------------------------------------------------

def m_control_flow_wrap(main, rng, tpl):
    sites = stmt_sites(main)
    s = pick(rng, sites)
    if s is None:
        return None
    lst, i, in_loop, in_nested = s
    mode = pick(rng, ["if_else_return", "while_true_break", "insert_return", "insert_break",
                      "insert_continue", "tail_in_if", "tail_in_loop", "into_nested", "into_comp",
                      "while_false", "if_false", "after_infinite_loop", "nested_loops", "insert_panic"])
    c = _cond_expr(rng, main)
    ret_none = main.returns is None or ast.unparse(main.returns) == "None"
    a = a_name(rng, main)
    ret = ast.Return(value=None if (ret_none or rng.random() < 0.15) else pick(
        rng, [N(a), E("0"), E("True"), E("0.0")]))
    st = lst[i]
    if mode == "if_else_return":
        lst[i] = ast.If(test=c, body=[st], orelse=[ret])
    elif mode == "while_true_break":
        lst[i] = ast.While(test=E("True"), body=[st, ast.Break()], orelse=[])
    elif mode == "insert_return":
        lst.insert(i, ret)
    elif mode == "insert_break":
        if in_loop:
            lst.insert(i, ast.Break())
        else:
            lst[i] = ast.While(test=c, body=[ast.Break(), st], orelse=[])
    elif mode == "insert_continue":
        if in_loop:
            lst.insert(i, ast.Continue())
        else:
            lst[i] = ast.For(target=N("_c", ast.Store()), iter=E("range(2)"), body=[ast.Continue(), st], orelse=[])
    elif mode == "tail_in_if":
        tail = lst[i:]
        lst[i:] = [ast.If(test=c, body=tail, orelse=[])]
    elif mode == "tail_in_loop":
        tail = lst[i:]
        lst[i:] = [pick(rng, [ast.While(test=c, body=tail, orelse=[]),
                              ast.For(target=N("_t", ast.Store()), iter=E("range(2)"), body=tail, orelse=[])])]
    elif mode == "into_nested":
        tail = lst[i:] if rng.random() < 0.5 else [st]
        has_ret = any(isinstance(n, ast.Return) for t in tail for n in ast.walk(t))
        fn = ast.FunctionDef(name="nf_", args=ast.arguments(posonlyargs=[], args=[], kwonlyargs=[],
                             kw_defaults=[], defaults=[]), body=list(tail), decorator_list=[],
                             returns=copy.deepcopy(main.returns) if has_ret else E("None"),
                             type_params=[])
        call = S("return nf_()" if has_ret else "nf_()")
        if len(tail) == 1 and tail[0] is st:
            lst[i:i + 1] = [fn] + call
        else:
            lst[i:] = [fn] + call
    elif mode == "into_comp":
        exprs = [sl for sl in expr_slots(main, include_targets=False)]
        sl = pick(rng, exprs)
        if sl is None:
            return None
        old = ast.unparse(load(sl.get()))
        sl.set(E(pick(rng, [f"array({old} for _ in range(1))[0]", f"array({old} for _ in range(2))",
                            f"[{old} for _ in range(1)][0]"])))
    elif mode == "while_false":
        lst[i] = ast.While(test=E("False"), body=[st], orelse=[])
    elif mode == "if_false":
        lst[i] = ast.If(test=E(pick(rng, ["False", "True", "not True", "1", "0"])), body=[st],
                        orelse=[] if rng.random() < 0.5 else [copy.deepcopy(st)])
    elif mode == "after_infinite_loop":
        lst.insert(i, ast.While(test=E("True"), body=[ast.Pass()], orelse=[]))
    elif mode == "nested_loops":
        lst[i] = ast.While(test=c, body=[ast.For(target=N("_n", ast.Store()), iter=E("range(2)"),
                           body=[st, pick(rng, [ast.Break(), ast.Continue(), ast.Pass()])], orelse=[]),
                           pick(rng, [ast.Break(), ast.Continue(), ast.Pass()])], orelse=[])
    else:
        lst.insert(i, S(pick(rng, ["panic('stop')", "exit('stop', 1)"]))[0])
    return f"{mode} at `{ast.unparse(st).splitlines()[0][:50]}`"


# ----------------------------------------------------------------------------------------------
# 12. boundary: empty / singleton / off-by-one shapes
# ----------------------------------------------------------------------------------------------

_IDX_LITERALS = ["0", "-1", "1", "-2", "2", "3", "-3", "-4", "1000000", "-1000000", "18446744073709551616"]
_DUNDER_CALLS = ["{x}.__add__()", "{x}.__radd__()", "{x}.__rpow__(1, 2, 3)", "{x}.__neg__(1)", "{x}.__getitem__()",
                 "{x}.__len__(1)", "{x}.__iter__(1)", "{x}.__bool__({x})", "{x}.__eq__()", "{x}.__lt__(1, 2)",
                 "{x}.__call__()", "{x}.__rsub__({x}, {x})", "{x}.__setitem__(0)", "{x}.__next__(0)", "{x}.__mul__(*())",
                 "{x}.__pos__({x}, {x})", "{x}.__rmul__()", "{x}.__truediv__()", "{x}.__int__(1)", "{x}.__float__(1)",
                 "{x}.__new__()", "{x}.copy(1)", "{x}.__rfloordiv__()", "{x}.__abs__(1)"]
_EMPTY_EXPRS = ["()", "[]", "array()", "comptime([])", "comptime(())", "''", "range(0)", "(0,)", "[0]", "array(0)",
                "comptime((1, 2, 3))", "comptime([1])", "((),)", "array(())"]


def _insert_pos(main, rng):
    """(list, index) of a position in a statement list that is not after a return/break/continue."""
    cands = []
    for lst, _owner, _f, _il, _in in stmt_lists(main):
        for i in range(len(lst) + 1):
            if i > 0 and isinstance(lst[i - 1], (ast.Return, ast.Break, ast.Continue)):
                break
            cands.append((lst, i))
    return pick(rng, cands)


def m_boundary(main, rng, tpl):
    sub = rng.randrange(12)
    if sub == 0:
        # an index literal at or beyond either end, in any existing subscript
        subs = [s for s in expr_slots(main) if isinstance(s.get(), ast.Subscript)
                and not isinstance(s.get().slice, ast.Slice)]
        s = pick(rng, subs)
        if s is None:
            return None
        lit = pick(rng, _IDX_LITERALS)
        s.get().slice = E(lit)
        return f"index literal {lit} in `{ast.unparse(s.get())}`"
    if sub == 1:
        # index a fresh tuple / array of length 0, 1, 2 at and beyond both ends
        pos = _insert_pos(main, rng)
        if pos is None:
            return None
        n = rng.randrange(3)
        elts = [pick(rng, ["0", "1.5", "True", a_name(rng, main)]) for _ in range(n)]
        kind = rng.randrange(4)
        if kind == 0:
            lit = "(" + "".join(e + ", " for e in elts) + ")"
        elif kind == 1:
            lit = "array(" + ", ".join(elts) + ")"
        elif kind == 2:
            lit = "[" + ", ".join(elts) + "]"
        else:
            lit = "comptime((" + "".join(pick(rng, ["0", "1.5", "True"]) + ", " for _ in range(n)) + "))"
        k = pick(rng, [0, -1, n, -n - 1, n - 1, -n, 1])
        direct = rng.random() < 0.4
        code = f"bnd_v = {lit}[{k}]" if direct else f"bnd_t = {lit}\nbnd_v = bnd_t[{k}]"
        lst, i = pos
        lst[i:i] = S(code)
        return f"insert `{code}`".replace("\n", "; ")
    if sub == 2:
        # annotated statement without a value: drop the initialiser of an existing one ...
        anns = [(lst, i) for lst, i, _il, _in in stmt_sites(main)
                if isinstance(lst[i], ast.AnnAssign) and lst[i].value is not None and isinstance(lst[i].target, ast.Name)]
        c = pick(rng, anns)
        if c is not None and rng.random() < 0.6:
            lst, i = c
            lst[i].value = None
            return f"drop initialiser: `{ast.unparse(lst[i])}`"
        # ... or turn a plain assignment into a bare declaration / declare a fresh variable and use it
        assigns = [(lst, i) for lst, i, _il, _in in stmt_sites(main)
                   if isinstance(lst[i], ast.Assign) and len(lst[i].targets) == 1 and isinstance(lst[i].targets[0], ast.Name)]
        c = pick(rng, assigns)
        ty = pick(rng, ["int", "float", "bool", "qubit", "array[int, 0]", "tuple[()]", "tuple[int]", "None"])
        if c is not None and rng.random() < 0.5:
            lst, i = c
            name = lst[i].targets[0].id
            lst[i] = S(f"{name}: {ty}")[0]
            return f"assignment replaced by declaration `{name}: {ty}`"
        pos = _insert_pos(main, rng)
        if pos is None:
            return None
        lst, i = pos
        use = pick(rng, ["bnd_d + 1", "bnd_d", "(bnd_d, bnd_d)", "bnd_d[0]", "-bnd_d"])
        form = rng.randrange(3)
        code = [f"bnd_d: {ty}\nbnd_u = {use}", f"bnd_d: {ty}\nbnd_d += 1",
                f"def bnd_f(k: int) -> int:\n    bnd_d: {ty}\n    return bnd_d + k\nbnd_u = bnd_f(1)"][form]
        lst[i:i] = S(code)
        return f"insert `{code}`".replace("\n", "; ")
    if sub == 3:
        # explicit dunder / method call with too few or too many arguments
        pos = _insert_pos(main, rng)
        if pos is None:
            return None
        x = a_name(rng, main)
        call = pick(rng, _DUNDER_CALLS).format(x=x)
        lst, i = pos
        code = call if rng.random() < 0.5 else f"bnd_r = {call}"
        lst[i:i] = S(code)
        return f"insert `{code}`"
    if sub == 4:
        # existing method call: no arguments at all / two more
        calls = [s.get() for s in expr_slots(main) if isinstance(s.get(), ast.Call)]
        c = pick(rng, calls)
        if c is None:
            return None
        if rng.random() < 0.5:
            if not c.args and not c.keywords:
                return None
            c.args, c.keywords = [], []
            return f"all arguments removed: `{ast.unparse(c)}`"
        c.args = c.args + [E("0"), E("()")]
        return f"two more arguments: `{ast.unparse(c)}`"
    if sub == 5:
        # an empty / singleton container in place of an expression (call arguments preferred)
        slots = [s for s in expr_slots(main, include_targets=False)]
        args = [s for s in slots if isinstance(s.parent, ast.Call) and s.field == "args"]
        s = pick(rng, args if args and rng.random() < 0.7 else slots)
        if s is None:
            return None
        lit = pick(rng, _EMPTY_EXPRS)
        old = ast.unparse(s.get())
        s.set(E(lit))
        return f"`{old}` -> `{lit}`"
    if sub == 6:
        # zero / one in array sizes and ranges
        cands = []
        for node in ast.walk(main):
            if isinstance(node, ast.Subscript) and isinstance(node.slice, ast.Tuple) and len(node.slice.elts) == 2 \
                    and isinstance(node.slice.elts[1], ast.Constant) and isinstance(node.slice.elts[1].value, int):
                cands.append(("size", node))
            if isinstance(node, ast.Call) and isinstance(node.func, ast.Name) and node.func.id == "range" and node.args:
                cands.append(("range", node))
        c = pick(rng, cands)
        if c is None:
            return None
        k = pick(rng, ["0", "1", "-1"])
        if c[0] == "size":
            c[1].slice.elts[1] = E(k)
        else:
            c[1].args = [E(k)]
        return f"{c[0]} {k}: `{ast.unparse(c[1])}`"
    if sub == 7:
        # degenerate bodies: only `pass`, only a docstring, only the last statement
        owners = [(lst, owner) for lst, owner, f, _il, _in in stmt_lists(main) if f == "body"]
        c = pick(rng, owners)
        if c is None:
            return None
        lst, owner = c
        form = rng.randrange(3)
        if form == 0:
            lst[:] = S("pass")
        elif form == 1:
            if not isinstance(owner, ast.FunctionDef):
                return None
            lst[:] = S('"""doc"""')
        else:
            if len(lst) < 2:
                return None
            lst[:] = lst[-1:]
        return f"body of `{type(owner).__name__}` reduced ({['pass', 'docstring only', 'last statement only'][form]})"
    if sub == 8:
        # tuple displays / patterns of length 0 and 1
        tups = [s for s in expr_slots(main) if isinstance(s.get(), ast.Tuple)]
        s = pick(rng, tups)
        if s is None:
            return None
        t = s.get()
        n = rng.randrange(2)
        if len(t.elts) <= n:
            return None
        t.elts = t.elts[:n]
        return f"tuple cut to length {n}: `{ast.unparse(t)}`"
    if sub == 9:
        # starred / list patterns over short right-hand sides
        pos = _insert_pos(main, rng)
        if pos is None:
            return None
        rhs = pick(rng, ["()", "array()", "(0,)", "array(0)", "(0, 1)", "array(0, 1)", "range(0)", "range(1)", "[]"])
        pat = pick(rng, ["[*bnd_a]", "*bnd_a,", "bnd_a, *bnd_b", "*bnd_a, bnd_b", "bnd_a, *bnd_b, bnd_c", "bnd_a,", "[bnd_a]",
                         "bnd_a, bnd_b", "()", "[]"])
        code = f"{pat} = {rhs}"
        lst, i = pos
        lst[i:i] = S(code)
        return f"insert `{code}`"
    if sub == 10:
        # loops over empty things, with the loop variable used afterwards
        pos = _insert_pos(main, rng)
        if pos is None:
            return None
        it = pick(rng, ["()", "array()", "range(0)", "[]", "comptime([])", "comptime(())", "''"])
        code = f"for bnd_i in {it}:\n    pass" if rng.random() < 0.5 else f"for bnd_i in {it}:\n    bnd_j = bnd_i\nbnd_k = bnd_j"
        lst, i = pos
        lst[i:i] = S(code)
        return f"insert `{code}`".replace("\n", "; ")
    # parameters: none at all / main called with nothing
    if rng.random() < 0.5 and main.args.args:
        main.args.args = []
        return "all parameters of main removed"
    rets = [n for n in ast.walk(main) if isinstance(n, ast.Return) and n.value is not None]
    r = pick(rng, rets)
    if r is None:
        return None
    r.value = E(pick(rng, ["()", "((),)", "[]", "array()", "None"]))
    return f"`{ast.unparse(r)}`"


# ----------------------------------------------------------------------------------------------
# layout variants: the same program with expressions wrapped over several source lines
# ----------------------------------------------------------------------------------------------
# `ast.unparse` prints every expression on one line, so no mutant above ever has a multi-line span.  `relayout`
# re-prints `main` with the value/condition expressions of simple statements parenthesised and broken after
# randomly chosen operator tokens, continuation lines indented by a random amount (also *less* than the statement).

_BREAK_AFTER = {"<", "<=", ">", ">=", "==", "!=", "+", "-", "*", "//", "%", "&", "|", "^", ",", "and", "or", "if", "else",
                "(", "[", "in", "not", "is", "="}


def _wrap_expr(text, rng, base_indent):
    import io
    import tokenize
    try:
        toks = list(tokenize.generate_tokens(io.StringIO(text).readline))
    except (tokenize.TokenError, IndentationError, SyntaxError):
        return None
    cuts = []
    for t in toks:
        if t.start[0] != 1 or t.end[0] != 1:
            continue
        if t.string in _BREAK_AFTER and t.end[1] < len(text) and rng.random() < 0.45:
            cuts.append(t.end[1])
    if not cuts:
        return None
    out = text
    for c in sorted(set(cuts), reverse=True):
        ind = pick(rng, [0, 1, 2, base_indent, base_indent + 4, base_indent + 8, 24, 40])
        out = out[:c].rstrip(" ") + "\n" + " " * ind + out[c:].lstrip(" ")
    return "(" + out + ")"


def relayout(src, rng):
    """Module text with the same AST in which expressions of `main` span several lines, or None."""
    try:
        prefix, main, suffix = split_main(src)
    except Exception:  # noqa: BLE001
        return None
    reference = ast.dump(main)
    holes = {}

    def hole(expr):
        name = f"LAYOUT_HOLE_{len(holes)}_"
        holes[name] = ast.unparse(expr)
        return ast.Name(id=name, ctx=ast.Load())

    for node in ast.walk(main):
        if isinstance(node, (ast.Assign, ast.AugAssign, ast.Return, ast.Expr, ast.AnnAssign)) and getattr(node, "value", None) is not None:
            if isinstance(node.value, ast.Constant) and isinstance(node.value.value, str):
                continue        # docstrings
            if rng.random() < 0.7:
                node.value = hole(node.value)
        elif isinstance(node, (ast.If, ast.While)) and rng.random() < 0.7:
            node.test = hole(node.test)
    if not holes:
        return None
    text = ast.unparse(ast.fix_missing_locations(main))
    changed = False
    for name, expr_text in holes.items():
        line = next((ln for ln in text.split("\n") if name in ln), "")
        base = len(line) - len(line.lstrip(" "))
        w = _wrap_expr(expr_text, rng, base)
        if w is None:
            w = expr_text
        else:
            changed = True
        text = text.replace(name, w, 1)
    if not changed:
        return None
    try:
        new_main = ast.parse(text).body[0]
        if ast.dump(new_main) != reference:
            return None
        out = prefix + ("\n" if prefix else "") + text + "\n"
        if suffix.strip():
            out += suffix if suffix.endswith("\n") else suffix + "\n"
        with warnings.catch_warnings():
            warnings.simplefilter("ignore")
            compile(out, "<m>", "exec")
    except (SyntaxError, ValueError, IndexError):
        return None
    return out


# ----------------------------------------------------------------------------------------------
# driver
# ----------------------------------------------------------------------------------------------

_BASE = {
    "type_swap": m_type_swap,
    "delete_assign": m_delete_assign,
    "arity": m_arity,
    "linearity": m_linearity,
    "unsupported_expr": m_unsupported_expr,
    "unsupported_target": m_unsupported_target,
    "unsupported_stmt": m_unsupported_stmt,
    "bad_annotation": m_bad_annotation,
    "generic_misuse": m_generic_misuse,
    "undefined_var": m_undefined_var,
    "control_flow_wrap": m_control_flow_wrap,
    "boundary": m_boundary,
}
KINDS: list[str] = list(_BASE) + ["compose"]


def _apply(kind, main, rng, tpl):
    """Apply one base mutation in place; returns description or None."""
    try:
        return _BASE[kind](main, rng, tpl)
    except (SyntaxError, KeyError, IndexError, ValueError, AttributeError, TypeError):
        return None


def _module_names(tpl_src):
    import builtins

    names = set(dir(builtins))
    for node in ast.parse(tpl_src).body:
        if isinstance(node, (ast.Import, ast.ImportFrom)):
            for al in node.names:
                names.add((al.asname or al.name).split(".")[0])
        elif isinstance(node, (ast.FunctionDef, ast.ClassDef)):
            names.add(node.name)
        else:
            for n in ast.walk(node):
                if isinstance(n, ast.Name) and isinstance(n.ctx, ast.Store):
                    names.add(n.id)
    return names


def _stringify_unbound_annotations(main, tpl_src):
    """CPython evaluates main's parameter / return annotations at `def` time, before guppy sees
    anything; an annotation mentioning a name the module does not define would only give a NameError
    (a discarded mutant).  Turn such annotations into string annotations, which guppy parses itself."""
    known = _module_names(tpl_src) | {p.name for p in getattr(main, "type_params", [])}
    holders = [(a, "annotation") for a in main.args.posonlyargs + main.args.args + main.args.kwonlyargs]
    holders.append((main, "returns"))
    for obj, field in holders:
        ann = getattr(obj, field)
        if ann is None or isinstance(ann, ast.Constant):
            continue
        free = [n.id for n in ast.walk(ann) if isinstance(n, ast.Name) and n.id not in known]
        if free:
            setattr(obj, field, ast.Constant(value=ast.unparse(ann)))


def mutate_once(tpl, rng, kind=None):
    """One mutant dict or None.  `kind` None draws a kind uniformly."""
    prefix, main, suffix = split_main(tpl["src"])
    kind = kind or KINDS[rng.randrange(len(KINDS))]
    if kind == "compose":
        k1 = list(_BASE)[rng.randrange(len(_BASE))]
        rest = [k for k in _BASE if k != k1]
        k2 = rest[rng.randrange(len(rest))]
        d1 = _apply(k1, main, rng, tpl)
        if d1 is None:
            return None
        # re-parse so that the second mutation sees a consistent tree
        try:
            main = ast.parse(ast.unparse(ast.fix_missing_locations(main))).body[0]
        except SyntaxError:
            return None
        d2 = _apply(k2, main, rng, tpl)
        if d2 is None:
            return None
        desc = f"{k1}({d1}) + {k2}({d2})"
    else:
        desc = _apply(kind, main, rng, tpl)
        if desc is None:
            return None
    _stringify_unbound_annotations(main, tpl["src"])
    try:
        src = join_main(prefix, main, suffix)
        with warnings.catch_warnings():
            warnings.simplefilter("ignore")
            compile(src, "<m>", "exec")
    except (SyntaxError, ValueError, TypeError, AttributeError, RecursionError):
        return None
    if src == tpl["src"] or src == join_main(*split_main(tpl["src"])):
        return None
    return {"kind": kind, "desc": desc, "src": src}


def mutants(template: dict, rng: random.Random, n: int) -> list[dict]:
    """Up to n distinct mutants of the template (deterministic for a given rng state)."""
    out, seen = [], set()
    tries = 0
    while len(out) < n and tries < 12 * n + 20:
        tries += 1
        m = mutate_once(template, rng)
        if m is None or m["src"] in seen:
            continue
        seen.add(m["src"])
        out.append(m)
    return out


if __name__ == "__main__":
    import sys

    sys.path.insert(0, __file__.rsplit("/", 1)[0])
    from templates import TEMPLATES

    r = random.Random(int(sys.argv[1]) if len(sys.argv) > 1 else 0)
    t = TEMPLATES[r.randrange(len(TEMPLATES))]
    for m in mutants(t, r, 5):
        print("=====", m["kind"], "|", m["desc"])
        print(m["src"].split(MARKER)[1])
