"""C02 — rejected programs fail with a located user error, never a crash.   LEVEL = other.

What this check does on every run:
 1. guard/translator: re-reads checker/expr_checker.py and regenerates coq/C02/GenCrash.v = the list
    of expression-synthesiser visitors that unconditionally raise InternalGuppyError (the "crash
    set" that Ast.simple describes); Props.v proves the list is the one Ast.simple was written for.
 2. re-checks coq/C02/Props.v: builder_output_simple, builder_total (+ Print Assumptions).
 3. tie X for the builder model: generated programs of the extended grammar (targets, for, def,
    comprehensions, unsupported statements) -> real CFGBuilder vs Builder.v: same error class or the
    same CFG token for token; and the invariant is re-checked directly on the real CFG (no
    checker-crashing node in any statement, predicate or target).
 4. the SEARCH that carries the rest of the property (no model of the checkers exists): seeded
    near-miss mutants of ~40 accepted templates; check() + compile_function() under the shim;
    classifier: accepted | GuppyError that renders with spans inside the decorated source | FAIL.
    Every FAIL is shrunk and reported as a counterexample keyed by its exact (shrunk) program text.
"""
import ast
import json
import re
import time
from collections import Counter
from pathlib import Path

import tie
import vlib
import xast

LEVEL = "other"
TIE_QUICK = {"full": 170, "targets": 90, "comps": 60, "reject": 40, "chainmid": 20}
TIE_THOROUGH = {"full": 900, "targets": 400, "comps": 300, "reject": 150, "chainmid": 60}
SEARCH_QUICK, SEARCH_THOROUGH = 1200, 12000
MAX_REPORTS = 12
EXPECTED_CRASH_VISITORS = ["BoolOp", "IfExp", "ListComp", "NamedExpr"]
REPLAY_BUILDER = ("cd /verif && echo '[{\"src\": <program text as JSON string>, \"returns_none\": <bool>}]' | "
                  "VERIF_REPO=${VERIF_REPO:-/repo} PYTHONPATH=/verif/tools:/verif/props/C02 /venv/bin/python "
                  "props/C02/impl_builder.py   # prints the real CFGBuilder's outcome: error class, or CFG dump + "
                  "'crash' = checker-crashing nodes left in the output")
REPLAY_SEARCH = ("save the program text as /tmp/prog.py, then: cd /verif && VERIF_REPO=${VERIF_REPO:-/repo} "
                 "PYTHONPATH=/verif/tools:/verif/props/C02 PYTHONHASHSEED=0 /venv/bin/python props/C02/impl_search.py "
                 "--replay /tmp/prog.py   # imports the module, runs main.check() and main.compile_function(), "
                 "prints the classification and the full traceback")


# ------------------------------------------------------------------------------------------ translator
def crash_visitors(src: str):
    """ExprSynthesizer visit_* methods whose body is a single unconditional `raise InternalGuppyError`,
    plus the shape of visit_Compare's chained-comparison guard."""
    mod = ast.parse(src)
    cls = next((n for n in mod.body if isinstance(n, ast.ClassDef) and n.name == "ExprSynthesizer"), None)
    if cls is None:
        raise vlib.TranslatorError("expr_checker.py: class ExprSynthesizer not found")
    out = []
    chain_guard = False
    for f in cls.body:
        if not isinstance(f, ast.FunctionDef) or not f.name.startswith("visit_"):
            continue
        body = [s for s in f.body if not (isinstance(s, ast.Expr) and isinstance(s.value, ast.Constant))]
        if (len(body) == 1 and isinstance(body[0], ast.Raise) and isinstance(body[0].exc, ast.Call)
                and getattr(body[0].exc.func, "id", "") == "InternalGuppyError"):
            out.append(f.name[len("visit_"):])
        if f.name == "visit_Compare":
            first = body[0]
            chain_guard = (isinstance(first, ast.If) and "len(node.comparators) != 1" in ast.unparse(first.test)
                           and any(isinstance(s, ast.Raise) and "InternalGuppyError" in ast.unparse(s) for s in first.body))
    if not chain_guard:
        raise vlib.TranslatorError("expr_checker.py: visit_Compare no longer starts with the chained-comparison guard")
    # the fallback for unknown nodes must stay a *user* error
    gv = next((f for f in cls.body if isinstance(f, ast.FunctionDef) and f.name == "generic_visit"), None)
    if gv is None or "GuppyError(UnsupportedError" not in ast.unparse(gv):
        raise vlib.TranslatorError("expr_checker.py: ExprSynthesizer.generic_visit is no longer a user error")
    return sorted(out)


def generate(ctx):
    src = ctx.int_src("checker/expr_checker.py").read_text()
    vis = crash_visitors(src)
    b = ctx.int_src("cfg/builder.py").read_text()
    for needle in ("class CFGBuilder", "class ExprBuilder", "class BranchBuilder", "def desugar_comprehension",
                   "def _build_node_value", "def visit_For", "def is_illegal_in_list_comp"):
        if needle not in b:
            raise vlib.TranslatorError(f"cfg/builder.py no longer contains `{needle}`")
    items = "; ".join(f'"{v}"' for v in vis)
    ctx.gen("GenCrash.v",
            "(** REGENERATED by props/C02/check.py from checker/expr_checker.py: the ExprSynthesizer visitors\n"
            "    that unconditionally raise InternalGuppyError (besides the chained-comparison guard of\n"
            "    visit_Compare, whose presence the translator checks). *)\n"
            "From Coq Require Import String List.\nImport ListNotations.\nOpen Scope string_scope.\n"
            f"Definition crash_visitors : list string := [{items}].\n")
    return vis


# ------------------------------------------------------------------------------------------ corpus
def run_tie(ctx):
    corpus = []
    for f in sorted((ctx.dir / "corpus").glob("builder_*.json")):
        corpus += json.loads(f.read_text())
    gen = json.loads(ctx.impl("gen_cases.py", {"mode": "tie", "seed": ctx.seed, "tier": ctx.tier, "corpus": corpus,
                                               "profiles": TIE_QUICK if ctx.quick else TIE_THOROUGH}))
    progs, hist = gen["progs"], gen["hist"]
    n_fixed = len(corpus)
    impl = tie.run_impl(ctx, progs)
    model = tie.run_model(ctx, progs, "m")
    stat = Counter()
    diffs, inv_bad, span_bad = [], [], []
    distinct = set()
    for i, (p, im, (flags, toks)) in enumerate(zip(progs, impl, model)):
        if flags[0] != 1 or flags[1] != 1:
            raise RuntimeError("generator produced a non-source / ill-formed program:\n" + p["src"])
        if flags[2] == 0:
            # cannot happen while Props.vo compiles (builder_output_simple); kept as a cross-check
            diffs.append((i, {"model": "the model's own output violates Ast.simple"}))
        if im["ok"] and im["crash"]:
            inv_bad.append(i)
        if not im["ok"] and im.get("span_problem"):
            span_bad.append(i)
        if not im["ok"] and isinstance(im["err"], str) and not im["err"].startswith("GuppyError"):
            stat["impl-crash:" + im["err"].split(":")[0]] += 1
        d = tie.compare(p, im, flags, toks)
        if d is None:
            stat["agree:built" if im["ok"] else "agree:rejected:" + tie.ERR_NAMES[im["err"]]] += 1
            if im["ok"] and len(im["tokens"]) > 40:
                distinct.add(tuple(im["tokens"]))
        elif d == "declined":
            stat["model-declines(chain middle lifted)"] += 1
        else:
            stat["DIFFER"] += 1
            diffs.append((i, d))
    reports = 0
    for i in inv_bad[:MAX_REPORTS]:
        p, im = progs[i], impl[i]
        ctx.report("builder-invariant:" + p["src"], "counterexample",
                   "the real CFGBuilder leaves a node the expression checker crashes on (InternalGuppyError) in a block",
                   {"program": p["src"], "returns_none": p["returns_none"], "crash_nodes_left": im["crash"],
                    "real_cfg": im["dump"], "expected": "builder_output_simple: no BoolOp / chained Compare / IfExp / NamedExpr / "
                    "ListComp in any block statement, predicate or assignment target", "replay": REPLAY_BUILDER})
        reports += 1
    for i in span_bad[:3]:
        p, im = progs[i], impl[i]
        ctx.report("builder-span:" + p["src"], "counterexample", "builder error without a span inside the function",
                   {"program": p["src"], "problem": im["span_problem"], "error": im["err"], "replay": REPLAY_BUILDER})
    crashes = [i for i, im in enumerate(impl) if not im["ok"] and isinstance(im["err"], str)
               and (im["err"].startswith("Crash:") or im["err"].startswith("Internal:") or im["err"] == "Unencodable")]
    crashes.sort(key=lambda i: len(progs[i]["src"]))
    seen_cls = set()
    for i in crashes:
        p, im = progs[i], impl[i]
        if im["err"] == "Unencodable" or (im["err"], im.get("msg")) in seen_cls:
            continue
        seen_cls.add((im["err"], im.get("msg")))
        ctx.report("builder-crash:" + p["src"], "counterexample",
                   "the real CFGBuilder raises a non-user exception on a syntactically valid function",
                   {"program": p["src"], "returns_none": p["returns_none"], "exception": im["err"], "message": im.get("msg"),
                    "expected": "builder_total: a CFG or a GuppyError", "replay": REPLAY_BUILDER})
    seen = set(inv_bad) | set(crashes) | set(span_bad)
    rest = [(i, d) for i, d in diffs if i not in seen]
    if rest:
        rest.sort(key=lambda t: len(progs[t[0]]["src"]))
        i, d = rest[0]
        # a difference that is neither a crash nor an invariant violation: the tie is broken but the property
        # may still hold for this program
        ctx.report("tie:" + progs[i]["src"], "correspondence", "Builder.build (Coq model) vs CFGBuilder.build",
                   {"program": progs[i]["src"], "returns_none": progs[i]["returns_none"], "difference": d,
                    "differing_programs": len(rest),
                    "meaning": "the real builder no longer behaves like the model builder_output_simple/builder_total are "
                               "proved about; no crash or invariant violation was observed on the generated programs",
                    "replay": REPLAY_BUILDER}, found_input=False)
    samples = [{"program": progs[j]["src"], "profile": progs[j]["profile"],
                "real_builder": impl[j].get("dump", impl[j].get("err"))} for j in (n_fixed, min(n_fixed + 1, len(progs) - 1))]
    return {"programs": len(progs), "corpus_programs": n_fixed, "outcomes": dict(stat), "construct_histogram": dict(sorted(hist.items())),
            "distinct_nontrivial_cfgs": len(distinct), "samples": samples,
            "invariant_checked_on_real_cfgs": sum(1 for im in impl if im["ok"])}


# ------------------------------------------------------------------------------------------ search
def run_search(ctx):
    corpus = []
    for f in sorted((ctx.dir / "corpus").glob("search_*.json")):
        corpus += json.loads(f.read_text())
    gen = json.loads(ctx.impl("gen_cases.py", {"mode": "search", "seed": ctx.seed, "tier": ctx.tier, "corpus": corpus,
                                               "n": SEARCH_QUICK if ctx.quick else SEARCH_THOROUGH}))
    progs, meta, n_corpus, n_templates = gen["progs"], gen["meta"], gen["n_corpus"], gen["n_templates"]
    d = ctx.scratch / "search"
    d.mkdir(exist_ok=True)
    out = ctx.impl("impl_search.py", {"dir": str(d), "programs": progs, "compile": True, "shrink": True, "timeout_s": 30},
                   timeout=3000)
    recs = json.loads(out)
    outcome = Counter()
    kinds = Counter(m["kind"] for m in meta)
    diag = Counter()
    fails = {}
    for p, m, rec in zip(progs, meta, recs):
        outcome[rec["outcome"]] += 1
        if rec["outcome"] == "rejected":
            diag[rec["diag_class"]] += 1
        if m["kind"] == "template" and rec["outcome"] != "accepted":
            # a template that is no longer accepted: report as such (not a property violation by itself unless FAIL)
            outcome["template-not-accepted"] += 1
        if rec["outcome"] == "FAIL":
            # corpus programs are already minimal: their identity is their exact text
            text = p["src"] if m["kind"] == "corpus" else (rec.get("shrunk_src") or p["src"])
            key = "search:" + text
            if key not in fails:
                fails[key] = {"program": text, "original_program": p["src"], "mutation": m, "stage": rec["stage"],
                              "exception": rec["exc_class"], "reason": rec.get("fail_reason"),
                              "message": (rec.get("rendered") or "")[:400], "traceback": rec.get("traceback"),
                              "expected": "accepted, or GuppyError whose diagnostic renders with all spans inside the decorated source",
                              "replay": REPLAY_SEARCH}
    # report: known findings are matched by exact key; group the rest by crash site so that one defect gives one line
    # One defect gives one line: failing inputs are grouped by crash signature = (stage, exception class,
    # innermost guppylang frame, exception message with digits/quoted names masked).  A group that contains a
    # listed known finding (matched by the exact text of its corpus program) is reported as that known finding;
    # every other group is reported once, by its smallest program.
    by_site = {}
    for key, det in fails.items():
        site = (det["stage"], det["exception"], _site(det.get("traceback") or ""), _mask(det.get("reason") or ""))
        by_site.setdefault(site, []).append((len(det["program"]), key, det))
    for site, lst in sorted(by_site.items(), key=lambda kv: str(kv[0])):
        lst.sort(key=lambda t: (t[0], t[1]))
        known = [t for t in lst if ctx.is_known(t[1])]
        _, key, det = (known or lst)[0]
        det["same_crash_signature_programs"] = len(lst)
        det["crash_signature"] = list(site)
        ctx.report(key, "counterexample", f"{det['exception']} escapes from {det['stage']} ({site[2]})", det)
    samples = []
    for want in ("rejected", "accepted", "FAIL"):
        for p, m, rec in zip(progs[n_corpus + n_templates:], meta[n_corpus + n_templates:], recs[n_corpus + n_templates:]):
            if rec["outcome"] == want:
                samples.append({"mutation": m, "outcome": rec["outcome"], "diag": rec.get("diag_class"),
                                "title": rec.get("title"), "program": p["src"]})
                break
    return {"programs": len(progs), "corpus": n_corpus, "templates": n_templates, "mutants": len(progs) - n_corpus - n_templates,
            "outcome_histogram": dict(outcome), "mutation_kind_histogram": dict(kinds),
            "distinct_error_classes_reached": len(diag), "error_class_histogram": dict(diag.most_common()),
            "distinct_failing_inputs": len(fails), "distinct_crash_sites": len(by_site), "samples": samples}


def _mask(msg: str) -> str:
    return re.sub(r"`[^`]*`|'[^']*'|\d+", "_", msg)[:160]


def _site(tb: str) -> str:
    frames = re.findall(r'File "([^"]+)", line (\d+), in (\w+)', tb)
    g = [f for f in frames if "guppylang" in f[0]]
    if not g:
        return "?"
    f = g[-1]
    return f"{Path(f[0]).name}:{f[2]}"


# ------------------------------------------------------------------------------------------ run
def run(ctx):
    vis = generate(ctx)
    info = ctx.coq_props()
    if not info["ok"]:
        # the proof or the crash-set tie broke: name it, then let the differential parts look for an input
        detail = {"coq_error": vlib.CoqResult(False, info["log"]).error_excerpt(), "crash_visitors_in_source": vis,
                  "crash_visitors_expected": EXPECTED_CRASH_VISITORS}
        if vis != EXPECTED_CRASH_VISITORS:
            detail["meaning"] = ("the expression checker's set of InternalGuppyError visitors changed; Ast.simple (the spec "
                                 "side of builder_output_simple) no longer describes it")
        ctx.report("proof-broken:" + str(info["failed"]), "proof-broken", str(info["failed"]), detail, found_input=False)
    t_props = round(time.time() - ctx.t0, 1)
    model_ok = all((vlib.COQ / "C02" / f"{m}.vo").exists() for m in ("Builder", "Encode"))
    tie_cov = {"skipped": "model files do not compile"}
    if model_ok:
        tie_cov = run_tie(ctx)
    t_tie = round(time.time() - ctx.t0, 1)
    search_cov = run_search(ctx)
    t_search = round(time.time() - ctx.t0, 1)
    evaluations = tie_cov.get("programs", 0) + search_cov["programs"]
    cov = vlib.proof_coverage(
        info, "make -f Makefile.C02 C02/Props.vo && coqc C02/Props.v (Print Assumptions)",
        ["Coq kernel", "Ast.simple as the description of the checker's crash set (tied to expr_checker.py by GenCrash.v)",
         "hand-written builder model Builder.v (validated differentially, not generated)", "tools/repo_shim.py",
         "mutation generator + outcome classifier of the search (testing, not proof)"],
        explanation=("level other: PROOF only for the builder invariant (builder_output_simple, builder_total over the model, tied "
                     "to the real CFGBuilder by CFG equality on generated programs and by checking the invariant on the real CFG); "
                     "the rest of the checker has no model — the property is carried there by a seeded mutation SEARCH over "
                     "check()/compile_function() outcomes (differential testing, bounded, not a proof)."),
        evaluations=evaluations,
        distinct_nontrivial=tie_cov.get("distinct_nontrivial_cfgs", 0) + search_cov["distinct_error_classes_reached"],
        rule=("tie: programs from the seeded generator of props/C02/xast.py (profiles full/targets/comps/reject/chainmid) that CPython "
              "compiles; non-trivial+distinct = accepted programs with pairwise different CFG token lists longer than 40 tokens. "
              "search: mutants of the templates; counted as distinct non-trivial = number of distinct diagnostic classes reached"),
        samples=tie_cov.get("samples", []) + search_cov["samples"],
        builder_tie=tie_cov, search=search_cov,
        phase_end_seconds={"proofs": t_props, "builder_tie": t_tie, "search": t_search})
    return ctx.finish(LEVEL, cov, ["Coq kernel", "repo_shim", "differential harness", "mutation search is bounded testing"])
