"""C02 — correspondence (X) between coq/C02/Builder.v and the real CFGBuilder, and the direct
check of the invariant on the real builder's output."""
import ast
import json
import warnings

import xast

try:
    import vlib
except ImportError:      # generation side (gen_cases.py) does not need it
    vlib = None

CHUNK = 120


def make_programs(r, n, profile):
    g = xast.Gen(r, profile)
    out = []
    tries = 0
    with warnings.catch_warnings():
        warnings.simplefilter("ignore")
        while len(out) < n and tries < 20 * n:
            tries += 1
            body, rn = g.program()
            src = xast.program_src(body)
            try:
                compile(src, "<prog>", "exec")      # CPython's own rules (break outside loop, walrus scoping…)
            except SyntaxError:
                continue
            # printer validation: the source parses back to the term we hand to Coq
            reparsed = [xast.from_src_stmt(s) for s in ast.parse(src).body[0].body]
            if xast.norm(reparsed) != xast.norm(body):
                raise RuntimeError("printer/parser disagree on:\n" + src)
            out.append({"body": body, "src": src, "returns_none": rn, "profile": profile})
    return out, g.hist


def from_source(src, returns_none, profile, name=""):
    with warnings.catch_warnings():
        warnings.simplefilter("ignore")
        body = [xast.from_src_stmt(s) for s in ast.parse(src).body[0].body]
    for s in body:
        _no_other(s)
    return {"body": body, "src": src, "returns_none": returns_none, "profile": profile, "name": name}


def _no_other(s):
    if s[0] == "otherstmt":
        raise xast.Unencodable("corpus programs must not use unsupported statements: " + str(s[1]))
    for x in s[1:]:
        if isinstance(x, list):
            for y in x:
                if isinstance(y, tuple) and y and isinstance(y[0], str) and y[0] in (
                        "ifs", "while", "for", "def", "otherstmt"):
                    _no_other(y)


def run_impl(ctx, progs):
    out = ctx.impl("impl_builder.py", [{"src": p["src"], "returns_none": p["returns_none"]} for p in progs])
    return json.loads(out)


def run_model(ctx, progs, tag):
    files = {}
    for c in range(0, len(progs), CHUNK):
        lines = ["From Coq Require Import ZArith List Bool.", "From V.C03 Require Import PyAst.",
                 "From V.C02 Require Import Ast Builder Encode.", "Import ListNotations.", "Open Scope Z_scope."]
        for p in progs[c:c + CHUNK]:
            lines.append(f"Eval vm_compute in (run_case {p['coq']} {'true' if p['returns_none'] else 'false'}).")
        files[f"{tag}{c // CHUNK:03d}"] = "\n".join(lines) + "\n"
    outs = ctx.coq_eval_many(files)
    res = []
    for name in sorted(files):
        vals = vlib.parse_coq_values(outs[name])
        res += vals
    if len(res) != len(progs):
        raise RuntimeError(f"model evaluation returned {len(res)} values for {len(progs)} programs")
    return [(list(f), list(t)) for f, t in res]


ERR_NAMES = {0: "Unsupported(loop else)", 1: "Unsupported(statement)", 2: "Unsupported(in comprehension)",
             3: "EmptyComptimeExpr", 4: "Expected(return statement)", 5: "Internal(break/continue BB not defined)",
             6: "model: reachability out of fuel", 7: "model declines (chain middle lifted)"}


def compare(p, im, flags, toks):
    """None if model and implementation agree; 'declined' if the model declines; else a dict."""
    src_ok, loops_ok, simple = flags
    if toks[0] == 0 and toks[1] == 7:
        return "declined"
    if toks[0] == 0:
        if im["ok"]:
            return {"model": "rejects: " + ERR_NAMES[toks[1]], "impl": "builds a CFG", "impl_cfg": im["dump"]}
        if im["err"] != toks[1]:
            return {"model": "rejects: " + ERR_NAMES[toks[1]], "impl": f"raises {im['err']} ({im.get('msg', '')})"}
        return None
    if not im["ok"]:
        return {"model": "builds a CFG", "impl": f"raises {ERR_NAMES.get(im['err'], im['err'])} ({im.get('msg', '')})"}
    if im["tokens"] != toks:
        k = next((i for i, (a, b) in enumerate(zip(im["tokens"], toks)) if a != b), min(len(toks), len(im["tokens"])))
        return {"model": "CFG differs", "first_differing_token": k, "impl_tokens_there": im["tokens"][max(0, k - 6):k + 6],
                "model_tokens_there": toks[max(0, k - 6):k + 6], "impl_cfg": im["dump"]}
    return None
