"""C04 — numeric operators compute Python's results.  Tie: T + differential validation.

1. regenerate coq/C04/GenNumTable.v from /repo (tr_num.py, fail-closed);
2. re-check coq/C04/Props.v (per-entry proofs over the regenerated table, _refuted witnesses);
3. model-vs-compiler: print the op tree the model resolves for every operator application
   (vm_compute in Coq) and compare it with the tree read from the HUGR that /repo's compiler
   emits for the same tiny @guppy function (impl_ops.py under repo_shim), incl. rejections;
4. failing-input search (always run): evaluate the *implementation's* op tree with the HUGR
   semantics (Python mirror of Int64.v) on boundary operands and compare with CPython's own
   result reduced mod 2^64; differences inside the known-bad regions are KNOWN-FINDINGs
   (exact witness keys), any other difference is a VIOLATION with the operands as replay;
5. the HUGR op descriptions Int64.v was written from are compared with the installed texts."""
import glob
import itertools
import json
import re

import math

import vlib
from vlib import proof_coverage
import floatcheck as fc

LEVEL = "proof"
TYS = ["nat", "int", "float", "bool"]
CT = {"nat": "TNat", "int": "TInt", "float": "TFloat", "bool": "TBool"}
BIN = {"Add": "+", "Sub": "-", "Mult": "*", "Div": "/", "FloorDiv": "//", "Mod": "%", "Pow": "**", "LShift": "<<",
       "RShift": ">>", "BitOr": "|", "BitXor": "^", "BitAnd": "&", "MatMult": "@", "Eq": "==", "NotEq": "!=",
       "Lt": "<", "LtE": "<=", "Gt": ">", "GtE": ">="}
UN = {"UAdd": "+", "USub": "-", "Invert": "~"}
M64, H64 = 1 << 64, 1 << 63

DESCR = {  # the texts Int64.v was written from
    "iadd": "addition modulo 2^N (signed and unsigned versions are the same op)",
    "isub": "subtraction modulo 2^N (signed and unsigned versions are the same op)",
    "imul": "multiplication modulo 2^N (signed and unsigned versions are the same op)",
    "ineg": "negation modulo 2^N (signed and unsigned versions are the same op)",
    "iabs": "convert signed to unsigned by taking absolute value",
    "idivmod_u": "given unsigned integers 0 <= n < 2^N, 0 <= m < 2^N, generates unsigned q, r where q*m+r=n, 0<=r<m (m=0 will call panic)",
    "idivmod_s": "given signed integer -2^{N-1} <= n < 2^{N-1} and unsigned 0 <= m < 2^N, generates signed q and unsigned r where q*m+r=n, 0<=r<m (m=0 will call panic)",
    "idiv_s": "as idivmod_s but discarding the second output", "imod_s": "as idivmod_s but discarding the first output",
    "idiv_u": "as idivmod_u but discarding the second output", "imod_u": "as idivmod_u but discarding the first output",
    "ishl": "shift first input left by k bits where k is unsigned interpretation of second input (leftmost bits dropped, rightmost bits set to zero",
    "ishr": "shift first input right by k bits where k is unsigned interpretation of second input (rightmost bits dropped, leftmost bits set to zero)",
    "ipow": "raise first input to the power of second input, the exponent is treated as an unsigned integer",
    "ilt_s": '"less than" as signed integers', "ilt_u": '"less than" as unsigned integers',
    "ige_s": '"greater than or equal" as signed integers', "ige_u": '"greater than or equal" as unsigned integers',
}


def generate(ctx):
    import tr_num
    ctx.gen("GenNumTable.v", tr_num.translate(ctx))


# ------------------------------------------------------------------------------------------
# the operator applications


def applications():
    apps = []
    for op, sym in BIN.items():
        for a, b in itertools.product(TYS, TYS):
            apps.append({"id": f"{op}:{a}:{b}", "params": [a, b], "expr": f"a0 {sym} a1",
                         "coq": f"resolve_bin T {op} {CT[a]} {CT[b]}"})
    for op, sym in UN.items():
        for a in TYS:
            apps.append({"id": f"{op}:{a}", "params": [a], "expr": f"{sym}a0", "coq": f"resolve_un T {op} {CT[a]}"})
    for a in TYS:
        apps.append({"id": f"not:{a}", "params": [a], "expr": "not a0", "coq": f"resolve_not T {CT[a]}"})
        apps.append({"id": f"abs:{a}", "params": [a], "expr": "abs(a0)", "coq": f'resolve_builtin T "abs" [{CT[a]}]'})
        apps.append({"id": f"round:{a}", "params": [a], "expr": "round(a0)", "coq": f'resolve_builtin T "round" [{CT[a]}]'})
    for t, a in itertools.product(TYS, TYS):
        apps.append({"id": f"conv:{t}:{a}", "params": [a], "expr": f"{t}(a0)", "coq": f"resolve_conv T {CT[t]} {CT[a]}"})
        apps.append({"id": f"pow:{t}:{a}", "params": [t, a], "expr": "pow(a0, a1)", "coq": f'resolve_builtin T "pow" [{CT[t]}; {CT[a]}]'})
        apps.append({"id": f"divmod:{t}:{a}", "params": [t, a], "expr": "divmod(a0, a1)", "coq": f'resolve_builtin T "divmod" [{CT[t]}; {CT[a]}]'})
    return apps


def model_trees(ctx, apps):
    out = {}
    files = {}
    for k in range(0, len(apps), 120):
        chunk = apps[k:k + 120]
        body = ["From Coq Require Import ZArith String List.", "From V.C04 Require Import Int64 NumBase GenNumTable ModelNum Proofs.",
                "Import ListNotations. Open Scope string_scope.",
                "Definition cases : list string := [" + ";\n".join(f"show_typed ({a['coq']})" for a in chunk) + "].",
                "Eval vm_compute in cases."]
        files[f"trees{k}"] = "\n".join(body)
    outs = ctx.coq_eval_many(files)
    for k in range(0, len(apps), 120):
        vals = vlib.parse_coq_values(outs[f"trees{k}"])[0]
        for a, v in zip(apps[k:k + 120], vals):
            out[a["id"]] = v
    return out


# ------------------------------------------------------------------------------------------
# Python mirror of Int64.v (HUGR semantics) for the failing-input search


def to_s(w):
    return w if w < H64 else w - M64


class Panic(Exception):
    pass


def hugr_eval(tree, env):
    """evaluate a tree string over 64-bit words / bools; floats unsupported -> None"""
    tree = tree.strip()
    m = re.fullmatch(r"a(\d+)", tree)
    if m:
        return env[int(m.group(1))]
    if tree.startswith("const:"):
        v = tree[6:]
        if "." in v:
            return float(v)
        return int(v) % M64
    m = re.match(r"([\w.]+)\((.*)\)(#\d)?$", tree, re.S)
    if not m:
        raise NotImplementedError(tree)
    name, inner, proj = m.group(1), m.group(2), m.group(3)
    args = split_top(inner)
    if name == "panic_if":
        if hugr_eval(args[0], env):
            raise Panic()
        return hugr_eval(args[1], env)
    if name == "if":
        return hugr_eval(args[1] if hugr_eval(args[0], env) else args[2], env)
    if name == "tuple":
        return tuple(hugr_eval(a, env) for a in args)
    vs = [hugr_eval(a, env) for a in args]
    if name == "unwrap":
        return vs[0]
    if name in ("arithmetic.conversions.trunc_s", "arithmetic.conversions.trunc_u"):
        f = vs[0]
        lo, hi = (-H64, H64) if name.endswith("_s") else (0, M64)
        if not math.isfinite(f) or not lo <= int(f) < hi:
            raise Panic()
        return int(f) % M64
    if name in fc.FLOAT_OPS:
        return fc.FLOAT_OPS[name](*vs)
    short = name.split(".")[-1]
    ext = name.rsplit(".", 1)[0]
    if ext == "tket.bool":
        a = vs
        return {"and": lambda: a[0] and a[1], "or": lambda: a[0] or a[1], "xor": lambda: a[0] != a[1],
                "eq": lambda: a[0] == a[1], "not": lambda: not a[0]}[short]()
    if ext != "arithmetic.int":
        raise NotImplementedError(name)
    a = vs[0]
    b = vs[1] if len(vs) > 1 else None

    def dm_u():
        if b == 0:
            raise Panic()
        return (a // b, a % b)

    def dm_s():
        if b == 0:
            raise Panic()
        return ((to_s(a) // b) % M64, to_s(a) % b)
    def s2u():
        if to_s(a) < 0:
            raise Panic()
        return a
    table = {
        "iadd": lambda: (a + b) % M64, "isub": lambda: (a - b) % M64, "imul": lambda: (a * b) % M64,
        "ineg": lambda: (-a) % M64, "iabs": lambda: abs(to_s(a)), "inot": lambda: M64 - 1 - a,
        "idiv_u": lambda: dm_u()[0], "imod_u": lambda: dm_u()[1], "idivmod_u": dm_u,
        "idiv_s": lambda: dm_s()[0], "imod_s": lambda: dm_s()[1], "idivmod_s": dm_s,
        "ishl": lambda: (a << b) % M64 if b < 64 else 0, "ishr": lambda: a >> b if b < 64 else 0,
        "iand": lambda: a & b, "ior": lambda: a | b, "ixor": lambda: a ^ b,
        "ipow": lambda: pow(a, b, M64),
        "ieq": lambda: a == b, "ine": lambda: a != b, "ilt_u": lambda: a < b, "ile_u": lambda: a <= b,
        "igt_u": lambda: a > b, "ige_u": lambda: a >= b, "ilt_s": lambda: to_s(a) < to_s(b),
        "ile_s": lambda: to_s(a) <= to_s(b), "igt_s": lambda: to_s(a) > to_s(b), "ige_s": lambda: to_s(a) >= to_s(b),
        "is_to_u": s2u,
    }
    if short not in table:
        raise NotImplementedError(name)
    r = table[short]()
    if proj:
        return r[int(proj[1:])]
    return r


def split_top(s):
    parts, depth, cur = [], 0, ""
    for ch in s:
        if ch == "(":
            depth += 1
        elif ch == ")":
            depth -= 1
        if ch == "," and depth == 0:
            parts.append(cur)
            cur = ""
        else:
            cur += ch
    parts.append(cur)
    return parts


BOUND = {"int": [0, 1, -1, 2, -2, 3, 7, -7, -8, 63, 64, H64 - 1, -H64, -H64 + 1, 3037000500, 2**53 + 1, 27021597764222979],
         "nat": [0, 1, 2, 3, 7, 63, 64, H64 - 1, H64, H64 + 2, M64 - 1, 2**53 + 1, 27021597764222979], "bool": [False, True],
         "float": [0.0, -0.0, 1.0, -1.0, 0.1, -0.1, 0.5, 2.5, -2.5, 3.0, 7.5, 1e-320, 1e308, 9007199254740992.0,
                   1e16, 123456789.125, 9.223372036854775808e18, 1.2e19, float("inf"), float("-inf"), float("nan")]}
def py_pow(x, y):
    if isinstance(x, float) or isinstance(y, float):
        r = x ** y
        if isinstance(r, complex):
            raise ValueError("complex")
        return r
    return pow(x, y, M64)


PYOPS = {"Div": lambda x, y: x / y, "Add": lambda x, y: x + y, "Sub": lambda x, y: x - y, "Mult": lambda x, y: x * y, "FloorDiv": lambda x, y: x // y,
         "Mod": lambda x, y: x % y, "Pow": py_pow, "LShift": lambda x, y: x << y, "RShift": lambda x, y: x >> y,
         "BitOr": lambda x, y: x | y, "BitXor": lambda x, y: x ^ y, "BitAnd": lambda x, y: x & y, "Eq": lambda x, y: x == y,
         "NotEq": lambda x, y: x != y, "Lt": lambda x, y: x < y, "LtE": lambda x, y: x <= y, "Gt": lambda x, y: x > y,
         "GtE": lambda x, y: x >= y}


def in_dom(op, x, y):
    if isinstance(x, bool) or isinstance(y, bool):
        return op in ("BitOr", "BitXor", "BitAnd", "Eq", "NotEq")
    if op in ("FloorDiv", "Mod", "divmod", "Div") and y == 0:
        return False
    if op in ("LShift", "RShift") and not 0 <= y < 64:
        return False
    if op in ("Pow", "pow") and not isinstance(x, float) and not isinstance(y, float) and (y < 0 or y > 4096 and abs(x) > 1):
        return False
    return True


def py_result(kind, op, xs):
    """Python's own result, reduced mod 2^64 (ints) / bool"""
    if kind == "bin":
        r = PYOPS[op](*xs)
    elif kind == "un":
        r = {"UAdd": lambda x: +x, "USub": lambda x: -x, "Invert": lambda x: ~x}[op](xs[0])
    elif kind == "not":
        r = not xs[0]
    elif kind == "abs":
        r = abs(xs[0])
    elif kind == "round":
        r = round(xs[0])
    elif kind == "conv":
        r = {"int": int, "nat": int, "bool": bool, "float": float}[op](xs[0])
    elif kind == "pow":
        r = py_pow(xs[0], xs[1])
    elif kind == "divmod":
        r = divmod(*xs)
    if isinstance(r, (bool, float)):
        return r
    if isinstance(r, tuple):
        return tuple(v if isinstance(v, float) else v % M64 for v in r)
    return r % M64


def search(app_id, params, tree):
    """first boundary operands (in the property's domain) on which the op tree differs from CPython"""
    parts = app_id.split(":")
    kind = parts[0] if parts[0] in ("not", "abs", "conv", "pow", "divmod", "round") else ("bin" if parts[0] in BIN else "un")
    if kind == "round" and "float" in params:
        return []      # round(float) returns an int in Python, a float in Guppy: not in the property's operator list
    op = parts[1] if kind == "conv" else parts[0]
    diffs = []
    for xs in itertools.product(*[BOUND[p] for p in params]):
        if len(xs) == 2 and not in_dom(op, xs[0], xs[1]):
            continue
        if kind == "conv" and parts[1] == "nat" and not isinstance(xs[0], bool) and xs[0] < 0:
            continue
        if kind == "bin" and op not in PYOPS:
            continue
        if kind == "bin" and isinstance(xs[0], bool) and op not in ("BitOr", "BitXor", "BitAnd", "Eq", "NotEq"):
            continue
        if kind == "conv" and isinstance(xs[0], float):
            f = xs[0]
            if op in ("int", "nat") and not (math.isfinite(f) and ((-H64 <= int(f) < H64) if op == "int" else (0 <= int(f) < M64))):
                continue          # float -> int conversion out of range: outside the property
        env = [x if isinstance(x, (bool, float)) else x % M64 for x in xs]
        try:
            exp = py_result(kind, op, list(xs))
        except (OverflowError, ValueError, ZeroDivisionError, TypeError):
            continue              # Python's result is not defined on these operands
        try:
            got = hugr_eval(tree, env)
        except Panic:
            got = "panic"
        except fc.Skip:
            continue
        except NotImplementedError:
            return diffs
        if isinstance(got, int) and not isinstance(got, bool) and isinstance(exp, bool):
            got = bool(got)
        if not fc.same(got, exp):
            diffs.append((xs, exp, got))
    return diffs


def known_region(app_id, xs):
    """mirror of ModelNum.known_bad_Z (the regions carved out of the theorems)"""
    p = app_id.split(":")
    op = {"pow": "Pow", "divmod": "FloorDiv"}.get(p[0], p[0])
    if op not in BIN or len(xs) != 2 or isinstance(xs[0], bool):
        return False
    t1, t2 = p[1], p[2]
    x, y = xs
    cmp = op in ("Eq", "NotEq", "Lt", "LtE", "Gt", "GtE")
    if op == "RShift" and t1 == "int":
        return x < 0
    if op in ("FloorDiv", "Mod") and (t1, t2) == ("int", "int"):
        return y < 0
    if op in ("FloorDiv", "Mod") and (t1, t2) == ("nat", "int"):
        return y < 0 or x >= H64
    if op == "Pow" and (t1, t2) == ("int", "nat"):
        return y >= H64
    if cmp and (t1, t2) == ("nat", "int"):
        return x >= H64
    if cmp and (t1, t2) == ("int", "nat"):
        return y >= H64
    return False


def in_documented(a, xs, got):
    try:
        return fc.same(fc.documented(a["id"], a["params"], list(xs)), got)
    except (fc.Skip, OverflowError, ValueError, ZeroDivisionError):
        return False


def keystr(x):
    if isinstance(x, bool):
        return str(x)
    if isinstance(x, float):
        return repr(x)
    return str(int(x))


def spec_validation(ctx, n):
    """Float64.v's Python-side functions (and the PrimFloat primitives) vs the real CPython"""
    r = vlib.rng(ctx.seed, "C04-floatspec")
    cases = fc.spec_cases(r, n)
    files = {f"fspec{k}": fc.spec_file(cases[k:k + 400]) for k in range(0, len(cases), 400)}
    outs = ctx.coq_eval_many(files, timeout=600)
    bad = 0
    for k in range(0, len(cases), 400):
        vals = vlib.parse_coq_values(outs[f"fspec{k}"])[0]
        for c, v in zip(cases[k:k + 400], vals):
            if list(v) != list(c[2]):
                bad += 1
                if bad <= 3:
                    ctx.report(f"float-spec:{c[0]}", "correspondence", "Float64.v Python-side spec vs CPython",
                               {"case": c[0], "coq": [str(x) for x in v], "cpython": [str(x) for x in c[2]],
                                "meaning": "the Coq definition of Python's float semantics (or a PrimFloat primitive) disagrees with the real CPython: the float theorems are about a wrong specification"})
    kinds = {}
    for c in cases:
        kk = c[0].split("(")[0] if "(" in c[0] and not c[0][0].isdigit() and c[0][0] != "-" else "arith/cmp"
        kinds[kk] = kinds.get(kk, 0) + 1
    return len(cases), bad, kinds, [c[0] for c in cases[:3]]


def float_assumptions(ctx):
    """PropsFloat.v prints its assumptions itself: they must all be kernel primitives"""
    rc, out = vlib.coqc_file(vlib.COQ / "C04" / "PropsFloat.v")
    names = set()
    for line in out.split("\n"):
        m = __import__("re").match(r"^([A-Za-z_][\w.']*)\s*:", line)
        if m and m.group(1) != "Axioms":
            names.add(m.group(1))
    allowed = {"sub", "opp", "of_uint63", "normfr_mantissa", "mul", "ltb", "leb", "ldshiftexp", "frshiftexp", "float", "eqb",
               "div", "add", "abs", "classify", "compare", "sqrt", "next_up", "next_down"}
    bad = [n for n in names if not (n in allowed or n.startswith("PrimInt63.") or n.startswith("PrimFloat."))]
    return rc, sorted(names), bad


def run(ctx):
    tr_err = None
    try:
        generate(ctx)
        info = ctx.coq_props()
    except vlib.TranslatorError as e:
        # fail-closed translator: the tie is broken.  No Coq this run (the generated table is
        # stale); the implementation-vs-Python search below still runs on the real tree so
        # that a concrete failing input is reported when the change is a real defect.
        tr_err = str(e)
        info = {"ok": False, "obligations": 1, "discharged": 0, "axioms": [], "log": tr_err, "failed": "translator",
                "theorems": [], "closed": 0}
    apps = applications()
    r = vlib.rng(ctx.seed, "C04")
    # ---- model trees (needs GenNumTable/ModelNum/Proofs .vo; they build even if a row proof fails)
    model = None
    if tr_err is None:
        try:
            model = model_trees(ctx, apps)
        except RuntimeError as e:
            ctx.notes.append(f"model tree evaluation failed: {str(e)[-600:]}")
    # ---- which applications go to the real compiler: the builtin-function forms (every ordered
    # pair of argument types, accepted or not) are always all included
    if ctx.quick:
        core = [a for a in apps if a["params"][0] == a["params"][-1] or a["id"].split(":")[0] in
                ("Sub", "Lt", "FloorDiv", "conv", "pow", "divmod", "abs", "round", "not")
                or any(k.get("key", "").startswith(a["id"] + ":") for k in ctx.known)]
        rest = [a for a in apps if a not in core]
        chosen = core + r.sample(rest, min(40, len(rest)))
    else:
        chosen = apps
    payload = []
    for a in chosen:
        mt = model.get(a["id"]) if model else None
        ret = "auto"      # no result type known (model rejects / no model): probe; "if accepted, the value must be Python's"
        if mt and mt != "REJECTED":
            ret = mt.split(" : ")[1].replace(",", ", ")
        payload.append({"id": a["id"], "params": a["params"], "ret": ret, "expr": a["expr"]})
    impl = json.loads(ctx.impl("impl_ops.py", payload, timeout=1500))
    mismatches, compared, tree_compared = 0, 0, 0
    for a in chosen:
        i = impl[a["id"]]
        mt = model.get(a["id"]) if model else None
        if mt is None:
            continue
        compared += 1
        ok = True
        if mt == "REJECTED":
            ok = i["status"] == "rejected"
        elif i["status"] != "ok":
            ok = False
        else:
            mtree = mt.split(" : ")[0]
            if i["tree"] is not None:
                tree_compared += 1
                ok = i["tree"] == mtree
            else:
                mops = set(re.findall(r"((?:arithmetic|tket)\.[\w.]+)\(", mtree)) | set(re.findall(r"const:[\w.]+", mtree))
                iops = {o for o in i["ops"] if o != "arithmetic.conversions.itousize"}
                ok = {o for o in mops if not o.startswith("const")} == {o for o in iops if not o.startswith("const") and o != "unwrap"} \
                    and {o for o in mops if o.startswith("const")} <= iops
        if not ok:
            mismatches += 1
            if mismatches <= 3:
                ctx.report(f"model-vs-compiler:{a['id']}", "correspondence", "ModelNum.resolve vs HUGR emitted by /repo",
                           {"application": a["expr"], "operand_types": a["params"], "model": mt, "compiler": i,
                            "meaning": "the op tree the Coq model derives from the generated tables differs from what the compiler emits: the translator's reading or the dispatch model is wrong for this tree"})
    # ---- failing-input search on the implementation's own trees (always)
    findings, searched, evaluations = [], 0, 0
    for a in chosen:
        i = impl[a["id"]]
        tree = i.get("tree")
        if i["status"] != "ok":
            continue
        if tree is None and model and model.get(a["id"], "REJECTED") != "REJECTED":
            tree = model[a["id"]].split(" : ")[0]      # control-flow callee: use the (op-set validated) model tree
        if tree is None:
            continue
        searched += 1
        diffs = search(a["id"], a["params"], tree)
        evaluations += 1
        for xs, exp, got in diffs:
            findings.append((a, xs, exp, got, tree))
    new_viol = 0
    viol_apps = set()
    seen_known = set()
    for a, xs, exp, got, etree in findings:
        key = f"{a['id']}:{':'.join(keystr(x) for x in xs)}"
        detail = {"application": a["expr"], "operand_types": a["params"], "operands": [str(x) for x in xs],
                  "python_result_mod_2^64": str(exp), "value_under_emitted_hugr_ops": str(got), "emitted_op_tree": etree,
                  "replay": f"@guppy def f({', '.join(f'a{j}: {t}' for j, t in enumerate(a['params']))}): return {a['expr']}  -- compile with /repo, run the emitted op on the operands"}
        if ctx.is_known(key):
            ctx.report(key, "counterexample", "known", detail)
            seen_known.add(key)
        elif known_region(a["id"], xs) or in_documented(a, xs, got):
            continue      # inside a carved-out / documented region; represented by its listed witness
        else:
            new_viol += 1
            if a["id"] not in viol_apps and len(viol_apps) < 6:      # one replay per application, at most 6
                viol_apps.add(a["id"])
                ctx.report(key, "counterexample", "operator result differs from Python", detail)
    if tr_err is not None:
        if new_viol == 0:
            ctx.report(f"translator:{tr_err}", "proof-broken", "translator", {"error": tr_err, "searched_applications": searched},
                       found_input=False)
        else:
            ctx.notes.append(f"translator failed closed: {tr_err}")
    elif not info["ok"] and new_viol == 0 and mismatches == 0:
        ctx.report("proof-broken:" + str(info["failed"]), "proof-broken", str(info["failed"]),
                   {"coq_error": vlib.CoqResult(False, info["log"]).error_excerpt(), "searched_applications": searched},
                   found_input=False)
    # ---- float part: Coq's Python-side float spec vs CPython; assumptions of PropsFloat.v
    fs_n, fs_bad, fs_kinds, fs_samples = 0, 0, {}, []
    fa_names, fa_bad = [], []
    if tr_err is None and (vlib.COQ / "C04" / "Float64.vo").exists():
        try:
            fs_n, fs_bad, fs_kinds, fs_samples = spec_validation(ctx, 1800 if ctx.quick else 27000)
        except RuntimeError as e:
            ctx.report("float-spec:evaluation-failed", "correspondence", "Float64.v evaluation", {"error": str(e)[-800:]}, found_input=False)
        if info["ok"]:
            rc_f, fa_names, fa_bad = float_assumptions(ctx)
            if rc_f != 0 or fa_bad:
                ctx.report("proof-broken:PropsFloat.v", "proof-broken", "C04/PropsFloat.v",
                           {"rc": rc_f, "non_primitive_assumptions": fa_bad}, found_input=False)
    # ---- spec text drift
    drift = []
    try:
        p = glob.glob("/venv/lib/python3*/site-packages/hugr/std/_json_defs/arithmetic/int.json")[0]
        d = json.load(open(p))["operations"]
        drift = [k for k, v in DESCR.items() if d.get(k, {}).get("description") != v]
    except Exception as e:  # noqa: BLE001
        ctx.notes.append(f"could not read hugr int.json: {e}")
    if drift:
        ctx.notes.append(f"HUGR op description changed for {drift}: Int64.v must be re-read against the new text")
    forms = {}
    for a in chosen:
        p0 = a["id"].split(":")
        form = f"{p0[1]}()" if p0[0] == "conv" else (p0[0] + "()" if p0[0] in ("pow", "divmod", "abs", "round") else p0[0])
        st = impl[a["id"]]["status"]
        d = forms.setdefault(form, {"accepted": 0, "rejected": 0, "crash": 0})
        d["accepted" if st == "ok" else ("rejected" if st == "rejected" else "crash")] += 1
    accepted = sum(1 for a in apps if model and model.get(a["id"]) != "REJECTED") if model else sum(d["accepted"] for d in forms.values())
    cov = proof_coverage(
        info, "make C04/Props.vo && coqc C04/Props.v (Print Assumptions)",
        ["Coq 8.16.1 kernel incl. vm_compute",
         "coq/C04/Int64.v: HUGR arithmetic.int semantics written from the op descriptions (compared with hugr-py's int.json on each run)",
         "props/C04/tr_num.py: reading of decorators / operator tables / dispatch shapes; tools/repo_shim.py",
         "floats: PrimFloat kernel primitives (add sub mul div abs opp eqb ltb leb, conversions through frshiftexp/ldshiftexp) are taken as IEEE-754 binary64; coq/C04/Float64.v's floor/ceil/int<->float conversions and its model of CPython's float_divmod / long_true_divide / exact int<->float comparison are validated bit-exactly against the real CPython on every run (not proved); pow and round are uninterpreted (same function on both sides)",
         "the failing-input search evaluates the emitted op tree with CPython's own IEEE float arithmetic",
         "expr_compiler / custom compilers are not modelled: only the emitted op tree is compared with the model"],
        evaluations=compared + sum(1 for _ in findings) + searched + fs_n, distinct_nontrivial=accepted,
        rule="an evaluation = one operator application (operator x operand types) compiled by /repo and compared with the model's tree, or one application searched on the boundary grid; non-trivial = application accepted by Guppy (has an op tree)",
        traces_validated_against_impl=compared, tree_compared=tree_compared, model_compiler_mismatches=mismatches,
        applications_total=len(apps), applications_compiled=len(chosen), accepted_by_model=accepted,
        boundary_operands=BOUND if False else {k: [str(x) for x in v] for k, v in BOUND.items()},
        differences_found=len(findings), differences_outside_known_regions=new_viol, known_witnesses_reproduced=sorted(seen_known),
        hugr_description_drift=drift, accepted_rejected_by_compiler_per_form=forms, translator_error=tr_err,
        float_spec_cases_vs_cpython=fs_n, float_spec_disagreements=fs_bad, float_spec_case_kinds=fs_kinds,
        float_spec_samples=fs_samples, propsfloat_assumptions_kernel_primitives=fa_names,
        samples=[{"application": a["id"], "model": (model or {}).get(a["id"]), "compiler": impl[a["id"]].get("tree")} for a in chosen[:3]],
        notes=ctx.notes)
    return ctx.finish(LEVEL, cov, ["HUGR arithmetic.int/float/conversions op semantics as written in Int64.v / abstract float model",
                                   "nat(x) is specified only for x >= 0 (no Python value for a negative nat)"])
