"""C04 float part (used by check.py).

A. validation of the Coq Python-side float spec (Float64.v) against the real CPython:
   py_float_divmod, py_truediv_Z, py_cmp_Z_F / py_cmp_F_Z, pf_of_Z, pf_trunc, pf_floor,
   pf_ceil and the PrimFloat primitives, on boundary + seeded random floats (bit-exact).
B. evaluation of the implementation's op tree on floats with IEEE semantics (CPython's own
   float ops are IEEE binary64) for the failing-input search, and the *documented*
   known-bad formulas that delimit the known regions for float entries."""
import math
import struct

M64, H64 = 1 << 64, 1 << 63
NAN_BITS = 0x7FF8000000000000


def bits(f: float) -> int:
    if f != f:
        return NAN_BITS
    return struct.unpack("<Q", struct.pack("<d", f))[0]


def unbits(b: int) -> float:
    return struct.unpack("<d", struct.pack("<Q", b))[0]


BOUNDARY_F = [0.0, -0.0, 1.0, -1.0, 0.1, -0.1, 0.3, 0.5, -0.5, 1.5, 2.5, -2.5, 3.0, 7.0, -7.0, 7.5, 1e-320, 5e-324,
              2.2250738585072014e-308, 1e308, 1.7976931348623157e308, 9007199254740992.0, 9007199254740994.0,
              -9007199254740992.0, 4503599627370496.5, 1e16, 123456789.125, 9.223372036854775e18, 1.8446744073709552e19,
              float("inf"), float("-inf"), float("nan")]
BOUNDARY_I = [0, 1, -1, 2, 3, -3, 7, 10, 2**53, 2**53 + 1, -(2**53 + 1), 3 * 2**53 + 3, 2**62 + 1, 2**63 - 1, -2**63]


def rand_float(r):
    k = r.random()
    if k < 0.15:
        return r.choice(BOUNDARY_F)
    if k < 0.55:   # moderate magnitudes, many mantissa bits
        return unbits((r.getrandbits(1) << 63) | (r.randrange(1023 - 60, 1023 + 70) << 52) | r.getrandbits(52))
    if k < 0.75:   # few mantissa bits (ties, exact quotients)
        return r.choice([-1, 1]) * r.randrange(1, 2000) * 2.0 ** r.randrange(-12, 12)
    return unbits(r.getrandbits(64))


def rand_int(r):
    k = r.random()
    if k < 0.2:
        return r.choice(BOUNDARY_I)
    n = r.randrange(1, 64)
    return r.choice([-1, 1]) * r.getrandbits(n)


CMP = {"Eq": lambda a, b: a == b, "NotEq": lambda a, b: a != b, "Lt": lambda a, b: a < b, "LtE": lambda a, b: a <= b,
       "Gt": lambda a, b: a > b, "GtE": lambda a, b: a >= b}


def spec_cases(r, n):
    """list of (label, coq term of type list Z, expected list of ints)"""
    cases = []

    def fb(f):
        return f"(float_of_bits {bits(f)})"
    kinds = ["divmod", "truediv", "cmpzf", "cmpfz", "ofz", "trunc", "floor", "ceil", "prim"]
    grid = [(x, y) for x in BOUNDARY_F for y in BOUNDARY_F]
    gi = 0
    while len(cases) < n:
        kind = kinds[len(cases) % len(kinds)]
        if kind == "divmod":
            if gi < len(grid):
                x, y = grid[gi]
                gi += 1
            else:
                x, y = rand_float(r), rand_float(r)
            if not (math.isfinite(x) and math.isfinite(y)) or y == 0:
                x, y = 7.5, -2.0
            q, m = divmod(x, y)
            cases.append((f"divmod({x!r},{y!r})",
                          f"match py_float_divmod {fb(x)} {fb(y)} with Some (q, m) => [bits_of_float q; bits_of_float m] | None => [] end",
                          [bits(q), bits(m)]))
        elif kind == "truediv":
            a, b = rand_int(r), rand_int(r)
            if b == 0:
                b = 3
            cases.append((f"{a}/{b}", f"[bits_of_float (py_truediv_Z ({a}) ({b}))]", [bits(a / b)]))
        elif kind in ("cmpzf", "cmpfz"):
            f = rand_float(r)
            if math.isfinite(f) and abs(f) < 2.0**70 and r.random() < 0.7:
                x = int(f) + r.choice([-1, 0, 0, 1])
            else:
                x = rand_int(r)
            op = r.choice(sorted(CMP))
            if kind == "cmpzf":
                cases.append((f"{x} {op} {f!r}", f"match py_cmp_Z_F {op} ({x}) {fb(f)} with Some true => [1] | Some false => [0] | None => [] end",
                              [1 if CMP[op](x, f) else 0]))
            else:
                cases.append((f"{f!r} {op} {x}", f"match py_cmp_F_Z {op} {fb(f)} ({x}) with Some true => [1] | Some false => [0] | None => [] end",
                              [1 if CMP[op](f, x) else 0]))
        elif kind == "ofz":
            x = rand_int(r) if r.random() < 0.7 else r.getrandbits(64)
            cases.append((f"float({x})", f"[bits_of_float (pf_of_Z ({x}))]", [bits(float(x))]))
        elif kind == "trunc":
            f = rand_float(r)
            exp = [1, int(f)] if math.isfinite(f) else [0]
            cases.append((f"int({f!r})", f"match pf_trunc {fb(f)} with Some z => [1; z] | None => [0] end", exp))
        elif kind in ("floor", "ceil"):
            f = rand_float(r)
            if math.isfinite(f):
                v = float(math.floor(f) if kind == "floor" else math.ceil(f))
                if v == 0:
                    v = math.copysign(0.0, f) if (kind == "ceil" or f == 0) else 0.0
            else:
                v = f
            cases.append((f"{kind}({f!r})", f"[bits_of_float (pf_{kind} {fb(f)})]", [bits(v)]))
        else:
            x, y = rand_float(r), rand_float(r)
            with_div = ieee_div(x, y)
            cases.append((f"prim({x!r},{y!r})",
                          f"[bits_of_float (add {fb(x)} {fb(y)}); bits_of_float (sub {fb(x)} {fb(y)}); bits_of_float (mul {fb(x)} {fb(y)}); "
                          f"bits_of_float (div {fb(x)} {fb(y)}); (if PrimFloat.eqb {fb(x)} {fb(y)} then 1 else 0); (if ltb {fb(x)} {fb(y)} then 1 else 0); "
                          f"(if leb {fb(x)} {fb(y)} then 1 else 0); bits_of_float (opp {fb(x)}); bits_of_float (abs {fb(x)}); bits_of_float (float_of_bits {bits(x)})]",
                          [bits(ieee(lambda: x + y)), bits(ieee(lambda: x - y)), bits(ieee(lambda: x * y)), bits(with_div),
                           int(x == y), int(x < y), int(x <= y), bits(-x), bits(abs(x)), bits(x)]))
    return cases


def ieee(thunk):
    try:
        return thunk()
    except OverflowError:
        return float("nan")


def ieee_div(x, y):
    if y == 0:
        if x == 0 or x != x:
            return float("nan")
        return math.copysign(float("inf"), x) * math.copysign(1.0, y)
    return x / y


def spec_file(chunk):
    body = ["From Coq Require Import ZArith List PrimFloat FloatOps.", "From V.C04 Require Import NumBase Float64.",
            "Import ListNotations. Open Scope Z_scope.",
            "Definition cases : list (list Z) := [" + ";\n".join(c[1] for c in chunk) + "].",
            "Eval vm_compute in cases."]
    return "\n".join(body)


# ------------------------------------------------------------------------------------------
# B. implementation trees on floats


class Skip(Exception):
    pass


def f_floor(x):
    if not math.isfinite(x) or x == 0:
        return x
    return float(math.floor(x))


def f_ceil(x):
    if not math.isfinite(x) or x == 0:
        return x
    v = float(math.ceil(x))
    return math.copysign(0.0, x) if v == 0 else v


def f_pow(x, y):
    try:
        return math.pow(x, y)
    except (OverflowError, ValueError, ZeroDivisionError):
        raise Skip()


def to_s(w):
    return w if w < H64 else w - M64


FLOAT_OPS = {
    "arithmetic.float.fadd": lambda a, b: a + b, "arithmetic.float.fsub": lambda a, b: a - b,
    "arithmetic.float.fmul": lambda a, b: a * b, "arithmetic.float.fdiv": ieee_div, "arithmetic.float.fpow": f_pow,
    "arithmetic.float.fneg": lambda a: -a, "arithmetic.float.fabs": abs, "arithmetic.float.ffloor": f_floor,
    "arithmetic.float.fceil": f_ceil,
    "arithmetic.float.feq": lambda a, b: a == b, "arithmetic.float.fne": lambda a, b: a != b,
    "arithmetic.float.flt": lambda a, b: a < b, "arithmetic.float.fle": lambda a, b: a <= b,
    "arithmetic.float.fgt": lambda a, b: a > b, "arithmetic.float.fge": lambda a, b: a >= b,
    "arithmetic.conversions.convert_s": lambda w: float(to_s(w)), "arithmetic.conversions.convert_u": lambda w: float(w),
}


def same(a, b):
    if isinstance(a, tuple) or isinstance(b, tuple):
        return isinstance(a, tuple) and isinstance(b, tuple) and len(a) == len(b) and all(same(x, y) for x, y in zip(a, b))
    if isinstance(a, float) and isinstance(b, float):
        return bits(a) == bits(b)
    if isinstance(a, float) != isinstance(b, float):
        return False
    return a == b


def cv(t, x):
    """the operand as the float the compiler's coercion produces"""
    return x if t == "float" else float(x)


def documented(app_id, params, xs):
    """Value under the DOCUMENTED known-bad lowering (known_findings.json), or Skip if the
    application has no documented deviation.  A difference from CPython is inside a known
    region iff the implementation still computes exactly this."""
    p = app_id.split(":")
    op = {"divmod": "divmod"}.get(p[0], p[0])
    if len(xs) != 2:
        raise Skip()
    t1, t2 = params
    x, y = xs
    anyf = "float" in params
    if op in ("FloorDiv", "Mod", "divmod") and anyf:
        a, b = cv(t1, x), cv(t2, y)
        q = f_floor(ieee_div(a, b))
        m = a - q * b
        return {"FloorDiv": q, "Mod": m, "divmod": (q, m)}[op]
    if op == "Div" and not anyf:
        # nat/nat: convert_u both; any int operand: both read signed (nat reinterpreted), convert_s
        if (t1, t2) == ("nat", "nat"):
            return ieee_div(float(x), float(y))
        return ieee_div(float(to_s(x % M64)), float(to_s(y % M64)))
    if op in CMP and anyf and t1 != t2:
        return CMP[op](cv(t1, x), cv(t2, y))
    raise Skip()
