"""C04 implementation side: compile tiny @guppy functions with /repo's compiler (under the
shim) and report, for each, the tree of HUGR ops that computes the returned value.

stdin : JSON list of {"id": str, "params": ["int", "float"], "ret": "float" | null, "expr": "a0 - a1"}
        ret = null  ->  the model says the application is rejected; the function is then
        written as `-> None: _x = <expr>` and a GuppyError is expected.
stdout: JSON {id: {"status": "ok"|"rejected"|"crash", "tree": str|None, "ops": [sorted op tokens], "error": str}}

Tree syntax (same as ModelNum.show): ext.op(child,...) | aN | const:v | tuple(x,y) |
unwrap(x); calls to single-block callees are inlined; make_opaque/read are transparent.
A callee with control flow makes "tree" None; "ops" (the set of arithmetic/logic op names
and constants reachable from the function, callees included) is always given."""
import importlib.util
import json
import os
import sys
import tempfile

import repo_shim  # noqa: F401
from hugr import ops
from guppylang_internals.error import GuppyError

TRANSPARENT = {"make_opaque", "read"}
KEEP_EXT = ("arithmetic.int", "arithmetic.float", "arithmetic.conversions", "tket.bool")


class NoTree(Exception):
    pass


def ext_of(o):
    e = getattr(o._op_def, "_extension", None)
    return e.name if e is not None else "?"


class Extract:
    def __init__(self, hg):
        self.hg = hg
        self.children = {}
        for n, d in hg.nodes():
            self.children.setdefault(d.parent, []).append(n)

    def op(self, n):
        return self.hg[n].op

    def src(self, n, i):
        ps = list(self.hg.linked_ports(n.inp(i)))
        if len(ps) != 1:
            raise NoTree(f"port {n}:{i} has {len(ps)} sources")
        return ps[0].node, ps[0].offset

    def single_block(self, fdef):
        """FuncDefn -> (input node, output node) of its only dataflow block, or NoTree"""
        kids = self.children.get(fdef, [])
        cfgs = [k for k in kids if isinstance(self.op(k), ops.CFG)]
        if len(cfgs) != 1:
            raise NoTree("no single CFG")
        blocks = [k for k in self.children.get(cfgs[0], []) if isinstance(self.op(k), ops.DataflowBlock)]
        if len(blocks) != 1:
            raise NoTree("control flow")
        inner = self.children.get(blocks[0], [])
        inp = [k for k in inner if isinstance(self.op(k), ops.Input)][0]
        out = [k for k in inner if isinstance(self.op(k), ops.Output)][0]
        return inp, out

    def func_tree(self, fdef, args):
        inp, out = self.single_block(fdef)
        nout = self.hg.num_in_ports(out)
        res = []
        for i in range(1, nout):          # port 0 carries the branch tag
            try:
                res.append(self.tree(*self.src(out, i), inp, args))
            except NoTree:
                raise
        return res

    def tree(self, n, off, inp, args):
        o = self.op(n)
        if n == inp:
            return args[off]
        if isinstance(o, ops.LoadConst):
            c, _ = self.src(n, 0)
            return self.const(c)
        if isinstance(o, ops.ExtOp):
            name = o._op_def.name
            kids = [self.tree(*self.src(n, i), inp, args) for i in range(len(o.signature.input))]
            if name in TRANSPARENT:
                return kids[0]
            t = f"{ext_of(o)}.{name}(" + ",".join(kids) + ")"
            if len(o.signature.output) > 1:
                t += f"#{off}"
            return t
        if isinstance(o, ops.MakeTuple):
            kids = [self.tree(*self.src(n, i), inp, args) for i in range(self.hg.num_in_ports(n))]
            if len(kids) == 2 and kids[0].endswith("#0") and kids[1].endswith("#1") and kids[0][:-2] == kids[1][:-2]:
                return kids[0][:-2]
            return "tuple(" + ",".join(kids) + ")"
        if isinstance(o, ops.UnpackTuple):
            k = self.tree(*self.src(n, 0), inp, args)
            if k.startswith("tuple("):
                parts = split_top(k[6:-1])
                return parts[off]
            return f"{k}#{off}"
        if isinstance(o, ops.Call):
            nargs = len(o.instantiation.input)
            kids = [self.tree(*self.src(n, i), inp, args) for i in range(nargs)]
            callee, _ = self.src(n, nargs)
            co = self.op(callee)
            if not isinstance(co, ops.FuncDefn):
                raise NoTree("call to a declaration")
            if co.f_name.startswith("unwrap_result"):
                return "unwrap(" + kids[0] + ")"
            outs = self.func_tree(callee, kids)
            if len(outs) == 1:
                return outs[0]
            return outs[off]
        raise NoTree(f"node kind {type(o).__name__}")

    def const(self, c):
        v = self.op(c).val
        nm = type(v).__name__
        if nm in ("IntVal", "UnsignedIntVal"):
            return f"const:{v.v}"
        if nm == "FloatVal":
            return f"const:{v.v}"
        return f"const:?{nm}"

    def opset(self, fdef, seen=None):
        seen = seen if seen is not None else set()
        out = set()
        stack = [fdef]
        while stack:
            n = stack.pop()
            for k in self.children.get(n, []):
                o = self.op(k)
                if isinstance(o, ops.ExtOp):
                    if o._op_def.name not in TRANSPARENT and ext_of(o) in KEEP_EXT:
                        out.add(f"{ext_of(o)}.{o._op_def.name}")
                elif isinstance(o, ops.Const):
                    t = self.const(k)
                    if not t.startswith("const:?"):
                        out.add(t)
                elif isinstance(o, ops.Call):
                    callee, _ = self.src(k, len(o.instantiation.input))
                    if callee not in seen and isinstance(self.op(callee), ops.FuncDefn):
                        seen.add(callee)
                        if self.op(callee).f_name.startswith("unwrap_result"):
                            out.add("unwrap")
                        else:
                            out |= self.opset(callee, seen)
                stack.append(k)
        return out


def split_top(s):
    parts, depth, cur = [], 0, ""
    for ch in s:
        if ch == "(":
            depth += 1
        elif ch == ")":
            depth -= 1
        if ch == "," and depth == 0:
            parts.append(cur)
            cur = ""
        else:
            cur += ch
    parts.append(cur)
    return parts


# "auto": the model gives no result type (it rejects the application, or the translator failed
# closed): try the narrowest return annotation first, the first one that type-checks is used
AUTO_RETS = ["nat", "int", "float", "bool", "tuple[nat, nat]", "tuple[int, int]", "tuple[float, float]"]


def main():
    cases = json.load(sys.stdin)
    lines = ["import repo_shim  # noqa", "from guppylang import guppy", "from guppylang.std.builtins import nat", ""]
    for i, c in enumerate(cases):
        ps = ", ".join(f"a{j}: {t}" for j, t in enumerate(c["params"]))
        if c["ret"] is None:
            lines += ["@guppy", f"def f{i}({ps}) -> None:", f"    _x = {c['expr']}", ""]
        elif c["ret"] == "auto":
            for k, rt in enumerate(AUTO_RETS):
                lines += ["@guppy", f"def f{i}_{k}({ps}) -> {rt}:", f"    return {c['expr']}", ""]
        else:
            lines += ["@guppy", f"def f{i}({ps}) -> {c['ret']}:", f"    return {c['expr']}", ""]
    d = tempfile.mkdtemp(prefix="c04prog_", dir=os.getcwd())
    path = os.path.join(d, "c04_prog.py")
    with open(path, "w") as fh:
        fh.write("\n".join(lines))
    spec = importlib.util.spec_from_file_location("c04_prog", path)
    mod = importlib.util.module_from_spec(spec)
    sys.modules["c04_prog"] = mod
    spec.loader.exec_module(mod)
    out = {}
    for i, c in enumerate(cases):
        rec = {"status": "ok", "tree": None, "ops": [], "error": "", "ret_used": c["ret"]}
        names = [f"f{i}"] if c["ret"] != "auto" else [f"f{i}_{k}" for k in range(len(AUTO_RETS))]
        pkg, fname = None, None
        for k, nm in enumerate(names):
            fn = getattr(mod, nm)
            try:
                pkg = fn.compile_function()
                fname = nm
                if c["ret"] == "auto":
                    rec["ret_used"] = AUTO_RETS[k]
                break
            except GuppyError as e:
                if not rec["error"]:
                    rec["error"] = type(e.error).__name__ if hasattr(e, "error") else type(e).__name__
                rec["status"] = "rejected"
            except Exception as e:  # noqa: BLE001
                rec["status"] = "crash"
                rec["error"] = f"{type(e).__name__}: {e}"[:300]
                break
        if pkg is None:
            out[c["id"]] = rec
            continue
        rec["status"], rec["error"] = "ok", ""
        hg = pkg.modules[0]
        ex = Extract(hg)
        fdef = [n for n, dd in hg.nodes() if isinstance(dd.op, ops.FuncDefn) and dd.op.f_name == fname][0]
        rec["ops"] = sorted(ex.opset(fdef))
        if c["ret"] is not None:
            try:
                args = [f"a{j}" for j in range(len(c["params"]))]
                ts = ex.func_tree(fdef, args)
                if len(ts) == 2 and ts[0].endswith("#0") and ts[1].endswith("#1") and ts[0][:-2] == ts[1][:-2]:
                    ts = [ts[0][:-2]]     # both outputs of one two-output op: the op itself
                rec["tree"] = ts[0] if len(ts) == 1 else "tuple(" + ",".join(ts) + ")"
            except NoTree as e:
                rec["error"] = f"no tree: {e}"
        out[c["id"]] = rec
    json.dump(out, sys.stdout)


if __name__ == "__main__":
    main()
