"""C04 translator (tie T): reads the numeric method tables of /repo with `ast` and emits
coq/C04/GenNumTable.v.  Fail-closed: any decorator / body / dispatch shape that is not
recognised raises TranslatorError.

Sources read (all through ctx.repo):
  guppylang/std/num.py, guppylang/std/bool.py             method -> implementation kind
  guppylang_internals/std/_internal/util.py               default extension / n_vars of int_op, float_op
  guppylang_internals/tys/ty.py                           NumericType.Kind order, INT_WIDTH
  guppylang_internals/checker/expr_checker.py             unary_table, binary_table, _synthesize_binary,
                                                          try_coerce_to, to_bool, visit_UnaryOp
  guppylang_internals/std/_internal/checker.py            ReversingChecker, DunderChecker
"""
from __future__ import annotations

import ast
from pathlib import Path

from vlib import TranslatorError
from tr_common import parse_file, find_class, find_func, find_assign, strip_doc

TYPEDEFS = {"nat_type_def": "TNat", "int_type_def": "TInt", "float_type_def": "TFloat", "bool_type_def": "TBool"}
ANN = {"nat": "TNat", "int": "TInt", "float": "TFloat", "bool": "TBool"}
# names of hugr-py extension objects -> HUGR extension ids (facts about the hugr library;
# validated on every run by compiling sample programs and reading the ops in the HUGR)
EXT_OBJ = {
    "hugr.std.int.INT_OPS_EXTENSION": "arithmetic.int",
    "hugr.std.int.CONVERSIONS_EXTENSION": "arithmetic.conversions",
    "hugr.std.float.FLOAT_OPS_EXTENSION": "arithmetic.float",
}
BINOPS = ["Add", "Sub", "Mult", "Div", "FloorDiv", "Mod", "Pow", "LShift", "RShift", "BitOr", "BitXor",
          "BitAnd", "MatMult", "Eq", "NotEq", "Lt", "LtE", "Gt", "GtE"]
UNOPS = ["UAdd", "USub", "Invert"]


def fail(node, why):
    src = ast.unparse(node) if isinstance(node, ast.AST) else str(node)
    raise TranslatorError(f"C04 translator: {why}: `{src[:120]}` (line {getattr(node, 'lineno', '?')})")


def q(s: str) -> str:
    if '"' in s or "\\" in s or any(ord(c) < 32 or ord(c) > 126 for c in s):
        raise TranslatorError(f"string with special characters: {s!r}")
    return f'"{s}"'


# ---------------------------------------------------------------------------------------
# util.py: defaults of int_op / float_op


def read_util(path: Path) -> dict:
    mod = parse_file(path)
    out = {}
    for name in ("int_op", "float_op"):
        f = find_func(mod, name)
        args = [a.arg for a in f.args.args]
        defaults = dict(zip(args[len(args) - len(f.args.defaults):], f.args.defaults))
        if args[0] != "op_name" or "ext" not in defaults:
            fail(f, f"{name} signature")
        ext = ast.unparse(defaults["ext"])
        if ext not in EXT_OBJ:
            fail(defaults["ext"], f"unknown default extension of {name}")
        nv = 0
        if name == "int_op":
            if args != ["op_name", "ext", "n_vars"] or not isinstance(defaults.get("n_vars"), ast.Constant):
                fail(f, "int_op signature")
            nv = defaults["n_vars"].value
            # body: args = [int_arg() for _ in range(n_vars)]; return external_op(op_name, args=args, ext=ext, ...)
            body = strip_doc(f.body)
            srcs = [ast.unparse(s) for s in body]
            if not any(s.replace(" ", "").startswith("args:list[ht.TypeArg]=[int_arg()for_inrange(n_vars)]") for s in srcs):
                fail(f, "int_op no longer instantiates every type argument with int_arg()")
        ret = strip_doc(f.body)[-1]
        if not (isinstance(ret, ast.Return) and isinstance(ret.value, ast.Call) and ast.unparse(ret.value.func) == "external_op"
                and ast.unparse(ret.value.args[0]) == "op_name"):
            fail(ret, f"{name} does not return external_op(op_name, ...)")
        kw = {k.arg: ast.unparse(k.value) for k in ret.value.keywords}
        if kw.get("ext") != "ext":
            fail(ret, f"{name} does not pass ext through")
        out[name] = {"ext": ext, "n_vars": nv}
    ia = find_func(mod, "int_arg")
    d = ia.args.defaults
    if len(d) != 1 or ast.unparse(d[0]) != "NumericType.INT_WIDTH":
        fail(ia, "int_arg default is not NumericType.INT_WIDTH")
    r = strip_doc(ia.body)[-1]
    if ast.unparse(r) != "return ht.BoundedNatArg(n=n)":
        fail(r, "int_arg body")
    bl = find_func(mod, "bool_logic_op")
    if "BOOL_EXTENSION.get_op(op_name)" not in ast.unparse(bl):
        fail(bl, "bool_logic_op no longer takes the op from BOOL_EXTENSION by name")
    return out


def read_ty(path: Path) -> tuple[list[str], int]:
    mod = parse_file(path)
    nt = find_class(mod, "NumericType")
    kind = find_class(nt, "Kind")
    order = []
    for s in strip_doc(kind.body):
        if isinstance(s, ast.Assign) and len(s.targets) == 1 and isinstance(s.targets[0], ast.Name):
            if ast.unparse(s.value) != "auto()":
                fail(s, "NumericType.Kind member is not auto()")
            order.append(s.targets[0].id)
        elif isinstance(s, ast.FunctionDef) and s.name == "__lt__":
            r = strip_doc(s.body)[-1]
            if ast.unparse(r) != "return self.value < other.value":
                fail(r, "NumericType.Kind.__lt__")
        else:
            fail(s, "unexpected statement in NumericType.Kind")
    m = {"Nat": "TNat", "Int": "TInt", "Float": "TFloat"}
    if sorted(order) != sorted(m):
        fail(kind, "NumericType.Kind members")
    w = find_assign(nt, "INT_WIDTH")
    if not (isinstance(w, ast.Constant) and isinstance(w.value, int)):
        fail(w, "INT_WIDTH")
    return [m[o] for o in order], w.value


# ---------------------------------------------------------------------------------------
# decorators of num.py / bool.py


def op_factory(call: ast.expr, util: dict):
    """int_op("x"[, EXT][, n_vars=k]) | float_op("x") -> (ext, name, nvars)"""
    if not isinstance(call, ast.Call) or not isinstance(call.func, ast.Name):
        fail(call, "op factory shape")
    fn = call.func.id
    if fn not in ("int_op", "float_op"):
        fail(call, "unknown op factory")
    if not call.args or not isinstance(call.args[0], ast.Constant) or not isinstance(call.args[0].value, str):
        fail(call, "op name is not a string literal")
    name = call.args[0].value
    ext, nv = util[fn]["ext"], util[fn]["n_vars"]
    rest = list(call.args[1:])
    if rest:
        ext = ast.unparse(rest.pop(0))
    if rest:
        if fn != "int_op" or not isinstance(rest[0], ast.Constant):
            fail(call, "third positional argument")
        nv = rest.pop(0).value
    for k in call.keywords:
        if k.arg == "ext":
            ext = ast.unparse(k.value)
        elif k.arg == "n_vars" and fn == "int_op" and isinstance(k.value, ast.Constant):
            nv = k.value.value
        else:
            fail(call, f"keyword {k.arg}")
    if ext not in EXT_OBJ:
        fail(call, f"unknown extension object {ext}")
    return EXT_OBJ[ext], name, nv


def ann_ty(a: ast.expr | None):
    if a is None:
        return None
    s = ast.unparse(a)
    if s in ANN:
        return ("S", ANN[s])
    if isinstance(a, ast.Subscript) and ast.unparse(a.value) == "tuple" and isinstance(a.slice, ast.Tuple) and len(a.slice.elts) == 2:
        x, y = (ast.unparse(e) for e in a.slice.elts)
        if x in ANN and y in ANN:
            return ("P", ANN[x], ANN[y])
    fail(a, "type annotation")


def coq_rty(t):
    if t is None:
        return "RUnknown"
    if t[0] == "S":
        return f"(RScalar {t[1]})"
    return f"(RPair {t[1]} {t[2]})"


class Body:
    """Guppy method bodies -> gexpr"""

    def __init__(self, params: list[str]):
        self.params = params

    def stmts(self, ss: list[ast.stmt]) -> str:
        ss = strip_doc(ss)
        if not ss:
            raise TranslatorError("empty Guppy body")
        s, rest = ss[0], ss[1:]
        if isinstance(s, ast.Return) and s.value is not None and not rest:
            return self.expr(s.value)
        if isinstance(s, ast.If) and not s.orelse and len(s.body) == 1 and isinstance(s.body[0], ast.Expr) \
                and isinstance(s.body[0].value, ast.Call) and ast.unparse(s.body[0].value.func) == "panic" and rest:
            return f"(GPanicIf {self.expr(s.test)} {self.stmts(rest)})"
        fail(s, "statement in a Guppy numeric method body")

    def expr(self, e: ast.expr) -> str:
        if isinstance(e, ast.Name):
            if e.id in self.params:
                return f"(GArg {self.params.index(e.id)})"
            fail(e, "unknown name")
        if isinstance(e, ast.Constant):
            if isinstance(e.value, bool):
                fail(e, "bool literal")
            if isinstance(e.value, int):
                return f"(GInt ({e.value}))"
            if isinstance(e.value, float) and e.value == 0.0 and ast.unparse(e) == "0.0":
                return "GFloat0"
            fail(e, "literal")
        if isinstance(e, ast.Compare):
            if len(e.ops) != 1:
                fail(e, "chained comparison")
            n = type(e.ops[0]).__name__
            if n not in BINOPS:
                fail(e, "comparison operator")
            return f"(GBin {n} {self.expr(e.left)} {self.expr(e.comparators[0])})"
        if isinstance(e, ast.BinOp):
            n = type(e.op).__name__
            if n not in BINOPS:
                fail(e, "binary operator")
            return f"(GBin {n} {self.expr(e.left)} {self.expr(e.right)})"
        if isinstance(e, ast.UnaryOp):
            if isinstance(e.op, ast.Not):
                return f"(GNot {self.expr(e.operand)})"
            n = type(e.op).__name__
            if n not in UNOPS:
                fail(e, "unary operator")
            return f"(GUn {n} {self.expr(e.operand)})"
        if isinstance(e, ast.IfExp):
            return f"(GIf {self.expr(e.test)} {self.expr(e.body)} {self.expr(e.orelse)})"
        if isinstance(e, ast.Tuple) and len(e.elts) == 2:
            return f"(GTuple {self.expr(e.elts[0])} {self.expr(e.elts[1])})"
        if isinstance(e, ast.Call) and not e.keywords:
            if isinstance(e.func, ast.Name) and e.func.id in ANN and len(e.args) == 1:
                return f"(GCallTy {ANN[e.func.id]} {self.expr(e.args[0])})"
            if isinstance(e.func, ast.Attribute) and e.func.attr.startswith("__"):
                args = " ; ".join(self.expr(a) for a in e.args)
                return f"(GMeth {self.expr(e.func.value)} {q(e.func.attr)} [{args}])"
        fail(e, "expression in a Guppy numeric method body")


def method_impl(f: ast.FunctionDef, util: dict) -> str:
    decs = f.decorator_list
    names = [ast.unparse(d) for d in decs]
    if names == ["guppy", "no_type_check"]:
        params = [a.arg for a in f.args.args]
        return f"(IBody {Body(params).stmts(f.body)})"
    if len(decs) != 1 or not isinstance(decs[0], ast.Call) or not isinstance(decs[0].func, ast.Name):
        fail(f, f"decorators of {f.name}")
    body = strip_doc(f.body)
    if not (len(body) == 1 and isinstance(body[0], ast.Expr) and isinstance(body[0].value, ast.Constant) and body[0].value.value is Ellipsis):
        fail(f, f"body of declared method {f.name} is not `...`")
    d = decs[0]
    if d.func.id == "hugr_op":
        if len(d.args) != 1 or d.keywords:
            fail(d, "hugr_op arguments")
        a = d.args[0]
        if isinstance(a, ast.Call) and isinstance(a.func, ast.Name):
            if a.func.id in ("int_op", "float_op"):
                ext, name, nv = op_factory(a, util)
                return f"(IHugr {q(ext)} {q(name)} {nv})"
            if a.func.id == "bool_logic_op" and len(a.args) == 1 and isinstance(a.args[0], ast.Constant):
                return f"(ILogic {q(a.args[0].value)})"
            if a.func.id == "unsupported_op" and len(a.args) == 1 and isinstance(a.args[0], ast.Constant):
                return f"(IUnsupported {q(a.args[0].value)})"
        fail(d, "hugr_op argument")
    if d.func.id == "custom_function":
        kws = {k.arg: k.value for k in d.keywords}
        if len(d.args) == 1 and not kws:
            a = d.args[0]
            if isinstance(a, ast.Call) and isinstance(a.func, ast.Name):
                if a.func.id == "NoopCompiler" and not a.args and not a.keywords:
                    return "INoop"
                if a.func.id == "BoolOpCompiler" and len(a.args) == 1 and not a.keywords:
                    ext, name, nv = op_factory(a.args[0], util)
                    return f"(IBoolHugr {q(ext)} {q(name)} {nv})"
                if a.func.id == "UnwrapOpCompiler" and len(a.args) == 1 and not a.keywords:
                    ext, name, nv = op_factory(a.args[0], util)
                    return f"(IUnwrap {q(ext)} {q(name)} {nv})"
            fail(d, "custom_function compiler")
        if not d.args and "checker" in kws:
            extra = {k: ast.unparse(v) for k, v in kws.items() if k != "checker"}
            if extra not in ({}, {"higher_order_value": "False"}):
                fail(d, "custom_function keywords")
            c = kws["checker"]
            if isinstance(c, ast.Call) and isinstance(c.func, ast.Name):
                if c.func.id == "ReversingChecker" and not c.args and not c.keywords:
                    return "IReversed"
                if c.func.id == "DunderChecker" and c.args and isinstance(c.args[0], ast.Constant):
                    n = 1
                    if len(c.args) == 2 and isinstance(c.args[1], ast.Constant):
                        n = c.args[1].value
                    elif len(c.args) > 2:
                        fail(c, "DunderChecker arguments")
                    for k in c.keywords:
                        if k.arg == "num_args" and isinstance(k.value, ast.Constant):
                            n = k.value.value
                        else:
                            fail(c, "DunderChecker keyword")
                    return f"(IDunder {q(c.args[0].value)} {n})"
            fail(d, "custom_function checker")
    fail(d, "decorator")


def read_methods(path: Path, util: dict, want: list[str]):
    mod = parse_file(path)
    rows, funcs = [], []
    seen = set()
    for n in mod.body:
        if isinstance(n, ast.ClassDef):
            decs = [ast.unparse(d) for d in n.decorator_list]
            if len(decs) != 1 or not decs[0].startswith("extend_type("):
                fail(n, "class decorator")
            td = decs[0][len("extend_type("):-1]
            if td not in TYPEDEFS or ANN.get(n.name) != TYPEDEFS[td]:
                fail(n, "extend_type target")
            ty = TYPEDEFS[td]
            seen.add(n.name)
            names = set()
            for s in strip_doc(n.body):
                if not isinstance(s, ast.FunctionDef):
                    fail(s, f"unexpected statement in class {n.name}")
                if s.name in names:
                    fail(s, "duplicate method")
                names.add(s.name)
                if s.args.vararg or s.args.kwarg or s.args.kwonlyargs or s.args.defaults:
                    fail(s, "method signature")
                params = [ann_ty(a.annotation) for a in s.args.args]
                if any(p is not None and p[0] != "S" for p in params):
                    fail(s, "tuple-typed parameter")
                ret = ann_ty(s.returns)
                if any(p is None for p in params) != (ret is None):
                    fail(s, "partially annotated method")
                ptxt = "[" + "; ".join(p[1] for p in params if p is not None) + "]"
                rows.append(f"  mkMeth {ty} {q(s.name)} {ptxt} {coq_rty(ret)} {method_impl(s, util)}")
        elif isinstance(n, ast.FunctionDef):
            decs = n.decorator_list
            if len(decs) == 1 and isinstance(decs[0], ast.Call) and ast.unparse(decs[0].func) == "custom_function":
                kws = {k.arg: k.value for k in decs[0].keywords}
                c = kws.get("checker")
                if isinstance(c, ast.Call) and ast.unparse(c.func) == "DunderChecker":
                    impl = method_impl(n, util)       # (IDunder name n)
                    funcs.append(f"  ({q(n.name)}, {impl})")
                    continue
            if len(decs) == 1 and ast.unparse(decs[0]).startswith("hugr_op(external_op("):
                continue   # bytecast_* helpers: not operators of the property
            fail(n, "module-level function")
    for w in want:
        if w not in seen:
            raise TranslatorError(f"class {w} not found in {path.name}")
    return rows, funcs


# ---------------------------------------------------------------------------------------
# expr_checker.py / checker.py : tables and dispatch rules


def read_tables(path: Path):
    mod = parse_file(path)
    ut = find_assign(mod, "unary_table")
    bt = find_assign(mod, "binary_table")
    if not isinstance(ut, ast.Dict) or not isinstance(bt, ast.Dict):
        fail(ut, "operator tables are not dict literals")
    un, bi = [], []
    for k, v in zip(ut.keys, ut.values):
        ks = ast.unparse(k)
        if not ks.startswith("ast.") or ks[4:] not in UNOPS or not isinstance(v, ast.Tuple) or len(v.elts) != 2:
            fail(k, "unary_table entry")
        un.append(f"  ({ks[4:]}, {q(v.elts[0].value)})")
    for k, v in zip(bt.keys, bt.values):
        ks = ast.unparse(k)
        if not ks.startswith("ast.") or ks[4:] not in BINOPS or not isinstance(v, ast.Tuple) or len(v.elts) != 3:
            fail(k, "binary_table entry")
        bi.append(f"  ({ks[4:]}, {q(v.elts[0].value)}, {q(v.elts[1].value)})")
    if len(set(un)) != len(un) or len({b.split(',')[0] for b in bi}) != len(bi):
        raise TranslatorError("duplicate key in operator tables")
    synth = find_class(mod, "ExprSynthesizer")
    sb = find_func(synth, "_synthesize_binary")
    # lop, rop, display_name = binary_table[op.__class__]
    srcs = [ast.unparse(s) for s in strip_doc(sb.body)]
    if "lop, rop, display_name = binary_table[op.__class__]" not in srcs:
        fail(sb, "_synthesize_binary no longer unpacks (lop, rop, _) from binary_table")
    if "left_expr, left_ty = self.synthesize(left_expr)" not in srcs or "right_expr, right_ty = self.synthesize(right_expr)" not in srcs:
        fail(sb, "_synthesize_binary operand synthesis")
    tries = []
    for s in strip_doc(sb.body):
        if isinstance(s, ast.If) and isinstance(s.test, ast.NamedExpr):
            call = s.test.value
            if ast.unparse(call.func) != "self.ctx.globals.get_instance_func" or len(call.args) != 2:
                fail(s, "_synthesize_binary lookup")
            recv, meth = (ast.unparse(a) for a in call.args)
            if len(s.body) != 1 or not isinstance(s.body[0], ast.With) or ast.unparse(s.body[0].items[0].context_expr) != "suppress(GuppyError)":
                fail(s, "_synthesize_binary try block")
            r = s.body[0].body
            if len(r) != 1 or not isinstance(r[0], ast.Return) or not isinstance(r[0].value, ast.Call) \
                    or ast.unparse(r[0].value.func) != "func.synthesize_call" or not isinstance(r[0].value.args[0], ast.List):
                fail(s, "_synthesize_binary call")
            order = [ast.unparse(x) for x in r[0].value.args[0].elts]
            side = {"left_ty": "SLeft", "right_ty": "SRight"}
            which = {"lop": "UseLop", "rop": "UseRop"}
            ex = {"left_expr": "SLeft", "right_expr": "SRight"}
            if recv not in side or meth not in which or any(o not in ex for o in order) or len(order) != 2:
                fail(s, "_synthesize_binary dispatch shape")
            tries.append(f"  ({side[recv]}, {which[meth]}, [{'; '.join(ex[o] for o in order)}])")
    if len(tries) != 2:
        fail(sb, "_synthesize_binary must have exactly two dispatch attempts")
    # visit_UnaryOp: `not` -> to_bool; others: unary_table + get_instance_func(op_ty, op) + synthesize_call([node.operand])
    vu = ast.unparse(find_func(synth, "visit_UnaryOp"))
    for need in ("if isinstance(node.op, ast.Not):", "to_bool(node.operand, op_ty, self.ctx)",
                 "op, display_name = unary_table[node.op.__class__]", "self.ctx.globals.get_instance_func(op_ty, op)",
                 "func.synthesize_call([node.operand], node, self.ctx)"):
        if need not in vu:
            fail(find_func(synth, "visit_UnaryOp"), f"visit_UnaryOp lost `{need}`")
    tb = ast.unparse(find_func(mod, "to_bool"))
    for need in ("if is_bool_type(node_ty):\n        return (node, node_ty)", "synth.synthesize_instance_func(node, [], '__bool__', 'truthy', exp_sig, True)"):
        if need not in tb:
            fail(find_func(mod, "to_bool"), f"to_bool lost `{need}`")
    tc = find_func(mod, "try_coerce_to")
    tcs = ast.unparse(tc)
    for need in ("if not isinstance(act, NumericType) or not isinstance(exp, NumericType):\n        return None",
                 "if act.kind < exp.kind:", "f = ctx.globals.get_instance_func(act, f'__{exp.kind.name.lower()}__')",
                 "node, subst = f.check_call([node], exp, node, ctx)"):
        if need not in tcs:
            fail(tc, f"try_coerce_to lost `{need}`")
    # integer literals synthesise as int unless hinted nat
    pv = ast.unparse(find_func(mod, "python_value_to_guppy_type"))
    for need in ("case int(n) if type_hint == nat_type() and n >= 0:", "case int(n):\n            _int_bounds_check(n, node, signed=True)\n            return int_type()",
                 "case float():\n            return float_type()"):
        if need not in pv:
            fail(find_func(mod, "python_value_to_guppy_type"), f"literal typing lost `{need}`")
    sif = ast.unparse(find_func(synth, "synthesize_instance_func"))
    if "return func.synthesize_call([node, *args], node, self.ctx)" not in sif:
        fail(find_func(synth, "synthesize_instance_func"), "synthesize_instance_func call order")
    return un, bi, tries


def read_checkers(path: Path):
    mod = parse_file(path)
    rc = find_class(mod, "ReversingChecker")
    pn = [ast.unparse(s) for s in strip_doc(find_func(rc, "parse_name").body) if not isinstance(s, ast.Assert)]
    if pn != ["name = self.func.name[2:-2]", "return f'__{name[1:]}__'"]:
        fail(find_func(rc, "parse_name"), "ReversingChecker.parse_name")
    asserts = [ast.unparse(s) for s in find_func(rc, "parse_name").body if isinstance(s, ast.Assert)]
    if "assert name.startswith('r')" not in asserts:
        fail(find_func(rc, "parse_name"), "ReversingChecker.parse_name no longer strips a leading r")
    sy = [ast.unparse(s) for s in strip_doc(find_func(rc, "synthesize").body)]
    # an arity guard in front (a located error for explicit calls with != 2 arguments) does not
    # change what a two-argument call, the only kind a binary operator produces, does
    if sy and sy[0] == "check_num_args(2, len(args), self.node)":
        sy = sy[1:]
    if len(sy) != 5 or sy[0] != "[self_arg, other_arg] = args" or sy[1] != "self_arg, self_ty = ExprSynthesizer(self.ctx).synthesize(self_arg)" \
            or sy[2] != "f = self.ctx.globals.get_instance_func(self_ty, self.parse_name())" or sy[3] != "assert f is not None":
        fail(find_func(rc, "synthesize"), "ReversingChecker.synthesize")
    ret = strip_doc(find_func(rc, "synthesize").body)[-1]
    if not (isinstance(ret, ast.Return) and isinstance(ret.value, ast.Call) and ast.unparse(ret.value.func) == "f.synthesize_call"
            and isinstance(ret.value.args[0], ast.List)):
        fail(ret, "ReversingChecker.synthesize return")
    m = {"self_arg": "0", "other_arg": "1"}
    order = [ast.unparse(x) for x in ret.value.args[0].elts]
    if len(order) != 2 or any(o not in m for o in order):
        fail(ret, "ReversingChecker argument order")
    dc = find_class(mod, "DunderChecker")
    ds = [ast.unparse(s) for s in strip_doc(find_func(dc, "synthesize").body)]
    if ds[:2] != ["check_num_args(self.num_args, len(args), self.node)", "fst, *rest = args"] or \
            not ds[2].replace("\n", "").replace(" ", "").startswith("returnExprSynthesizer(self.ctx).synthesize_instance_func(fst,rest,self.dunder_name,"):
        fail(find_func(dc, "synthesize"), "DunderChecker.synthesize")
    return "r", [int(m[o]) for o in order]


def translate(ctx) -> str:
    util = read_util(ctx.int_src("std/_internal/util.py"))
    kinds, width = read_ty(ctx.int_src("tys/ty.py"))
    rows_n, funcs = read_methods(ctx.pub_src("std/num.py"), util, ["nat", "int", "float"])
    rows_b, funcs_b = read_methods(ctx.pub_src("std/bool.py"), util, ["bool"])
    un, bi, tries = read_tables(ctx.int_src("checker/expr_checker.py"))
    prefix, rorder = read_checkers(ctx.int_src("std/_internal/checker.py"))
    rows = rows_n + rows_b
    out = [
        "(* GENERATED on every run from std/num.py, std/bool.py, std/_internal/util.py, tys/ty.py,",
        "   checker/expr_checker.py, std/_internal/checker.py by props/C04/tr_num.py — do not edit *)",
        "From Coq Require Import ZArith String List.",
        "From V.C04 Require Import NumBase.",
        "Import ListNotations. Open Scope string_scope. Open Scope Z_scope.",
        "",
        f"Definition gen_int_log_width : Z := {width}.   (* NumericType.INT_WIDTH *)",
        f"Definition gen_kind_order : list gty := [{'; '.join(kinds)}].   (* NumericType.Kind, auto() order; coercion iff strictly earlier *)",
        f"Definition gen_reversing_prefix : string := {q(prefix)}.   (* ReversingChecker.parse_name strips it after the leading __ *)",
        f"Definition gen_reversing_order : list nat := [{'; '.join(str(i) for i in rorder)}]%nat.   (* synthesize_call([other_arg, self_arg]): indices into [self_arg; other_arg] *)",
        "Definition gen_bool_dunder : string := \"__bool__\".   (* to_bool *)",
        "Definition gen_binary_dispatch : list (side * whichop * list side) := [",
        ";\n".join(tries), "].",
        "Definition gen_unary_table : list (pyun * string) := [", ";\n".join(un), "].",
        "Definition gen_binary_table : list (pybin * string * string) := [", ";\n".join(bi), "].",
        "Definition gen_builtin_table : list (string * impl) := [", ";\n".join(funcs + funcs_b), "].",
        "Definition gen_methods : list meth := [", ";\n".join(rows), "].",
        "",
    ]
    return "\n".join(out)


if __name__ == "__main__":
    import sys
    sys.path.insert(0, "/verif/tools")
    import vlib
    c = vlib.Ctx("C04", "quick", 0)
    print(translate(c))
