"""C25 translator (T part): regenerates coq/C25/GenOrder.v from /repo's
compiler/modifier_compiler.py and nodes.py.  Fail-closed: any shape it does not know raises
TranslatorError.

What is read:
  * nodes.ModifiedBlock.push_modifier   -> gen_push : kind -> kind  (which list a node kind joins)
  * nodes.CheckedModifiedBlock.has_dagger -> gen_has_dagger : nat -> bool
    (has_power / has_control must be the plain "list not empty" tests)
  * compile_modified_block: the order of the three `if modified_block.has_X():` groups and
    which op definition each group emits            -> gen_emit_order : list kind
  * the CallIndirect argument list (`*ctrl_args` or `*reversed(ctrl_args)`)  -> gen_call_ctrl_rev
  * the unpack loop after the call (`enumerate(..)` or `reversed(list(enumerate(..)))`)
                                                                         -> gen_unpack_ctrl_rev
  * `non_copyable_front_others_back` (checker/modifier_checker.py): `linear + non_linear`
                                                                         -> gen_linear_first
"""
import ast

from vlib import TranslatorError

KIND = {"dagger": "KDagger", "control": "KControl", "power": "KPower"}
CLS = {"Dagger": "KDagger", "Control": "KControl", "Power": "KPower"}
OPNAME = {"DaggerModifier": "KDagger", "ControlModifier": "KControl", "PowerModifier": "KPower"}


def fail(msg, node=None):
    raise TranslatorError(f"C25 translator: {msg}" + (f" (line {node.lineno})" if node is not None and hasattr(node, "lineno") else ""))


def find_class(tree, name):
    for n in tree.body:
        if isinstance(n, ast.ClassDef) and n.name == name:
            return n
    fail(f"class {name} not found")


def find_func(body, name):
    for n in body:
        if isinstance(n, ast.FunctionDef) and n.name == name:
            return n
    fail(f"function {name} not found")


def strip_doc(body):
    if body and isinstance(body[0], ast.Expr) and isinstance(body[0].value, ast.Constant) and isinstance(body[0].value.value, str):
        return body[1:]
    return body


def is_self_attr(e, names=None):
    return isinstance(e, ast.Attribute) and isinstance(e.value, ast.Name) and e.value.id == "self" and (names is None or e.attr in names)


def tr_push(cls):
    f = find_func(cls.body, "push_modifier")
    body = strip_doc(f.body)
    if len(body) != 1 or not isinstance(body[0], ast.If):
        fail("push_modifier: expected a single if/elif chain", f)
    mapping = {}
    node = body[0]
    while True:
        t = node.test
        if not (isinstance(t, ast.Call) and isinstance(t.func, ast.Name) and t.func.id == "isinstance" and len(t.args) == 2
                and isinstance(t.args[0], ast.Name) and t.args[0].id == "modifier" and isinstance(t.args[1], ast.Name)
                and t.args[1].id in CLS):
            fail("push_modifier: unknown test", t)
        if len(node.body) != 1 or not isinstance(node.body[0], ast.Expr):
            fail("push_modifier: unknown branch", node)
        c = node.body[0].value
        if not (isinstance(c, ast.Call) and isinstance(c.func, ast.Attribute) and c.func.attr == "append"
                and is_self_attr(c.func.value, KIND) and len(c.args) == 1 and isinstance(c.args[0], ast.Name)
                and c.args[0].id == "modifier"):
            fail("push_modifier: branch is not self.<list>.append(modifier)", c)
        if t.args[1].id in mapping:
            fail("push_modifier: duplicate class", t)
        mapping[CLS[t.args[1].id]] = KIND[c.func.value.attr]
        if len(node.orelse) == 1 and isinstance(node.orelse[0], ast.If):
            node = node.orelse[0]
            continue
        if len(node.orelse) == 1 and isinstance(node.orelse[0], ast.Raise):
            break
        if not node.orelse:
            break
        fail("push_modifier: unknown else branch", node)
    if set(mapping) != set(CLS.values()):
        fail(f"push_modifier: classes handled {sorted(mapping)}")
    return mapping


def len_self(e, field):
    return (isinstance(e, ast.Call) and isinstance(e.func, ast.Name) and e.func.id == "len" and len(e.args) == 1
            and is_self_attr(e.args[0], [field]))


def ret_expr(f):
    body = strip_doc(f.body)
    if len(body) != 1 or not isinstance(body[0], ast.Return) or body[0].value is None:
        fail(f"{f.name}: expected a single return", f)
    return body[0].value


def tr_has_dagger(cls):
    e = ret_expr(find_func(cls.body, "has_dagger"))
    if isinstance(e, ast.Compare) and len(e.ops) == 1:
        l, op, r = e.left, e.ops[0], e.comparators[0]
        if isinstance(r, ast.Constant) and isinstance(r.value, int) and not isinstance(r.value, bool) and r.value >= 0:
            cmpf = {ast.Eq: "Nat.eqb ({}) {}", ast.NotEq: "negb (Nat.eqb ({}) {})", ast.Gt: "Nat.ltb {1} ({0})",
                    ast.GtE: "Nat.leb {1} ({0})", ast.Lt: "Nat.ltb ({}) {}", ast.LtE: "Nat.leb ({}) {}"}.get(type(op))
            if cmpf is None:
                fail("has_dagger: unknown comparison", e)
            if len_self(l, "dagger"):
                return cmpf.format("n", r.value)
            if (isinstance(l, ast.BinOp) and isinstance(l.op, ast.Mod) and len_self(l.left, "dagger")
                    and isinstance(l.right, ast.Constant) and isinstance(l.right.value, int) and l.right.value > 0):
                return cmpf.format(f"Nat.modulo n {l.right.value}", r.value)
    fail("has_dagger: unknown shape " + ast.unparse(e), e)


def check_nonempty(cls, fname, field):
    e = ret_expr(find_func(cls.body, fname))
    ok = False
    if isinstance(e, ast.Compare) and len(e.ops) == 1 and isinstance(e.ops[0], ast.Gt) and len_self(e.left, field) \
            and isinstance(e.comparators[0], ast.Constant) and e.comparators[0].value == 0:
        ok = True
    if fname == "has_control" and ast.unparse(e) == "any((len(c.ctrl) > 0 for c in self.control))":
        ok = True  # every control has >= 1 argument (enforced by the CFG builder), so: list not empty
    if not ok:
        fail(f"{fname}: expected the plain non-empty test, got {ast.unparse(e)}", e)


def tr_compile(tree):
    f = find_func(tree.body, "compile_modified_block")
    consts, defs = {}, {}
    for st in f.body:
        if isinstance(st, ast.Assign) and len(st.targets) == 1 and isinstance(st.targets[0], ast.Name):
            nm = st.targets[0].id
            if isinstance(st.value, ast.Constant) and isinstance(st.value.value, str) and nm.endswith("_OP_NAME"):
                consts[nm] = st.value.value
            v = st.value
            if (isinstance(v, ast.Call) and isinstance(v.func, ast.Attribute) and v.func.attr == "get_op"
                    and isinstance(v.func.value, ast.Name) and v.func.value.id == "MODIFIER_EXTENSION" and len(v.args) == 1):
                a = v.args[0]
                s = consts.get(a.id) if isinstance(a, ast.Name) else (a.value if isinstance(a, ast.Constant) else None)
                if s not in OPNAME:
                    fail("unknown modifier op name", st)
                defs[nm] = OPNAME[s]
    if sorted(defs.values()) != sorted(OPNAME.values()):
        fail(f"op definitions found: {defs}")
    order = []
    call_rev = unpack_rev = ctrl_list = cap_list = None
    seen_call = False
    for st in f.body:
        if isinstance(st, ast.If) and isinstance(st.test, ast.Call) and isinstance(st.test.func, ast.Attribute) \
                and isinstance(st.test.func.value, ast.Name) and st.test.func.value.id == "modified_block" \
                and st.test.func.attr.startswith("has_"):
            if seen_call or st.orelse:
                fail("modifier group after the call / with else", st)
            k = KIND.get(st.test.func.attr[4:])
            if k is None:
                fail("unknown has_ test", st)
            used = {defs[n.id] for n in ast.walk(st) if isinstance(n, ast.Name) and n.id in defs}
            if used != {k}:
                fail(f"group {k} emits ops {sorted(used)}", st)
            # the group must iterate its own list in order (or be the single dagger)
            loops = [n for n in ast.walk(st) if isinstance(n, ast.For)]
            if k == "KDagger":
                if loops:
                    fail("dagger group contains a loop", st)
            else:
                want = f"modified_block.{st.test.func.attr[4:]}"
                if len(loops) != 1 or ast.unparse(loops[0].iter) != want:
                    fail(f"group {k}: expected one loop over {want}", st)
            order.append(k)
            continue
        # any other statement mentioning an op def outside the three groups is unknown
        if any(isinstance(n, ast.Name) and n.id in defs and isinstance(n.ctx, ast.Load) for n in ast.walk(st)):
            fail("modifier op emitted outside the has_* groups", st)
        calls = [n for n in ast.walk(st) if isinstance(n, ast.Call) and any(
            isinstance(a, ast.Call) and ast.unparse(a.func) == "ops.CallIndirect" for a in n.args)]
        if calls:
            if seen_call or len(calls) != 1:
                fail("more than one CallIndirect", st)
            seen_call = True
            args = calls[0].args
            if len(args) != 4 or not isinstance(args[1], ast.Name) or not isinstance(args[2], ast.Starred) \
                    or not isinstance(args[3], ast.Starred) or not isinstance(args[3].value, ast.Name):
                fail("CallIndirect arguments: expected (CallIndirect(), <fn>, *<ctrl>, *<captured>)", st)
            c = args[2].value
            if isinstance(c, ast.Name):
                call_rev, ctrl_list = False, c.id
            elif isinstance(c, ast.Call) and ast.unparse(c.func) == "reversed" and len(c.args) == 1 and isinstance(c.args[0], ast.Name):
                call_rev, ctrl_list = True, c.args[0].id
            else:
                fail("CallIndirect control arguments: " + ast.unparse(c), st)
            cap_list = args[3].value.id
            continue
        if seen_call and isinstance(st, ast.For):
            it = ast.unparse(st.iter)
            if it == "enumerate(modified_block.control)":
                r = False
            elif it == "reversed(list(enumerate(modified_block.control)))":
                r = True
            elif it == "captured":
                continue
            else:
                fail("loop after the call over " + it, st)
            if unpack_rev is not None:
                fail("two unpack loops", st)
            body_src = ast.unparse(st)
            if "next(outports)" not in body_src:
                fail("unpack loop does not take the next output port", st)
            unpack_rev = r
    if sorted(order) != sorted(KIND.values()):
        fail(f"groups found: {order}")
    if call_rev is None or unpack_rev is None:
        fail("CallIndirect / unpack loop not found")
    # ctrl_args must be built in the order of modified_block.control
    built = [st for st in f.body if isinstance(st, ast.For) and f"{ctrl_list}.append(" in ast.unparse(st)]
    if len(built) != 1 or ast.unparse(built[0].iter) != "enumerate(modified_block.control)":
        fail("control arguments are not built by one loop over enumerate(modified_block.control)")
    inits = [ast.unparse(st.value) for st in f.body if isinstance(st, (ast.Assign, ast.AnnAssign)) and st.value is not None
             and ast.unparse(st.targets[0] if isinstance(st, ast.Assign) else st.target) == ctrl_list]
    if inits != ["[]"]:
        fail(f"control argument list {ctrl_list} is not initialised once to []")
    caps = [ast.unparse(st.value) for st in f.body if isinstance(st, ast.Assign) and ast.unparse(st.targets[0]) == cap_list]
    if caps != ["[dfg[v] for v in captured]"]:
        fail(f"captured arguments {cap_list}: expected [dfg[v] for v in captured], got {caps}")
    capd = [ast.unparse(st.value) for st in f.body if isinstance(st, ast.Assign) and ast.unparse(st.targets[0]) == "captured"]
    if capd != ["[v for v, _ in modified_block.captured.values()]", "non_copyable_front_others_back(captured)"]:
        fail(f"captured: unexpected definition {capd}")
    return order, call_rev, unpack_rev


def tr_sort(tree):
    f = find_func(tree.body, "non_copyable_front_others_back")
    body = strip_doc(f.body)
    src = [ast.unparse(s) for s in body]
    want_lin = "linear_vars = [x for x in v if not x.ty.copyable]"
    want_non = "non_linear_vars = [x for x in v if x.ty.copyable]"
    if len(src) != 3 or sorted(src[:2]) != sorted([want_lin, want_non]):
        fail("non_copyable_front_others_back: unknown body", f)
    if src[2] == "return linear_vars + non_linear_vars":
        return True
    if src[2] == "return non_linear_vars + linear_vars":
        return False
    fail("non_copyable_front_others_back: unknown return", f)


def coq_bool(b):
    return "true" if b else "false"


def translate(compiler_py, nodes_py, checker_py):
    ctree = ast.parse(compiler_py.read_text())
    ntree = ast.parse(nodes_py.read_text())
    ktree = ast.parse(checker_py.read_text())
    push = tr_push(find_class(ntree, "ModifiedBlock"))
    checked = find_class(ntree, "CheckedModifiedBlock")
    hd = tr_has_dagger(checked)
    check_nonempty(checked, "has_power", "power")
    check_nonempty(checked, "has_control", "control")
    order, call_rev, unpack_rev = tr_compile(ctree)
    lin_first = tr_sort(ktree)
    out = ["(* GENERATED by props/C25/tr_mod.py from compiler/modifier_compiler.py, nodes.py and",
           "   checker/modifier_checker.py of the tree under test -- do not edit. *)",
           "From Coq Require Import List Bool Arith.",
           "From V.C25 Require Import Base.",
           "Import ListNotations.",
           "",
           "(* ModifiedBlock.push_modifier: the list a modifier node of a given class is appended to *)",
           "Definition gen_push (k : kind) : kind :=",
           "  match k with " + " | ".join(f"{a} => {b}" for a, b in sorted(push.items())) + " end.",
           "",
           "(* CheckedModifiedBlock.has_dagger as a function of len(self.dagger) *)",
           f"Definition gen_has_dagger (n : nat) : bool := {hd}.",
           "",
           "(* order of the `if modified_block.has_X():` groups in compile_modified_block *)",
           "Definition gen_emit_order : list kind := [" + "; ".join(order) + "].",
           "",
           "(* CallIndirect(call, *ctrl_args | *reversed(ctrl_args), *args) *)",
           f"Definition gen_call_ctrl_rev : bool := {coq_bool(call_rev)}.",
           "(* the loop assigning the returned control arrays back *)",
           f"Definition gen_unpack_ctrl_rev : bool := {coq_bool(unpack_rev)}.",
           "(* non_copyable_front_others_back *)",
           f"Definition gen_linear_first : bool := {coq_bool(lin_first)}.",
           ""]
    return "\n".join(out)
