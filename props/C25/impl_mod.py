"""C25 implementation side: compile `with <modifiers>:` programs with /repo's compiler (under
repo_shim) and read back, from the HUGR object only,

  * the function created for the block body (signature, the calls it contains),
  * the chain  LoadFunc -> modifier ExtOps -> CallIndirect  (op names, type arguments,
    where each power exponent comes from),
  * where every input port of the CallIndirect comes from (which parameters / locals of the
    enclosing function, through which packing ops) and where every output port goes
    (which output slot of the enclosing function, through which unpacking ops),
  * the verdict of selene_hugr_qis_compiler.check_hugr.

It also records what `compile_modified_block` was *given* (the CheckedModifiedBlock: number
of daggers, controls, powers, captured variables in the checker's order), by wrapping the
function — that is the model's input for the compile stage.

stdin: JSON {"cases": [case...]}; stdout: JSON list of observations (same order).
A case: {"id", "params": [[name, kind, size?]...], "locals": [[name, kind, literal]...],
         "stack": [[kind, ...]...], "body": [[fn, [args...]]...], "nest": bool}
"""
import importlib.util
import json
import os
import sys
import traceback

import repo_shim  # noqa: F401
import guppylang

guppylang.enable_experimental_features()

from hugr import ops, tys as ht  # noqa: E402
import guppylang_internals.compiler.modifier_compiler as mc  # noqa: E402
from guppylang_internals.nodes import PlaceNode  # noqa: E402
from guppylang_internals.tys.ty import InputFlags  # noqa: E402

RECORDED = []
TAG = "c"
_orig = mc.compile_modified_block


def _expr_name(e):
    import ast
    if isinstance(e, PlaceNode):
        return str(getattr(e.place, "name", e.place))
    if isinstance(e, ast.Constant):
        return e.value
    if isinstance(e, ast.Name):
        return e.id
    return "?" + type(e).__name__


def _wrapped(modified_block, dfg, ctx, expr_compiler):
    rec = {
        "ndagger": len(modified_block.dagger),
        "control": [{"ctrl": [_expr_name(c) for c in k.ctrl],
                     "qubit_num": k.qubit_num if isinstance(k.qubit_num, int) else str(k.qubit_num)}
                    for k in modified_block.control],
        "power": [_expr_name(p.iter) for p in modified_block.power],
        "captured": [[v.name, bool(v.ty.copyable), InputFlags.Inout in v.flags]
                     for v, _ in modified_block.captured.values()],
    }
    RECORDED.append(rec)
    return _orig(modified_block, dfg, ctx, expr_compiler)


mc.compile_modified_block = _wrapped

TY = {"q": "qubit", "nat": "nat", "int": "int", "float": "float", "bool": "bool"}


def ty_src(kind, size=None):
    return f"array[qubit, {size}]" if kind == "arr" else TY[kind]


HEADER = '''from guppylang.decorator import guppy
from guppylang.std.quantum import qubit
from guppylang.std.num import nat
from guppylang.std.array import array
dagger = object(); control = object(); power = object()

@guppy.declare(dagger=True, control=True, power=True)
def u1(q: qubit) -> None: ...
@guppy.declare(dagger=True, control=True, power=True)
def u2(q: qubit, r: qubit) -> None: ...
@guppy.declare(dagger=True, control=True, power=True)
def uf(q: qubit, x: float) -> None: ...
@guppy.declare(dagger=True, control=True, power=True)
def un(q: qubit, n: nat) -> None: ...
@guppy.declare(dagger=True, control=True, power=True)
def ui(q: qubit, n: int) -> None: ...
@guppy.declare(dagger=True, control=True, power=True)
def unf(n: nat, q: qubit, x: float) -> None: ...
'''


def mod_src(m):
    k = m[0]
    if k == "dagger":
        return "dagger"
    if k == "dagger()":
        return "dagger()"
    if k == "control":
        return "control(" + ", ".join(m[1]) + ")"
    if k == "control_arr":
        return f"control({m[1]})"
    if k == "power":
        return f"power({m[1]})"
    if k == "raw":
        return m[1]
    raise ValueError(k)


def program(case):
    lines = [HEADER]
    sizes = sorted({p[2] for p in case["params"] if p[1] == "arr"})
    for s in sizes:
        lines.append(f"@guppy.declare(dagger=True, control=True, power=True)\ndef ua{s}(a: array[qubit, {s}]) -> None: ...")
    sig = ", ".join(f"{p[0]}: {ty_src(p[1], p[2] if len(p) > 2 else None)}" for p in case["params"])
    lines.append(f"\n@guppy\ndef bar({sig}) -> None:")
    for l in case.get("locals", []):
        lines.append(f"    {l[0]} = {l[2]}")
    stack = case["stack"]
    body = [f"{fn}({', '.join(args)})" for fn, args in case["body"]] or ["pass"]
    if case.get("nest"):
        ind = "    "
        for m in stack:
            lines.append(f"{ind}with {mod_src(m)}:")
            ind += "    "
        lines += [ind + b for b in body]
    else:
        lines.append("    with " + ", ".join(mod_src(m) for m in stack) + ":")
        lines += ["        " + b for b in body]
    return "\n".join(lines) + "\n"


# ---------------------------------------------------------------------------- HUGR reading

def tstr(t):
    if isinstance(t, ht.TypeTypeArg):
        return tstr(t.ty)
    if isinstance(t, ht.BoundedNatArg):
        return str(t.n)
    if isinstance(t, ht.ListArg):
        return [tstr(e) for e in t.elems]
    if t == ht.Qubit:
        return "Q"
    td = getattr(t, "type_def", None)
    if td is not None:
        args = ",".join(str(tstr(a)) for a in t.args)
        return f"{td.name}<{args}>" if args else td.name
    if isinstance(t, ht.Opaque):
        args = ",".join(str(tstr(a)) for a in t.args)
        return f"{t.id}<{args}>" if args else t.id
    if isinstance(t, ht.FunctionType):
        return "fn(" + ",".join(map(str, map(tstr, t.input))) + ")->(" + ",".join(map(str, map(tstr, t.output))) + ")"
    return str(t)


class Reader:
    def __init__(self, h):
        self.h = h

    def op(self, n):
        return self.h[n].op

    def src(self, n, p):
        l = list(self.h.linked_ports(n.inp(p)))
        if len(l) != 1:
            raise RuntimeError(f"port {n}.{p} has {len(l)} sources")
        return l[0].node, l[0].offset

    def dsts(self, n, p):
        return [(x.node, x.offset) for x in self.h.linked_ports(n.out(p))]

    def opname(self, n):
        o = self.op(n)
        if isinstance(o, ops.ExtOp):
            return o.op_def().qualified_name() if hasattr(o, "op_def") else o.name()
        return type(o).__name__

    def children(self, n):
        return list(self.h.children(n))

    def single_block(self, fn):
        """FuncDefn -> (func Input node, CFG node, DataflowBlock, block Input, block Output);
        requires a CFG with one dataflow block whose inputs are the CFG's inputs in order."""
        ch = self.children(fn)
        inp = [c for c in ch if isinstance(self.op(c), ops.Input)][0]
        out = [c for c in ch if isinstance(self.op(c), ops.Output)][0]
        cfgs = [c for c in ch if isinstance(self.op(c), ops.CFG)]
        if len(cfgs) != 1:
            raise RuntimeError("expected one CFG")
        cfg = cfgs[0]
        blocks = [c for c in self.children(cfg) if isinstance(self.op(c), ops.DataflowBlock)]
        if len(blocks) != 1:
            raise RuntimeError(f"expected one block, got {len(blocks)}")
        b = blocks[0]
        bch = self.children(b)
        binp = [c for c in bch if isinstance(self.op(c), ops.Input)][0]
        bout = [c for c in bch if isinstance(self.op(c), ops.Output)][0]
        # map block input port -> function input port
        nin = self.h.num_in_ports(cfg)
        inmap = {}
        for p in range(nin):
            try:
                s, o = self.src(cfg, p)
            except RuntimeError:
                continue
            if s == inp:
                inmap[p] = o
        # map block output port (>=1) -> function output port
        outmap = {}
        for p in range(self.h.num_in_ports(out)):
            try:
                s, o = self.src(out, p)
            except RuntimeError:
                continue
            if s == cfg:
                outmap[o + 1] = p
        return inp, out, cfg, b, binp, bout, inmap, outmap


def ext_short(name):
    return name.split(".")[-1]


def trace_value(R, n, p, binp, inmap):
    """Where does the value on out-port p of node n come from?  Returns a JSON description."""
    o = R.op(n)
    if n == binp:
        return ["param", inmap.get(p, -1)]
    if isinstance(o, ops.LoadConst):
        s, _ = R.src(n, 0)
        v = R.op(s).val
        return ["const", getattr(v, "v", repr(v))]
    if isinstance(o, ops.ExtOp):
        nm = ext_short(R.opname(n))
        ins = [trace_value(R, *R.src(n, q), binp, inmap) for q in range(R.h.num_in_ports(n)) if list(R.h.linked_ports(n.inp(q)))]
        return [nm, ins]
    return ["node", type(o).__name__]


def trace_sink(R, n, p, bout, outmap):
    """Where does out-port p of n go (linear values: exactly one destination)?"""
    d = R.dsts(n, p)
    if len(d) != 1:
        return ["fanout", len(d)]
    m, q = d[0]
    if m == bout:
        return ["out", outmap.get(q, -1)]
    o = R.op(m)
    if isinstance(o, ops.ExtOp):
        nm = ext_short(R.opname(m))
        nout = R.h.num_out_ports(m)
        return [nm, [trace_sink(R, m, k, bout, outmap) for k in range(nout) if R.dsts(m, k)]]
    return ["node", type(o).__name__]


def read_block_fn(R, fn):
    """The function compiled for the block body: signature and its calls."""
    o = R.op(fn)
    inp, out, cfg, b, binp, bout, inmap, outmap = R.single_block(fn)
    sig_in = [tstr(t) for t in o.inputs]
    calls = []
    roots = {}

    def root(n, p):
        # follow a value back to a function input index through previous calls
        if n == binp:
            return inmap.get(p, -1)
        oo = R.op(n)
        if isinstance(oo, ops.Call):
            # output k of a call returning None = k-th linear (non-copyable) input
            lin = [i for i, t in enumerate(oo.signature.body.input) if tstr(t) == "Q" or str(tstr(t)).startswith(("borrow_array", "array"))]
            return root(*R.src(n, lin[p]))
        if isinstance(oo, ops.LoadConst):
            return "const"
        if isinstance(oo, ops.CallIndirect):
            return "with"
        if isinstance(oo, ops.ExtOp):
            return root(*R.src(n, 0)) if R.h.num_in_ports(n) else "?"
        return "?" + type(oo).__name__

    for c in R.children(b):
        oo = R.op(c)
        if isinstance(oo, ops.Call):
            nargs = len(oo.signature.body.input)
            callee, _ = R.src(c, nargs)
            calls.append([R.op(callee).f_name, [root(*R.src(c, q)) for q in range(nargs)]])
        elif isinstance(oo, ops.CallIndirect):
            calls.append(["<with>", []])
    # outputs: which function input each output slot returns
    outs = []
    for p in range(1, R.h.num_in_ports(bout)):
        try:
            outs.append(root(*R.src(bout, p)))
        except RuntimeError:
            outs.append("?")
    res = {"name": o.f_name.split("(")[0], "inputs": sig_in, "calls": calls, "returns": outs}
    if any(isinstance(R.op(c), ops.CallIndirect) for c in R.children(b)):
        res["inner"] = read_blocks(R, fn)
    return res


def read_blocks(R, fnnode):
    """All modified blocks (CallIndirect fed by a LoadFunc/modifier chain) directly inside the
    single dataflow block of function `fnnode`."""
    inp, out, cfg, b, binp, bout, inmap, outmap = R.single_block(fnnode)
    blocks = []
    for ci in [c for c in R.children(b) if isinstance(R.op(c), ops.CallIndirect)]:
        chain = []
        n, p = R.src(ci, 0)
        fn = None
        while True:
            o = R.op(n)
            if isinstance(o, ops.LoadFunc):
                fn, _ = R.src(n, R.h.num_in_ports(n) - 1)
                break
            if not isinstance(o, ops.ExtOp):
                raise RuntimeError("unexpected node in modifier chain: " + type(o).__name__)
            nm = ext_short(R.opname(n))
            ent = {"op": nm, "args": [tstr(a) for a in o.args]}
            if nm == "PowerModifier":
                ent["exp"] = trace_value(R, *R.src(n, 1), binp, inmap)
            chain.append(ent)
            n, p = R.src(n, 0)
        chain.reverse()
        args = []
        for q in range(1, R.h.num_in_ports(ci)):
            if not list(R.h.linked_ports(ci.inp(q))):
                continue
            args.append(trace_value(R, *R.src(ci, q), binp, inmap))
        rets = []
        for k in range(R.h.num_out_ports(ci)):
            if not R.dsts(ci, k):
                continue
            rets.append(trace_sink(R, ci, k, bout, outmap))
        blocks.append({"chain": chain, "args": args, "rets": rets, "fn": read_block_fn(R, fn)})
    return blocks


def observe(pkg):
    h = pkg.modules[0]
    R = Reader(h)
    fns = {}
    for c in R.children(h.module_root):
        o = R.op(c)
        if isinstance(o, ops.FuncDefn):
            fns[c] = o.f_name
    bar = [n for n, nm in fns.items() if nm == "bar"][0]
    return {"blocks": read_blocks(R, bar), "bar_inputs": [tstr(t) for t in R.op(bar).inputs],
            "n_withblock_fns": sum(1 for nm in fns.values() if nm.startswith("__WithBlock__"))}


def run_case(case, scratch, idx):
    src = program(case)
    path = os.path.join(scratch, f"prog_{TAG}_{idx}.py")
    with open(path, "w") as f:
        f.write(src)
    res = {"id": case.get("id", idx), "source": src}
    RECORDED.clear()
    try:
        spec = importlib.util.spec_from_file_location(f"c25prog_{TAG}_{idx}", path)
        mod = importlib.util.module_from_spec(spec)
        sys.modules[spec.name] = mod
        spec.loader.exec_module(mod)
        pkg = mod.bar.compile_function()
    except Exception as e:  # noqa: BLE001
        res["error"] = type(e).__name__
        d = getattr(e, "error", None)
        res["diag"] = type(d).__name__ if d is not None else str(e)[:200]
        return res
    res["given"] = list(RECORDED)
    try:
        res["obs"] = observe(pkg)
    except Exception as e:  # noqa: BLE001
        res["read_error"] = f"{type(e).__name__}: {e}\n{traceback.format_exc()[-1500:]}"
    try:
        from selene_hugr_qis_compiler import check_hugr
        check_hugr(pkg.to_bytes())
        res["check_hugr"] = "ok"
    except Exception as e:  # noqa: BLE001
        msg = str(e)
        res["check_hugr"] = msg.split("Stack backtrace")[0].strip()[:400]
    return res


def main():
    global TAG
    payload = json.load(sys.stdin)
    TAG = payload.get("tag", "c")
    scratch = os.getcwd()
    out = [run_case(c, scratch, i) for i, c in enumerate(payload["cases"])]
    json.dump(out, sys.stdout)


if __name__ == "__main__":
    main()
