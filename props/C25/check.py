"""C25 — modifier blocks lower to the matching modifier operations.

Tie: T + X.
 T  tr_mod.py regenerates coq/C25/GenOrder.v (grouping of `with` items into the dagger/control/
    power lists, the dagger-parity test, the order of the three emission groups, the order in
    which control arrays are passed to / taken from the CallIndirect, the ordering of captured
    variables) from the tree under test; the theorems of coq/C25/Props.v are re-checked
    against these constants.
 X  generated `with` programs are compiled by the real compiler (impl_mod.py, under
    repo_shim); the modifier ops, their type arguments, the CallIndirect wiring and the body
    function are read back from the HUGR object and compared with `compile` evaluated inside
    Coq (vm_compute) on the same stack; check_hugr is an auxiliary oracle.
Independently of the model every observation is checked against the specification side
(semantic normal form, arities, exponents, threading, body) so that a broken proof or a broken
correspondence comes with a concrete failing program.
The property's literal claim (one op per modifier, in source order) is refuted (theorem
ops_per_modifier_refuted); its two witnesses are replayed on the real compiler in every run
and reported under their exact stack as known findings."""
import json

import vlib
from vlib import proof_coverage

LEVEL = "other"
INT = "guppylang-internals/src/guppylang_internals"


def generate(ctx):
    import tr_mod
    ctx.gen("GenOrder.v", tr_mod.translate(ctx.int_src("compiler/modifier_compiler.py"), ctx.int_src("nodes.py"),
                                           ctx.int_src("checker/modifier_checker.py")))


# ------------------------------------------------------------------------------ generators
HUGR_TY = {"q": "Q", "nat": "int<6>", "int": "int<6>", "float": "float64"}
BODY_FNS = {  # name -> parameter kinds
    "u1": ["q"], "u2": ["q", "q"], "uf": ["q", "float"], "un": ["q", "nat"], "ui": ["q", "int"],
    "unf": ["nat", "q", "float"],
}


def hugr_ty(kind, size=None):
    return f"borrow_array<{size},Q>" if kind == "arr" else HUGR_TY[kind]


def gen_case(r, idx, nest=False):
    nq = r.randint(2, 7)
    params = [[f"q{i}", "q"] for i in range(nq)]
    arrs = [[f"a{i}", "arr", r.choice([1, 2, 2, 3, 4])] for i in range(r.randint(0, 3))]
    cls = [["n0", "nat"], ["n1", "nat"], ["f0", "float"], ["i0", "int"]]
    params = params + arrs + r.sample(cls, r.randint(0, 4))
    r.shuffle(params)
    locs = r.sample([["x0", "float", "1.5"], ["k0", "int", "3"], ["x1", "float", "2.25"]], r.randint(0, 2))
    free_q = [p[0] for p in params if p[1] == "q"]
    free_a = [p for p in params if p[1] == "arr"]
    r.shuffle(free_q)
    r.shuffle(free_a)
    nats = [p[0] for p in params if p[1] == "nat"]
    stack = []
    for _ in range(r.randint(1, 6)):
        k = r.choice(["dagger", "dagger", "control", "control", "control_arr", "power"])
        if k == "dagger":
            stack.append([r.choice(["dagger", "dagger", "dagger()"])])
        elif k == "control" and len(free_q) > 1:
            n = min(r.choice([1, 1, 2, 3]), len(free_q) - 1)
            stack.append(["control", [free_q.pop() for _ in range(n)]])
        elif k == "control_arr" and free_a:
            stack.append(["control_arr", free_a.pop()[0]])
        elif k == "power":
            stack.append(["power", r.choice(nats) if nats and r.random() < 0.6 else str(r.randint(0, 5))])
    if not stack:
        stack.append(["dagger"])
    vals = {"float": [p[0] for p in params if p[1] == "float"] + [l[0] for l in locs if l[1] == "float"],
            "nat": nats, "int": [p[0] for p in params if p[1] == "int"] + [l[0] for l in locs if l[1] == "int"]}
    body = []
    for _ in range(r.randint(0, 4)):
        cands = [f for f, ks in BODY_FNS.items() if all(k == "q" or vals[k] for k in ks) and ks.count("q") <= len(free_q)]
        if free_a and r.random() < 0.3:
            a = r.choice(free_a)
            body.append([f"ua{a[2]}", [a[0]]])
            continue
        if not cands:
            break
        f = r.choice(cands)
        qs = r.sample(free_q, BODY_FNS[f].count("q"))
        body.append([f, [qs.pop() if k == "q" else r.choice(vals[k]) for k in BODY_FNS[f]]])
    return {"id": idx, "params": params, "locals": locs, "stack": stack, "body": body, "nest": nest}


FIXED = [
    # the two refutation witnesses of the literal claim (known findings), then the repaired defect
    {"id": "probe-dd", "params": [["t", "q"]], "locals": [], "stack": [["dagger"], ["dagger"]], "body": [["u1", ["t"]]], "nest": False},
    {"id": "probe-cd", "params": [["c", "q"], ["t", "q"]], "locals": [], "stack": [["control", ["c"]], ["dagger"]], "body": [["u1", ["t"]]], "nest": False},
    {"id": "mixed-controls", "params": [["a", "arr", 3], ["b", "q"], ["c", "q"], ["t", "q"]], "locals": [],
     "stack": [["control_arr", "a"], ["control", ["b", "c"]]], "body": [["u1", ["t"]]], "nest": False},
    {"id": "mixed-controls-3", "params": [["a", "arr", 1], ["b", "arr", 4], ["c", "q"], ["t", "q"], ["n", "nat"]], "locals": [["x0", "float", "1.5"]],
     "stack": [["control_arr", "b"], ["power", "n"], ["control", ["c"]], ["dagger()"], ["control_arr", "a"], ["power", "2"]],
     "body": [["unf", ["n", "t", "x0"]]], "nest": False},
    {"id": "empty-body", "params": [["c", "q"]], "locals": [], "stack": [["control", ["c"]], ["dagger"], ["dagger"], ["dagger"]], "body": [], "nest": False},
]

MALFORMED = [  # raw `with` items that must be rejected (no HUGR, no modifier op)
    ("control()", "q"), ("power()", "q"), ("power(1, 2)", "q"), ("dagger(1)", "q"), ("foo", "q"), ("foo(q0)", "q"),
    ("control(n0)", "q"), ("control(a0, q0)", "q"), ("control(q0)", "body-uses-q0"), ("control(q0), control(q0)", "q"),
    ("power(f0)", "q"),
]


def malformed_case(i, raw, mode):
    body = [["u1", ["q0" if mode == "body-uses-q0" else "q1"]]]
    return {"id": f"malformed-{i}", "params": [["q0", "q"], ["q1", "q"], ["a0", "arr", 2], ["n0", "nat"], ["f0", "float"]],
            "locals": [], "stack": [["raw", raw]], "body": body, "nest": False, "malformed": True}


# ------------------------------------------------------------------------- canonical forms
def src_of(m):
    return {"dagger": "dagger", "dagger()": "dagger()"}.get(m[0]) or (
        "control(" + ", ".join(m[1]) + ")" if m[0] == "control" else f"control({m[1]})" if m[0] == "control_arr"
        else f"power({m[1]})" if m[0] == "power" else m[1])


def stack_src(case):
    return ", ".join(src_of(m) for m in case["stack"])


class Names:
    def __init__(self, case):
        self.case = case
        self.vars = [p[0] for p in case["params"]] + [l[0] for l in case["locals"]]
        self.kind = {p[0]: p[1] for p in case["params"]} | {l[0]: l[1] for l in case["locals"]}
        self.size = {p[0]: p[2] for p in case["params"] if p[1] == "arr"}
        self.lit = {float(l[2]) if l[1] == "float" else int(l[2]): l[0] for l in case["locals"]}
        self.tys = {}

    def vid(self, name):
        return self.vars.index(name)

    def tid(self, s):
        if s.startswith("array<"):           # standard array of qubits (control arrays)
            return 1000 + int(s[6:].split(",")[0])
        if s.startswith("borrow_array<"):
            return 100 + int(s[13:].split(",")[0])
        return {"Q": 0, "float64": 1, "int<6>": 2, "bool": 3}.get(s, 999)

    def var_ty(self, name):
        return self.tid(hugr_ty(self.kind[name], self.size.get(name)))

    def copyable(self, name):
        return self.kind[name] not in ("q", "arr")

    def exp_id(self, e):
        return self.vid(e) if e in self.kind else 10000 + int(e)


def model_input(case, captured_order):
    """Coq terms: stack and caps."""
    nm = Names(case)
    mods = []
    for m in case["stack"]:
        if m[0] in ("dagger", "dagger()"):
            mods.append("MDagger")
        elif m[0] == "control":
            mods.append("MControl (CQs [" + "; ".join(str(nm.vid(q)) for q in m[1]) + "])")
        elif m[0] == "control_arr":
            mods.append(f"MControl (CArr {nm.vid(m[1])} {nm.size[m[1]]}%N)")
        else:
            mods.append(f"MPower {nm.exp_id(m[1])}")
    caps = [f"mkCap {nm.vid(v)} {nm.var_ty(v)} {'true' if nm.copyable(v) else 'false'}" for v in captured_order]
    return "[" + "; ".join(mods) + "]", "[" + "; ".join(caps) + "]"


COQ_HEAD = """From Coq Require Import ZArith List.
From V.C25 Require Import Base GenOrder Model.
Import ListNotations. Open Scope Z_scope.
Definition eh (h : hty) : Z := match h with HArr n => 1000 + Z.of_N n | HTy t => t end.
Definition eop (o : op) : list Z := match o with
  | ODagger io oth => 0 :: 0 :: Z.of_nat (length io) :: map eh io ++ map eh oth
  | OPower e io oth => 1 :: e :: Z.of_nat (length io) :: map eh io ++ map eh oth
  | OControl n io oth => 2 :: Z.of_N n :: Z.of_nat (length io) :: map eh io ++ map eh oth end.
Definition ea (a : arg) : list Z := match a with
  | ACtl (CArr p n) => [0; p; Z.of_N n] | ACtl (CQs l) => 1 :: l | ACap c => [2; cap_id c] end.
Definition enc (r : option compiled) : list (list (list Z)) := match r with
  | None => []
  | Some c => [[map cap_id (c_fn_inputs c)]; map eop (c_ops c); map ea (c_args c); map ea (c_rets c)] end.
"""


def coq_file(items):
    body = ";\n".join(f"enc (compile {s} {c})" for s, c in items)
    return COQ_HEAD + "Definition cases := [\n" + body + "].\nEval vm_compute in cases.\n"


def canon_obs(case, block, captured_order):
    """The observed HUGR fragment in the model's encoding."""
    nm = Names(case)
    pnames = [p[0] for p in case["params"]]
    lin_params = [p[0] for p in case["params"] if p[1] in ("q", "arr")]

    def val(v):
        if v[0] == "param":
            return pnames[v[1]] if 0 <= v[1] < len(pnames) else f"?param{v[1]}"
        if v[0] == "const":
            return nm.lit.get(v[1], f"?const{v[1]}")
        return "?" + str(v)

    def enc_src(v):
        if v[0] == "to_array" and len(v[1]) == 1 and v[1][0][0] == "param":
            a = val(v[1][0])
            return [0, nm.vid(a), nm.size.get(a, -1)]
        if v[0] == "to_array" and len(v[1]) == 1 and v[1][0][0] == "new_array":
            return [1] + [nm.vid(val(x)) for x in v[1][0][1]]
        name = val(v)
        return [2, nm.vid(name)] if name in nm.kind else [9, str(v)]

    def slot(v):
        return lin_params[v[1]] if v[0] == "out" and 0 <= v[1] < len(lin_params) else "?" + str(v)

    def enc_dst(v):
        if v[0] == "from_array" and len(v[1]) == 1 and v[1][0][0] == "out":
            a = slot(v[1][0])
            return [0, nm.vid(a), nm.size.get(a, -1)] if a in nm.kind else [9, str(v)]
        if v[0] == "from_array" and len(v[1]) == 1 and v[1][0][0] == "unpack":
            names = [slot(x) for x in v[1][0][1]]
            return [1] + [nm.vid(x) for x in names] if all(x in nm.kind for x in names) else [9, str(v)]
        a = slot(v)
        return [2, nm.vid(a)] if a in nm.kind else [9, str(v)]

    ops = []
    for o in block["chain"]:
        a = o["args"]
        if o["op"] == "DaggerModifier":
            ops.append([0, 0, len(a[0])] + [nm.tid(t) for t in a[0] + a[1]])
        elif o["op"] == "PowerModifier":
            e = o["exp"]
            eid = nm.vid(val(e)) if e[0] == "param" else 10000 + int(e[1]) if e[0] == "const" else -999
            ops.append([1, eid, len(a[0])] + [nm.tid(t) for t in a[0] + a[1]])
        elif o["op"] == "ControlModifier":
            ops.append([2, int(a[0]), len(a[1])] + [nm.tid(t) for t in a[1] + a[2]])
        else:
            ops.append([9, o["op"]])
    fn = block["fn"]
    # the body function's inputs are identified by the values passed at the call
    n_ctl = sum(1 for o in block["chain"] if o["op"] == "ControlModifier")
    passed = [enc_src(v) for v in block["args"]]
    fn_inputs = [p[1] if p[0] == 2 else -1 for p in passed[n_ctl:]]
    return [[fn_inputs], ops, passed, [enc_dst(v) for v in block["rets"]]], fn


def spec_check(case, enc, fn, check_hugr):
    """Specification side, independent of the Coq model.  Returns list of (what, detail)."""
    nm = Names(case)
    bad = []
    (fn_inputs,), ops, args, rets = enc
    st = case["stack"]
    src_ctl = [[0, nm.vid(m[1]), nm.size[m[1]]] if m[0] == "control_arr" else [1] + [nm.vid(q) for q in m[1]]
               for m in st if m[0] in ("control", "control_arr")]
    src_pow = [nm.exp_id(m[1]) for m in st if m[0] == "power"]
    ndag = sum(1 for m in st if m[0] in ("dagger", "dagger()"))
    if check_hugr != "ok":
        bad.append(("check_hugr rejects the compiled program", check_hugr))
    # semantic normal form of the emitted chain: bind control op i (of m) to call argument m-1-i
    cops = [o for o in ops if o[0] == 2]
    m = len(cops)
    bound = []
    for i, o in enumerate(cops):
        a = args[m - 1 - i] if m - 1 - i < len(args) else None
        size = None if a is None else a[2] if a[0] == 0 else len(a) - 1 if a[0] == 1 else None
        if size != o[1]:
            bad.append(("control arity differs from the number of control qubits bound to the op", {"op": o, "bound": a}))
        bound.append(a)
    obs_nf = (sum(1 for o in ops if o[0] == 0) % 2, sorted(o[1] for o in ops if o[0] == 1), sorted(map(str, bound)))
    src_nf = (ndag % 2, sorted(src_pow), sorted(map(str, src_ctl)))
    if obs_nf != src_nf:
        bad.append(("emitted modifier chain does not denote the source stack (dagger parity, powers, controls)",
                    {"emitted": obs_nf, "source": src_nf}))
    if [o[1] for o in ops if o[0] == 1] != src_pow:
        bad.append(("power ops are not in source order / wrong exponent", {"emitted": [o[1] for o in ops if o[0] == 1], "source": src_pow}))
    if [o[1] for o in cops] != [c[2] if c[0] == 0 else len(c) - 1 for c in src_ctl]:
        bad.append(("control ops are not in source order / wrong arity", {"emitted": [o[1] for o in cops]}))
    if any(o[0] == 9 for o in ops):
        bad.append(("unknown op in the modifier chain", ops))
    # threading
    lin = [a for a in args if a[0] in (0, 1) or (a[0] == 2 and not nm.copyable(nm.vars[a[1]]))]
    if rets != lin:
        bad.append(("outputs of the call are not handed back to the places that were passed in", {"passed": args, "assigned": rets}))
    used = sorted({a for _, aa in case["body"] for a in aa})
    want = sorted(map(str, src_ctl + [[2, nm.vid(v)] for v in used]))
    if sorted(map(str, args)) != want:
        bad.append(("call arguments are not exactly the controls and the captured variables", {"passed": args, "expected": want}))
    # body function
    names = [nm.vars[i] if i >= 0 else "?" for i in fn_inputs]
    calls = [[c[0], [names[i] if isinstance(i, int) and 0 <= i < len(names) else str(i) for i in c[1]]] for c in fn["calls"]]
    if calls != case["body"]:
        bad.append(("the function made from the block does not contain exactly the block body", {"calls": calls, "body": case["body"]}))
    if fn["inputs"] != [hugr_ty(nm.kind[n], nm.size.get(n)) if n in nm.kind else "?" for n in names]:
        bad.append(("body function signature", fn["inputs"]))
    nlin = sum(1 for n in names if n in nm.kind and not nm.copyable(n))
    if fn["returns"] != list(range(nlin)) or any(nm.copyable(n) for n in names[:nlin] if n in nm.kind):
        bad.append(("body function does not return its borrowed inputs in place", fn["returns"]))
    return bad


def literal_claim(case, enc):
    kinds = [{"dagger": 0, "dagger()": 0, "power": 1, "control": 2, "control_arr": 2}[m[0]] for m in case["stack"]]
    return [o[0] for o in enc[1]] == kinds


def replay_cmd(ctx, src):
    return (f"save the program as prog.py, then in that directory: VERIF_REPO={ctx.repo} PYTHONPATH=/verif/tools:. /venv/bin/python -c "
            "\"import repo_shim, guppylang; guppylang.enable_experimental_features(); import prog; from hugr import ops; "
            "p = prog.bar.compile_function(); h = p.modules[0]; "
            "print([h[n].op.name() for n in h.descendants(h.module_root) if isinstance(h[n].op, ops.ExtOp) and 'Modifier' in h[n].op.name()]); "
            "from selene_hugr_qis_compiler import check_hugr; check_hugr(p.to_bytes())\"")


def run(ctx):
    try:
        generate(ctx)
        gen_error = None
    except vlib.TranslatorError as e:
        gen_error = str(e)
    info = ctx.coq_props()
    r = vlib.rng(ctx.seed, "C25")
    n_rand = 160 if ctx.quick else 2400
    n_nest = 12 if ctx.quick else 150
    cases = []
    corpus = ctx.dir / "corpus"
    for f in sorted(corpus.glob("*.json")):
        c = json.loads(f.read_text())
        c["id"] = "corpus-" + f.stem
        cases.append(c)
    cases += [dict(c) for c in FIXED]
    cases += [gen_case(r, f"r{i}") for i in range(n_rand)]
    nested = [gen_case(r, f"n{i}", nest=True) for i in range(n_nest)]
    for c in nested:
        c["stack"] = c["stack"][:4]
    cases += nested
    cases += [malformed_case(i, raw, mode) for i, (raw, mode) in enumerate(MALFORMED)]
    from concurrent.futures import ThreadPoolExecutor
    chunks = [cases[i:i + 60] for i in range(0, len(cases), 60)]
    with ThreadPoolExecutor(max_workers=8) as ex:
        outs = list(ex.map(lambda t: ctx.impl("impl_mod.py", {"cases": t[1], "tag": f"c{t[0]}"}), enumerate(chunks)))
    results = [x for o in outs for x in json.loads(o)]
    assert len(results) == len(cases)

    # ---- model side
    flat = []      # (case, result, block, captured_order, single-level stack case)
    stats = {"compiled": 0, "rejected_malformed": 0, "nested_levels": 0, "literal_claim_fails": 0, "check_hugr_ok": 0}
    dist = {"stack_len": {}, "controls": {}, "mixed_control_sizes": 0, "classical_captures": 0, "even_daggers>0": 0}
    for case, res in zip(cases, results):
        key = f"{stack_src(case)} :: {case['body']}"
        if case.get("malformed"):
            if "error" in res:
                stats["rejected_malformed"] += 1
            else:
                ctx.report("accepted-malformed:" + stack_src(case), "counterexample", "malformed `with` item accepted",
                           {"program": res["source"], "expected": "a GuppyError", "observed": "compiled", "replay": replay_cmd(ctx, res["source"])})
            continue
        if "error" in res or "read_error" in res:
            stats["compile_failed"] = stats.get("compile_failed", 0) + 1
            if stats["compile_failed"] <= 2:
                ctx.report("compile-failed:" + key, "counterexample", "valid modifier program not compiled / HUGR not readable",
                           {"program": res["source"], "error": res.get("error"), "diag": res.get("diag"), "read_error": res.get("read_error"),
                            "replay": replay_cmd(ctx, res["source"])})
            continue
        stats["compiled"] += 1
        stats["check_hugr_ok"] += res["check_hugr"] == "ok"
        given, blocks = res["given"], res["obs"]["blocks"]
        if not case["nest"]:
            if len(blocks) != 1 or len(given) != 1:
                ctx.report("blocks:" + key, "counterexample", "expected exactly one modified block", {"program": res["source"], "blocks": len(blocks)})
                continue
            flat.append((case, res, blocks[0], [c[0] for c in given[0]["captured"]], case))
            # grouping stage (push_modifier) against the source reading
            g = given[0]
            want = (sum(1 for m in case["stack"] if m[0] in ("dagger", "dagger()")),
                    [[m[1]] if m[0] == "control_arr" else m[1] for m in case["stack"] if m[0] in ("control", "control_arr")],
                    [m[1] if not m[1].isdigit() else int(m[1]) for m in case["stack"] if m[0] == "power"])
            got = (g["ndagger"], [c["ctrl"] for c in g["control"]], g["power"])
            if want != got and stats.setdefault("grouping_failures", 0) < 2:
                stats["grouping_failures"] += 1
                ctx.report("grouping:" + key, "counterexample", "visit_With/push_modifier grouped the items differently from source order per kind",
                           {"program": res["source"], "expected": want, "observed": got, "replay": replay_cmd(ctx, res["source"])})
            L = len(case["stack"])
            dist["stack_len"][L] = dist["stack_len"].get(L, 0) + 1
            nc = len(want[1])
            dist["controls"][nc] = dist["controls"].get(nc, 0) + 1
            nm = Names(case)
            sizes = {nm.size[c[0]] if c[0] in nm.size else len(c) for c in want[1]}
            dist["mixed_control_sizes"] += len(sizes) > 1
            dist["classical_captures"] += any(c[1] for c in g["captured"])
            dist["even_daggers>0"] += want[0] > 0 and want[0] % 2 == 0
        else:
            # nested: level i is a block with the single modifier i; compare per level the op
            # kinds/arities with the model of a one-item stack, and check_hugr on the whole
            lvl, b = 0, blocks[0] if blocks else None
            seq = []
            while b is not None:
                seq.append(b)
                inner = b["fn"].get("inner") if b["fn"] else None
                b = inner[0] if inner else None
            if len(seq) != len(case["stack"]):
                ctx.report("nested-levels:" + key, "counterexample", "nested with: number of blocks differs from the number of levels",
                           {"program": res["source"], "levels": len(case["stack"]), "blocks": len(seq)})
                continue
            for m, b in zip(case["stack"], seq):
                stats["nested_levels"] += 1
                want = [{"dagger": "DaggerModifier", "dagger()": "DaggerModifier", "power": "PowerModifier",
                         "control": "ControlModifier", "control_arr": "ControlModifier"}[m[0]]]
                got = [o["op"] for o in b["chain"]]
                ar = [int(o["args"][0]) for o in b["chain"] if o["op"] == "ControlModifier"]
                nm = Names(case)
                war = [nm.size[m[1]]] if m[0] == "control_arr" else [len(m[1])] if m[0] == "control" else []
                if want != got or ar != war:
                    ctx.report("nested:" + key, "counterexample", "nested with level does not emit exactly its own modifier op",
                               {"program": res["source"], "level": src_of(m), "expected": [want, war], "observed": [got, ar],
                                "replay": replay_cmd(ctx, res["source"])})
            if res["check_hugr"] != "ok":
                ctx.report("check_hugr:" + key, "counterexample", "check_hugr rejects the compiled nested program",
                           {"program": res["source"], "check_hugr": res["check_hugr"], "replay": replay_cmd(ctx, res["source"])})

    model = None
    have_model = (vlib.COQ / "C25" / "Model.vo").exists() and gen_error is None
    if have_model and flat:
        items = [model_input(c, cap) for c, _, _, cap, _ in flat]
        chunks = [items[i:i + 300] for i in range(0, len(items), 300)]
        try:
            outs = ctx.coq_eval_many({f"cases{i}": coq_file(ch) for i, ch in enumerate(chunks)})
            model = []
            for i in range(len(chunks)):
                model += vlib.parse_coq_values(outs[f"cases{i}"])[0]
        except RuntimeError as e:
            ctx.notes.append(f"model evaluation failed: {str(e)[-600:]}")
            model = None

    disagreements, spec_failures, samples = 0, 0, []
    for j, (case, res, block, cap, _) in enumerate(flat):
        key = f"{stack_src(case)} :: {case['body']}"
        enc, fn = canon_obs(case, block, cap)
        bad = spec_check(case, enc, fn, res["check_hugr"])
        if not literal_claim(case, enc):
            stats["literal_claim_fails"] += 1
        if bad:
            spec_failures += 1
            if spec_failures <= 3:
                ctx.report("spec:" + key, "counterexample", bad[0][0],
                           {"program": res["source"], "with": stack_src(case), "violations": [[w, d] for w, d in bad],
                            "observed": {"ops": enc[1], "call_args": enc[2], "call_rets": enc[3], "check_hugr": res["check_hugr"]},
                            "encoding": "op = [0 dagger|1 power|2 control, exponent id / arity, len(in_out), types...]; arg = [0, array var, size] | [1, qubit vars...] | [2, captured var]; vars are numbered in parameter order then locals",
                            "replay": replay_cmd(ctx, res["source"])})
        if model is not None and j < len(model):
            mj = model[j]
            mj = [[list(x) for x in sec] for sec in mj]
            if mj != enc:
                disagreements += 1
                if disagreements <= 3 and not bad:
                    ctx.report("model-mismatch:" + key, "correspondence", "Coq model of compile_modified_block vs HUGR read back from the compiler",
                               {"program": res["source"], "with": stack_src(case), "model": mj, "observed": enc,
                                "sections": "[[body function inputs]], ops, call arguments, call return assignments",
                                "replay": replay_cmd(ctx, res["source"])})
        if case["id"] in ("probe-dd", "probe-cd") and not literal_claim(case, enc):
            ctx.report("ops_per_modifier:" + stack_src(case), "counterexample",
                       "literal claim: one modifier op per modifier, in source order",
                       {"program": res["source"], "with": stack_src(case), "emitted_op_kinds": [o[0] for o in enc[1]],
                        "expected_one_per_modifier": [src_of(m) for m in case["stack"]], "replay": replay_cmd(ctx, res["source"])})
        if len(samples) < 3 and j in (3, len(flat) // 2, len(flat) - 1):
            samples.append({"with": stack_src(case), "body": case["body"], "observed": enc})

    if gen_error is not None:
        ctx.report("translator:" + gen_error[:120], "proof-broken", "source shape not understood by props/C25/tr_mod.py",
                   {"error": gen_error, "searched_programs": len(flat), "spec_failures_found": spec_failures}, found_input=False) \
            if spec_failures == 0 else None
    elif not info["ok"] and spec_failures == 0 and not ctx.violations:
        ctx.report("proof-broken:" + str(info["failed"]), "proof-broken", str(info["failed"]),
                   {"coq_error": vlib.CoqResult(False, info["log"]).error_excerpt(), "searched_programs": len(flat),
                    "generated_constants": (vlib.COQ / "C25" / "GenOrder.v").read_text()[-900:]}, found_input=False)
    if model is None and info["ok"] and flat and gen_error is None:
        ctx.report("model-eval", "correspondence", "model could not be evaluated", {"notes": ctx.notes}, found_input=False)

    cov = proof_coverage(
        info, "make -f Makefile.C25 C25/Props.vo && coqc C25/Props.v (Print Assumptions)",
        ["Coq 8.16.1 kernel",
         "tools/repo_shim.py, hugr-py builder and the HUGR reader of props/C25/impl_mod.py (graph walking only)",
         "props/C25/tr_mod.py: reading of push_modifier / has_dagger / the has_X groups / CallIndirect argument order / unpack loop order",
         "algebra of modifiers (dagger.dagger = id, all modifiers commute) and the tket.modifier op signatures: written-down specification (coq/C25/Spec.v)",
         "modelled, not verified: type checking of the block (captured-variable order is taken from the checker via a wrapper around compile_modified_block), compile_cfg of the body (only its call sequence is compared), selene check_hugr as auxiliary oracle"],
        evaluations=len(cases), distinct_nontrivial=len({stack_src(c) + str(c["body"]) for c, *_ in flat if len(c["stack"]) > 1}),
        rule="a program = one `with` statement (or a nest) over generated parameters; non-trivial = flat stack with at least two modifiers, counted distinct by (stack, body)",
        model_vs_hugr_compared=len(model) if model else 0, model_disagreements=disagreements, spec_failures=spec_failures,
        input_distribution=dist, stats=stats, samples=samples, notes=ctx.notes,
        refuted=["ops_per_modifier (literal claim) — witnesses `dagger, dagger` and `control(c), dagger` replayed on the real compiler in this run"])
    return ctx.finish(LEVEL, cov, ["captured-variable order is an input of the model (taken from the type checker)",
                                   "body function = one dataflow block (generated bodies are straight-line calls)",
                                   "modifier algebra: dagger.dagger = id; dagger, power, control commute"])
