"""Computes the in-place mutators of CPython's `list` (the interpreter that runs /repo) by
probing: every callable attribute of `list` is called, unbound, on fresh sample lists with a
battery of argument tuples; an attribute is a mutator iff some call changed the sample.
Then exercises /repo's real frozenlist with the same witnesses.
stdout: JSON {callables, mutators: [[name, witness]], frozen: {name: verdict}}"""
import json
import sys

SAMPLE = [3, 1, 2]
ARGS = [(), (0,), (1,), (3,), (5,), ([7],), ([7, 8],), (0, 5), (1, 5), (-1,), (2,), (slice(0, 1),), (slice(0, 2), [7]),
        (slice(None), []), (0, [7]), ((7, 8),), (None,), ("x",), (0, 5, 6)]
KW = [{}, {"reverse": True}, {"key": None}]
SKIP = {"__class__", "__new__", "__init_subclass__", "__subclasshook__", "__class_getitem__", "__getattribute__",
        "__setattr__", "__delattr__", "__dir__", "__doc__", "__hash__"}


def probe(fn_of, make):
    """-> witness (args, kw) for which the call changes the list, else None"""
    for kw in KW:
        for a in ARGS:
            xs = make()
            try:
                fn_of(xs)(*a, **kw)
            except BaseException:
                pass
            if list.__ne__(xs, SAMPLE) is True or list.__len__(xs) != 3:
                return [repr(a), repr(kw)]
    return None


callables = sorted(n for n in dir(list) if n not in SKIP and callable(getattr(list, n)))
mutators = []
for n in callables:
    w = probe(lambda xs, n=n: (lambda *a, **k: getattr(list, n)(xs, *a, **k)), lambda: list(SAMPLE))
    if w is not None:
        mutators.append([n, w])

from guppylang_internals.error import GuppyComptimeError  # noqa: E402
from guppylang_internals.tracing.frozenlist import frozenlist  # noqa: E402

frozen = {}
for n in callables:
    # look the attribute up on the frozenlist *instance* (this is what `xs.m(...)`, `xs[i] = v`, `xs += ys` do)
    verdict = "unchanged"
    for kw in KW:
        for a in ARGS:
            xs = frozenlist(SAMPLE)
            try:
                getattr(type(xs), n)(xs, *a, **kw)
                r = "returned"
            except GuppyComptimeError:
                r = "comptime-error"
            except BaseException as e:  # noqa: BLE001
                r = type(e).__name__
            if list.__ne__(xs, SAMPLE) is True or list.__len__(xs) != 3:
                verdict = f"MUTATED by {n}{a!r}{kw!r} ({r}) -> {list(xs)!r}"
                break
        if verdict != "unchanged":
            break
    frozen[n] = verdict
# the copy is a plain mutable list that does not alias the frozen one
xs = frozenlist(SAMPLE)
ys = xs.copy()
copy_ok = type(ys) is list and ys == SAMPLE and ys is not xs
json.dump({"callables": callables, "mutators": mutators, "frozen": frozen, "copy_ok": copy_ok,
           "python": sys.version.split()[0]}, sys.stdout)
