"""C22 leaf-level correspondence: drive REAL GuppyObjects inside a real TracingState with
scripts of leaf operations and report what happened.  stdin: {"scripts": [[op..]..]} with
op = ["C", kind] | ["U", id] | ["R", id]; kind in q (qubit) i (int) ai (array[int,2])
aq (array[qubit,2]).  ids are allocation indices (R allocates one temporary, like the model).
stdout per script: ["ok", [unused ids in dict order], [used flag per id], leak_id|-1] or ["err", class, id]"""
import json
import sys

import repo_shim  # noqa: F401
from guppylang.std.quantum import qubit
from guppylang.std.builtins import array
from guppylang_internals.error import GuppyComptimeError
from guppylang_internals.tracing.object import GuppyObject
from guppylang_internals.tracing.state import TracingState, set_tracing_state
from guppylang_internals.tracing.unpacking import update_packed_value
from guppylang_internals.tys.builtin import array_type, int_type
from guppylang_internals.tys.parsing import type_from_ast  # noqa: F401
from guppylang_internals.engine import ENGINE

qdef = ENGINE.get_checked(qubit.id) if hasattr(qubit, "id") else None
QT = qdef.check_instantiate([]) if qdef is not None else None
TY = {"q": QT, "i": int_type(), "ai": array_type(int_type(), 2), "aq": array_type(QT, 2)}
for k, t in TY.items():
    exp = {"q": (False, False), "i": (True, True), "ai": (False, True), "aq": (False, False)}[k]
    assert (t.copyable, t.droppable) == exp, (k, t.copyable, t.droppable)

out = []
for script in json.load(sys.stdin)["scripts"]:
    state = TracingState(None, None, None)
    objs = []
    res = None
    with set_tracing_state(state):
        for op in script:
            try:
                if op[0] == "C":
                    objs.append(GuppyObject(TY[op[1]], None))
                elif op[0] == "U":
                    if op[1] >= len(objs):
                        res = ["err", "noobj", op[1]]
                        break
                    objs[op[1]]._use_wire(None)
                else:
                    if op[1] >= len(objs):
                        res = ["err", "noobj", op[1]]
                        break
                    v = objs[op[1]]
                    tmp = GuppyObject(v._ty, None)
                    objs.append(tmp)
                    assert update_packed_value(v, tmp, None) is True
            except GuppyComptimeError as e:
                assert "was already used" in str(e), str(e)
                res = ["err", "used", op[1]]
                break
            except KeyError:
                res = ["err", "keyerror", op[1]]
                break
    if res is None:
        idx = {o._id: n for n, o in enumerate(objs)}
        unused = [idx[k] for k in state.unused_undroppable_objs]
        res = ["ok", unused, [1 if o._used else 0 for o in objs], unused[-1] if unused else -1]
    out.append(res)
json.dump(out, sys.stdout)
