"""C22 implementation side: compile generated @guppy.comptime functions with /repo's sources
and classify the outcome.  stdin: {"progs": [...], "hugr": bool}; stdout: [[class, message]..]
classes: 0 ok | 1 already-used | 2 leaked | 3 frozen (owned argument mutated) | 4 other Guppy
error (type changed, cannot infer / borrow ...) | 5 plain Python error | 9 invalid HUGR"""
import importlib.util
import json
import sys
from pathlib import Path

import repo_shim  # noqa: F401
from guppylang_internals.error import GuppyComptimeError, GuppyError
from guppylang_internals.tracing.state import reset_state

sys.path.insert(0, str(Path(__file__).resolve().parent))
import gen_prog  # noqa: E402

req = json.load(sys.stdin)
progs = req["progs"]
src = gen_prog.py_module(progs)
path = Path.cwd() / f"c22_batch_{req.get('tag', 0)}.py"
path.write_text(src)
spec = importlib.util.spec_from_file_location(path.stem, path)
mod = importlib.util.module_from_spec(spec)
sys.modules[path.stem] = mod
spec.loader.exec_module(mod)
check_hugr = None
if req.get("hugr"):
    from selene_hugr_qis_compiler import check_hugr


def classify(e):
    msg = str(e)
    if isinstance(e, GuppyError) and not msg:
        d = e.error
        msg = (d.rendered_title or "") + " " + (getattr(d, "msg", "") or d.rendered_message or "")
    if "was already used" in msg:
        return 1, msg
    if "is leaked by this function" in msg:
        return 2, msg
    if "owned function argument" in msg:
        return 3, msg
    if isinstance(e, (GuppyError, GuppyComptimeError)):
        return 4, msg
    return 5, type(e).__name__ + ": " + msg


out = []
for i in range(len(progs)):
    f = getattr(mod, f"main_{i}")
    try:
        h = f.compile()
        c, m = 0, ""
        if check_hugr is not None:
            try:
                check_hugr(h.to_bytes())
            except BaseException as e:  # noqa: BLE001
                c, m = 9, f"invalid HUGR: {e}"[:300]
    except BaseException as e:  # noqa: BLE001
        c, m = classify(e)
    reset_state()
    out.append([c, m[:300].replace("\n", " | ")])
json.dump(out, sys.stdout)
