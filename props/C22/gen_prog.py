"""C22: generator of comptime function bodies + renderers (Python source for /repo, Coq term
for the model).  A program is JSON:
  {"structs": [[ty..]..], "params": [[ty, borrowed]..], "ret": ty, "body": [stmt..]}
  ty   : "q" | "i" | "n" | ["t", [ty..]] | ["a", ty, n] | ["s", sid]
  expr : ["v", x] | ["idx", e, i] | ["fld", e, f] | ["tup", [e..]] | ["lst", [e..]] | ["int"]
  stmt : ["assign", x, e] | ["call", ret|None, [[ty, borrowed]..], rty, [e..]] | ["setidx", e, i, v]
       | ["setfld", e, f, v] | ["mut", e, m, v] | ["copy", x, e] | ["return", e]
       | ["opaque", "barrier"|"panic"|"exit", [e..]]   callee without a signature of its own
  a "call" may carry a 6th element "ov_eat" | "ov_lend": it is written as a call to an overloaded
  function (variants: 1 or 2 qubits, owned resp. borrowed); the params are those of the variant
  m    : append pop clear reverse extend insert del<i> iadd imul init remove sort
Parameter i is variable i.  `borrowed` is only ever True for non-copyable types (for copyable
types Guppy has no borrow flag; such inputs are traced as owned, i.e. frozen)."""
from __future__ import annotations

STRUCTS = [["q", "i"], [["a", "q", 2], "i"], ["i", "i"]]
Q2 = ["a", "q", 2]
I2 = ["a", "i", 2]
TYPES = ["q", "q", "i", Q2, I2, ["t", ["q", "i"]], ["t", ["q", "q"]], ["s", 0], ["s", 1], ["s", 2],
         ["a", ["t", ["q", "i"]], 2], ["t", [Q2, "q"]], ["a", Q2, 2], ["a", "q", 3], ["a", ["s", 0], 2]]


def copyable(t):
    if t in ("i", "n"):
        return True
    if t == "q":
        return False
    if t[0] == "t":
        return all(copyable(x) for x in t[1])
    if t[0] == "a":
        return False
    return all(copyable(x) for x in STRUCTS[t[1]])


def droppable(t):
    if t in ("i", "n"):
        return True
    if t == "q":
        return False
    if t[0] == "t":
        return all(droppable(x) for x in t[1])
    if t[0] == "a":
        return droppable(t[1])
    return all(droppable(x) for x in STRUCTS[t[1]])


# ------------------------------------------------------------------------------ generation
def subpaths(e, t, depth=0):
    """all (expr, type) reachable from expression e of static type t through idx / fld"""
    out = [(e, t)]
    if depth >= 3 or isinstance(t, str):
        return out
    if t[0] == "t":
        for i, x in enumerate(t[1]):
            out += subpaths(["idx", e, i], x, depth + 1)
    elif t[0] == "a" and t[2] > 0:
        for i in range(t[2]):
            out += subpaths(["idx", e, i], t[1], depth + 1)
    elif t[0] == "s":
        for i, x in enumerate(STRUCTS[t[1]]):
            out += subpaths(["fld", e, i], x, depth + 1)
    return out


class Gen:
    def __init__(self, r):
        self.r = r

    def paths(self, vars_):
        out = []
        for x, t in vars_.items():
            out += subpaths(["v", x], t)
        return out

    def expr_of(self, vars_, t, allow_build=True):
        c = [e for e, tt in self.paths(vars_) if tt == t]
        r = self.r
        if t == "i" and (not c or r.random() < 0.5):
            return ["int"]
        if c and (r.random() < 0.8 or not allow_build):
            return r.choice(c)
        if allow_build and not isinstance(t, str):
            if t[0] == "t":
                sub = [self.expr_of(vars_, x, False) for x in t[1]]
                if all(s is not None for s in sub):
                    return ["tup", sub]
            if t[0] == "a":
                sub = [self.expr_of(vars_, t[1], False) for _ in range(t[2])]
                if all(s is not None for s in sub):
                    return ["lst", sub]
        return r.choice(c) if c else None

    def program(self):
        r = self.r
        nparams = r.choice([1, 1, 2, 2, 3])
        params = []
        for _ in range(nparams):
            t = r.choice(TYPES)
            params.append([t, (not copyable(t)) and r.random() < 0.5])
        vars_ = {i: p[0] for i, p in enumerate(params)}
        nxt = len(params)
        body = []
        disciplined = r.random() < 0.6
        live = {i for i, p in enumerate(params)}          # whole variables not yet consumed (discipline mode)
        for _ in range(r.randint(0, 7)):
            k = r.random()
            ps = self.paths({x: t for x, t in vars_.items() if (x in live or not disciplined)}) if vars_ else []
            if k < 0.22 and ps:                           # consume something
                if disciplined:
                    x = r.choice(sorted(live)) if live else None
                    if x is None:
                        continue
                    e, t = ["v", x], vars_[x]
                    if not copyable(t):
                        if x < len(params) and params[x][1]:
                            continue                      # borrowed inputs must stay available
                        live.discard(x)
                else:
                    e, t = r.choice(ps)
                body.append(["call", None, [[t, False]], "n", [e]])
            elif k < 0.40 and ps:                         # lend something
                e, t = r.choice(ps)
                if copyable(t):
                    body.append(["call", None, [[t, False]], "n", [e]])
                else:
                    body.append(["call", None, [[t, True]], "n", [e]])
            elif k < 0.46 and len(ps) >= 2:               # two-argument call
                (e1, t1), (e2, t2) = r.choice(ps), r.choice(ps)
                b1, b2 = (not copyable(t1)) and r.random() < 0.7, (not copyable(t2)) and r.random() < 0.7
                if disciplined and (not b1 and not copyable(t1) or not b2 and not copyable(t2) or e1 == e2):
                    continue
                body.append(["call", None, [[t1, b1], [t2, b2]], "n", [e1, e2]])
            elif k < 0.535 and ps:                        # callee without own signature / overloaded
                qs = [(e, tt) for e, tt in ps if tt == "q"]
                big = [(e, tt) for e, tt in ps if tt in ("q", Q2)]
                kind = r.choice(["barrier", "barrier", "panic", "exit", "ov_eat", "ov_lend", "ov_lend"])
                pool = big if kind in ("barrier", "panic", "exit") else qs
                if not pool:
                    continue
                picked = [r.choice(pool) for _ in range(r.choice([1, 1, 2]))]
                if len(picked) == 2 and picked[0][0] == picked[1][0] and (disciplined or r.random() < 0.7):
                    picked = picked[:1]
                consumes = kind in ("panic", "exit", "ov_eat")
                if disciplined and consumes:
                    whole = [x for x in sorted(live) if vars_[x] in ("q", Q2) and not (x < len(params) and params[x][1])]
                    if kind == "ov_eat":
                        whole = [x for x in whole if vars_[x] == "q"]
                    if not whole:
                        continue
                    x = r.choice(whole)
                    picked = [(["v", x], vars_[x])]
                    live.discard(x)
                if kind in ("barrier", "panic", "exit"):
                    body.append(["opaque", kind, [e for e, _ in picked]])
                else:
                    body.append(["call", None, [["q", kind == "ov_lend"] for _ in picked], "n", [e for e, _ in picked], kind])
            elif k < 0.60:                                # create
                t = r.choice(TYPES)
                body.append(["call", nxt, [], t, []])
                vars_[nxt] = t
                live.add(nxt)
                nxt += 1
            elif k < 0.68 and ps:                         # alias / sub-value / literal
                e, t = r.choice(ps)
                if r.random() < 0.3:
                    t = r.choice(TYPES)
                    e = self.expr_of(vars_, t)
                    if e is None:
                        continue
                if disciplined and not copyable(t):
                    continue
                body.append(["assign", nxt, e])
                vars_[nxt] = t
                nxt += 1
            elif k < 0.86 and ps:                         # in-place mutation
                tgt = [(e, t) for e, t in ps if not isinstance(t, str) and t[0] in ("a", "s", "t")]
                if not tgt:
                    continue
                e, t = r.choice(tgt)
                if t[0] == "s":
                    f = r.randrange(len(STRUCTS[t[1]]))
                    v = self.expr_of(vars_, STRUCTS[t[1]][f]) if r.random() < 0.9 else ["int"]
                    if v is None:
                        continue
                    body.append(["setfld", e, f, v])
                elif t[0] == "t":
                    body.append(["setidx", e, 0, ["int"]])
                else:
                    owned_root = self.root_frozen(e, params)
                    ms = ["append", "pop", "clear", "reverse", "extend", "insert", "del0", "del1", "iadd", "imul", "init", "setidx"]
                    if owned_root:
                        ms += ["remove", "sort"]
                    m = r.choice(ms)
                    v = self.expr_of(vars_, t[1]) if m in ("append", "extend", "insert", "iadd", "setidx", "remove") else ["int"]
                    if v is None:
                        continue
                    if m == "setidx":
                        body.append(["setidx", e, r.randrange(t[2] + 1), v])
                    else:
                        body.append(["mut", e, m, v])
            elif k < 0.92 and ps:                         # copy()
                tgt = [(e, t) for e, t in ps if not isinstance(t, str) and t[0] == "a"]
                if not tgt:
                    continue
                e, t = r.choice(tgt)
                body.append(["copy", nxt, e])
                vars_[nxt] = t
                if disciplined:
                    pass
                nxt += 1
        # ---- ending
        ret = "n"
        if disciplined:
            cands = [x for x in sorted(live) if not (x < len(params) and params[x][1])]
            rv = None
            if cands and r.random() < 0.6:
                rv = r.choice(cands)
                live.discard(rv)
            for x in sorted(live):
                t = vars_[x]
                if not droppable(t) and not (x < len(params) and params[x][1]) and r.random() < 0.93:
                    body.append(["call", None, [[t, False]], "n", [["v", x]]])
            if rv is not None:
                ret = vars_[rv]
                body.append(["return", ["v", rv]])
        else:
            if r.random() < 0.6:
                ret = r.choice(TYPES + ["n", "n"])
                if ret != "n":
                    e = self.expr_of(vars_, ret)
                    if e is None:
                        ret = "n"
                    else:
                        body.append(["return", e])
        # ---- perturbation of a disciplined program: duplicate / drop / swap one statement
        if disciplined and body and r.random() < 0.35:
            i = r.randrange(len(body))
            w = r.random()
            if w < 0.4:
                body.insert(i, body[i])
            elif w < 0.8:
                del body[i]
            elif len(body) > 1:
                j = r.randrange(len(body))
                body[i], body[j] = body[j], body[i]
        prog = {"structs": STRUCTS, "params": params, "ret": ret, "body": body}
        return prog if well_scoped(prog) else self.program()

    @staticmethod
    def root_frozen(e, params):
        while e[0] in ("idx", "fld"):
            e = e[1]
        return e[0] == "v" and e[1] < len(params) and not params[e[1]][1]


def expr_vars(e):
    if e[0] == "v":
        return {e[1]}
    if e[0] in ("idx", "fld"):
        return expr_vars(e[1])
    if e[0] in ("tup", "lst"):
        return set().union(*[expr_vars(x) for x in e[1]]) if e[1] else set()
    return set()


def well_scoped(p):
    """every variable is defined before it is read, and nothing follows a return"""
    defined = set(range(len(p["params"])))
    for n, s in enumerate(p["body"]):
        k = s[0]
        reads = set()
        if k in ("assign", "copy"):
            reads = expr_vars(s[2])
        elif k == "call":
            for a in s[4]:
                reads |= expr_vars(a)
        elif k in ("setidx", "setfld"):
            reads = expr_vars(s[1]) | expr_vars(s[3])
        elif k == "mut":
            reads = expr_vars(s[1]) | expr_vars(s[3])
        elif k == "return":
            reads = expr_vars(s[1])
        elif k == "opaque":
            for a in s[2]:
                reads |= expr_vars(a)
        if not reads <= defined:
            return False
        if k in ("assign", "copy"):
            defined.add(s[1])
        if k == "call" and s[1] is not None:
            defined.add(s[1])
        if k == "return" and n != len(p["body"]) - 1:
            return False
    return True


# -------------------------------------------------------------------------------- rendering
def py_ty(t):
    if t == "q":
        return "qubit"
    if t == "i":
        return "int"
    if t == "n":
        return "None"
    if t[0] == "t":
        return "tuple[" + ", ".join(py_ty(x) for x in t[1]) + "]"
    if t[0] == "a":
        return f"array[{py_ty(t[1])}, {t[2]}]"
    return f"S{t[1]}"


def py_expr(e):
    k = e[0]
    if k == "v":
        return f"v{e[1]}"
    if k == "idx":
        return f"{py_expr(e[1])}[{e[2]}]"
    if k == "fld":
        return f"{py_expr(e[1])}.f{e[2]}"
    if k == "tup":
        return "(" + ", ".join(py_expr(x) for x in e[1]) + ("," if len(e[1]) == 1 else "") + ")"
    if k == "lst":
        return "[" + ", ".join(py_expr(x) for x in e[1]) + "]"
    return "7"


def sig_key(params, rty):
    return repr((params, rty))


def py_stmt(s, sigs):
    k = s[0]
    if k == "assign":
        return f"v{s[1]} = {py_expr(s[2])}"
    if k == "opaque":
        args = ", ".join(py_expr(a) for a in s[2])
        return {"barrier": f"barrier({args})", "panic": f'panic("stop", {args})', "exit": f'exit("stop", 1, {args})'}[s[1]]
    if k == "call":
        fn = s[5] if len(s) > 5 else sigs[sig_key(s[2], s[3])]
        c = f"{fn}(" + ", ".join(py_expr(a) for a in s[4]) + ")"
        return c if s[1] is None else f"v{s[1]} = {c}"
    if k == "setidx":
        return f"{py_expr(s[1])}[{s[2]}] = {py_expr(s[3])}"
    if k == "setfld":
        return f"{py_expr(s[1])}.f{s[2]} = {py_expr(s[3])}"
    if k == "copy":
        return f"v{s[1]} = {py_expr(s[2])}.copy()"
    if k == "return":
        return f"return {py_expr(s[1])}"
    e, m, v = py_expr(s[1]), s[2], py_expr(s[3])
    simple_target = s[1][0] == "v"
    return {"append": f"{e}.append({v})", "pop": f"{e}.pop()", "clear": f"{e}.clear()", "reverse": f"{e}.reverse()",
            "extend": f"{e}.extend([{v}])", "insert": f"{e}.insert(0, {v})", "del0": f"del {e}[0]", "del1": f"del {e}[1]",
            "iadd": (f"{e} += [{v}]" if simple_target else f"{e}.__iadd__([{v}])"),
            "imul": (f"{e} *= 2" if simple_target else f"{e}.__imul__(2)"),
            "init": f"{e}.__init__()", "remove": f"{e}.remove({v})", "sort": f"{e}.sort()"}[m]


def py_module(progs):
    """one module with all programs: main_<i>"""
    sigs = {}
    for p in progs:
        for s in p["body"]:
            if s[0] == "call" and len(s) <= 5:
                sigs.setdefault(sig_key(s[2], s[3]), f"fn_{len(sigs)}")
    L = ["import repo_shim  # noqa: F401", "from guppylang.decorator import guppy",
         "from guppylang.std.builtins import array, barrier, exit, owned, panic", "from guppylang.std.quantum import qubit", "",
         "@guppy.declare", "def _eat1(a: qubit @ owned) -> None: ...", "@guppy.declare", "def _eat2(a: qubit @ owned, b: qubit @ owned) -> None: ...",
         "@guppy.overload(_eat1, _eat2)", "def ov_eat(): ...",
         "@guppy.declare", "def _lend1(a: qubit) -> None: ...", "@guppy.declare", "def _lend2(a: qubit, b: qubit) -> None: ...",
         "@guppy.overload(_lend1, _lend2)", "def ov_lend(): ...", ""]
    for i, fs in enumerate(STRUCTS):
        L += ["@guppy.struct", f"class S{i}:"] + [f"    f{j}: {py_ty(t)}" for j, t in enumerate(fs)] + [""]
    for key, fn in sigs.items():
        params, rty = eval(key)
        ps = ", ".join(f"a{j}: {py_ty(t)}" + ("" if b or copyable(t) else " @ owned") for j, (t, b) in enumerate(params))
        L += ["@guppy.declare", f"def {fn}({ps}) -> {py_ty(rty)}: ...", ""]
    for i, p in enumerate(progs):
        ps = ", ".join(f"v{j}: {py_ty(t)}" + ("" if b or copyable(t) else " @ owned") for j, (t, b) in enumerate(p["params"]))
        L += ["@guppy.comptime", f"def main_{i}({ps}) -> {py_ty(p['ret'])}:"]
        L += ["    " + py_stmt(s, sigs) for s in p["body"]] or ["    pass"]
        if not p["body"]:
            pass
        L.append("")
    return "\n".join(L) + "\n"


def coq_ty(t):
    if t == "q":
        return "TQubit"
    if t == "i":
        return "TInt"
    if t == "n":
        return "TNone"
    if t[0] == "t":
        return "(TTup [" + "; ".join(coq_ty(x) for x in t[1]) + "])"
    if t[0] == "a":
        return f"(TArr {coq_ty(t[1])} {t[2]})"
    return f"(TStruct {t[1]})"


def coq_expr(e):
    k = e[0]
    if k == "v":
        return f"(EVar {e[1]})"
    if k == "idx":
        return f"(EIdx {coq_expr(e[1])} {e[2]})"
    if k == "fld":
        return f"(EFld {coq_expr(e[1])} {e[2]})"
    if k == "tup":
        return "(ETup [" + "; ".join(coq_expr(x) for x in e[1]) + "])"
    if k == "lst":
        return "(ELst [" + "; ".join(coq_expr(x) for x in e[1]) + "])"
    return "EInt"


def coq_params(ps):
    return "[" + "; ".join(f"({coq_ty(t)}, {'true' if b else 'false'})" for t, b in ps) + "]"


MUT = {"append": "MAppend", "pop": "MPop", "clear": "MClear", "reverse": "MReverse", "extend": "MExtend",
       "insert": "MInsert", "del0": "(MDel 0)", "del1": "(MDel 1)", "iadd": "MIadd", "imul": "MImul", "init": "MInit",
       "remove": "MRemove", "sort": "MSort"}


def coq_stmt(s):
    k = s[0]
    if k == "assign":
        return f"SAssign {s[1]} {coq_expr(s[2])}"
    if k == "opaque":
        return f"SOpaque {'true' if s[1] == 'barrier' else 'false'} [" + "; ".join(coq_expr(a) for a in s[2]) + "]"
    if k == "call":
        ret = "None" if s[1] is None else f"(Some {s[1]})"
        return f"SCall {ret} {coq_params(s[2])} {coq_ty(s[3])} [" + "; ".join(coq_expr(a) for a in s[4]) + "]"
    if k == "setidx":
        return f"SSetIdx {coq_expr(s[1])} {s[2]} {coq_expr(s[3])}"
    if k == "setfld":
        return f"SSetFld {coq_expr(s[1])} {s[2]} {coq_expr(s[3])}"
    if k == "copy":
        return f"SCopy {s[1]} {coq_expr(s[2])}"
    if k == "return":
        return f"SReturn {coq_expr(s[1])}"
    return f"SMut {coq_expr(s[1])} {MUT[s[2]]} {coq_expr(s[3])}"


def coq_prog(p):
    sd = "[" + "; ".join("[" + "; ".join(coq_ty(t) for t in fs) + "]" for fs in p["structs"]) + "]"
    body = "[" + ";\n     ".join(coq_stmt(s) for s in p["body"]) + "]"
    return f"verdict (trace_function {sd} {coq_params(p['params'])} {coq_ty(p['ret'])}\n    {body})"


def coq_file(progs):
    L = ["From Coq Require Import List Bool Arith.", "From V.C22 Require Import GenTracing ModelTracing ModelTree.",
         "Import ListNotations.", "Definition cases : list nat := ["]
    L.append(";\n".join(coq_prog(p) for p in progs) + "].")
    L.append("Eval vm_compute in cases.")
    return "\n".join(L)
