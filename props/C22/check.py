"""C22 — comptime tracing enforces ownership.   Level: other (partial).

1. T: regenerate coq/C22/GenTracing.v — the branch conditions of GuppyObject.__init__ /
   _use_wire / update_packed_value / trace_function's leak check / GuppyStructObject.__setattr__,
   the frozen flags handed down by trace_function / unpack_guppy_object, the method table of
   class frozenlist, and the in-place mutators of CPython's list (probed on the interpreter
   that runs /repo) — and re-check the theorems of coq/C22/Props.v against it.
2. inventory on the real class: every probed callable of list, looked up on a real frozenlist,
   must leave it unchanged.
3. X (leaf): random scripts of create / use / re-assign on REAL GuppyObjects in a real
   TracingState vs the proved leaf model (verdict, dictionary contents, used flags).
4. X (tree; the tree model also has theorems since round 2, see Props.v): generated @guppy.comptime bodies (qubits, arrays, tuples, structs; owned /
   borrowed / local; use, reuse, leak, return, mutate) compiled with /repo vs the executable
   tree model (verdict class); accepted programs are also validated with check_hugr.
   This is the ONLY assurance for nested-container tracking.
A program the code accepts while the model (whose leaf layer is proved against the history
specification) finds a double use / leak / mutation of an owned-derived value is reported as a
counterexample; any other difference as a correspondence failure with the program."""
import collections
import hashlib
import json
from concurrent.futures import ThreadPoolExecutor
from pathlib import Path

import vlib
from vlib import proof_coverage

LEVEL = "other"
HERE = Path(__file__).resolve().parent
CLS = {0: "accepted", 1: "already-used", 2: "leaked", 3: "frozen-mutation", 4: "guppy-type/other error",
       5: "python error", 6: "internal KeyError", 7: "no such object", 8: "outside model", 9: "invalid HUGR"}
_probe = {}


def generate(ctx):
    import tr_tracing
    d = json.loads(ctx.impl("impl_listmut.py"))
    _probe.clear()
    _probe.update(d)
    text, conds, ov = tr_tracing.translate(ctx.int_src, d["mutators"], d["callables"])
    _probe["conds"], _probe["overrides"], _probe["text"] = conds, ov, text
    ctx.gen("GenTracing.v", text)


# ------------------------------------------------------------------------------ leaf level
KINDS = {"q": "(mkKind false false)", "i": "(mkKind true true)", "ai": "(mkKind false true)", "aq": "(mkKind false false)"}


def leaf_scripts(r, n):
    out = []
    for _ in range(n):
        s, allocs = [], 0
        for _ in range(r.randint(1, 10)):
            k = r.random()
            if k < 0.35 or allocs == 0:
                s.append(["C", r.choice(list(KINDS))])
                allocs += 1
            elif k < 0.8:
                s.append(["U", r.randrange(allocs + (1 if r.random() < 0.05 else 0))])
            else:
                s.append(["R", r.randrange(allocs)])
                if s[-1][1] < allocs:
                    allocs += 1
        out.append(s)
    return out


def leaf_coq(scripts):
    def render(s):
        kinds, out = [], []          # kinds[i] = kind of allocation i (R allocates a temporary of the value's kind)
        for o in s:
            if o[0] == "C":
                kinds.append(o[1])
                out.append(f"LCreate {KINDS[o[1]]}")
            elif o[0] == "U":
                out.append(f"LUse {o[1]}")
            else:
                k = kinds[o[1]] if o[1] < len(kinds) else "i"
                if o[1] < len(kinds):
                    kinds.append(k)
                out.append(f"LReassign {o[1]} {KINDS[k]}")
        return "; ".join(out)
    L = ["From Coq Require Import List Bool Arith.", "From V.C22 Require Import GenTracing ModelTracing.",
         "Import ListNotations.",
         "Definition enc (n : nat) (r : res st) : list (list nat) := match r with",
         " | Ok s => [[0]; unused s; map (fun i => match objs s i with Some o => if oused o then 1 else 0 | None => 9 end) (seq 0 (next s));",
         "            match end_check s with Err (ELeak i) => [1; i] | Ok _ => [0] | _ => [9] end]",
         " | Err (EAlreadyUsed i) => [[1]; [i]] | Err (ENoObj i) => [[2]; [i]] | Err (EKeyError i) => [[3]; [i]] | Err _ => [[9]] end.",
         "Definition cases : list (list (list nat)) := ["]
    L.append(";\n".join(f"enc 0 (lrun [{render(s)}] st0)" for s in scripts) + "].")
    L.append("Eval vm_compute in cases.")
    return "\n".join(L)


def leaf_canon_impl(r):
    if r[0] == "ok":
        return [[0], r[1], r[2], ([1, r[3]] if r[3] >= 0 else [0])]
    return [[{"used": 1, "noobj": 2, "keyerror": 3}[r[1]]], [r[2]]]


# ------------------------------------------------------------------------------ tree level
def prog_key(p):
    return "prog:" + hashlib.sha1(json.dumps(p, sort_keys=True).encode()).hexdigest()[:12]


def run_tree(ctx, progs, chunk=250):
    import gen_prog
    chunks = [progs[i:i + chunk] for i in range(0, len(progs), chunk)]

    def one(i):
        return json.loads(ctx.impl("impl_trace.py", {"progs": chunks[i], "hugr": True, "tag": i}))
    with ThreadPoolExecutor(max_workers=8) as ex:
        impl_f = [ex.submit(one, i) for i in range(len(chunks))]
        model_out = ctx.coq_eval_many({f"tree{i}": gen_prog.coq_file(c) for i, c in enumerate(chunks)}, jobs=8)
        impl = [x for f in impl_f for x in f.result()]
    model = []
    for i in range(len(chunks)):
        model += vlib.parse_coq_values(model_out[f"tree{i}"])[0]
    return impl, model


def show(p):
    import gen_prog
    return gen_prog.py_module([p])


def run(ctx):
    import gen_prog
    generate(ctx)
    info = ctx.coq_props()
    r = vlib.rng(ctx.seed, "C22")
    reference = False
    if not info["ok"]:
        # A proof obligation broke: the generated conditions no longer satisfy the specification.
        # Search for a concrete failing input against the SPECIFICATION side: rebuild the
        # executable models with the reference conditions (the right-hand sides of the *_spec
        # lemmas) and run the real code against them.
        import tr_tracing
        ctx.gen("GenTracing.v", tr_tracing.render(tr_tracing.SPEC, _probe["overrides"], _probe["mutators"], _probe["callables"],
                                                  header="REFERENCE conditions (specification side) written by props/C22/check.py for the failing-input search"))
        res = ctx.coq_make(["C22/ModelTree.vo"])
        reference = res.ok
        ctx.notes.append("Props.v failed (%s): differential run against the reference model (spec conditions)%s"
                         % (info["failed"], "" if res.ok else " could not be built"))
    built = (vlib.COQ / "C22" / "ModelTree.vo").exists() and (info["ok"] or reference)
    # ---- 2. inventory on the real class
    muts = [m for m, _ in _probe["mutators"]]
    gaps = {n: v for n, v in _probe["frozen"].items() if v != "unchanged"}
    for n, v in sorted(gaps.items()):
        ctx.report(f"frozenlist-mutated:{n}", "counterexample", "frozen_total (frozenlist overrides every in-place mutator of list)",
                   {"input": f"frozenlist([3, 1, 2]).{n}(...)", "observed": v,
                    "expected": "GuppyComptimeError and the list unchanged: values derived from owned arguments reject every in-place mutation",
                    "list_mutators_probed": muts, "frozenlist_defines": [m for m, _ in _probe["overrides"]],
                    "replay": "PYTHONPATH=/verif/tools:$REPO/guppylang-internals/src /venv/bin/python -c \"from guppylang_internals.tracing.frozenlist import frozenlist as F; x=F([3,1,2]); x.%s(); print(x)\"" % n})
    if not _probe["copy_ok"]:
        ctx.report("frozenlist-copy", "correspondence", "frozenlist.copy()", {"observed": "copy() is not a fresh plain list"})
    # ---- 3. leaf-level correspondence
    n_leaf = 300 if ctx.quick else 3000
    corpus_leaf = [[["C", "q"], ["U", 0], ["U", 0]], [["C", "q"], ["U", 0], ["R", 0], ["U", 0]], [["C", "aq"], ["C", "i"], ["U", 1], ["U", 1]],
                   [["C", "ai"], ["U", 0], ["U", 0]], [["C", "q"], ["R", 0], ["R", 0]], [["C", "q"], ["C", "q"], ["U", 1]]]
    scripts = corpus_leaf + leaf_scripts(r, n_leaf)
    leaf_impl = [leaf_canon_impl(x) for x in json.loads(ctx.impl("impl_leaf.py", {"scripts": scripts}))]
    leaf_model, leaf_bad = None, 0
    if built:
        chunks = [scripts[i:i + 400] for i in range(0, len(scripts), 400)]
        outs = ctx.coq_eval_many({f"leaf{i}": leaf_coq(c) for i, c in enumerate(chunks)})
        leaf_model = []
        for i in range(len(chunks)):
            leaf_model += vlib.parse_coq_values(outs[f"leaf{i}"])[0]
        for s, a, b in zip(scripts, leaf_impl, leaf_model):
            if a != b:
                leaf_bad += 1
                if leaf_bad <= 3:
                    accepted_wrongly = a[0] == [0] and b[0] != [0]
                    ctx.report("leaf:" + json.dumps(s), "counterexample" if accepted_wrongly else "correspondence",
                               "leaf model (use_once / leak_detected) vs real GuppyObject / TracingState",
                               {"script": s, "ops": "C kind = GuppyObject(ty, wire); U i = obj_i._use_wire(None); R i = update_packed_value(obj_i, GuppyObject(ty, wire'), builder)",
                                "implementation": a, "model": b,
                                "encoding": "[[0], unused_undroppable_objs keys, used flags, leak check] | [[1],[id]] already used | [[2],[id]] no object | [[3],[id]] KeyError",
                                "replay": "echo '{\"scripts\": [%s]}' | (cd /tmp && PYTHONPATH=/verif/tools /venv/bin/python /verif/props/C22/impl_leaf.py)" % json.dumps(s)})
    # ---- 4. tree-level correspondence
    corpus = [json.loads(f.read_text()) for f in sorted((HERE / "corpus").glob("*.json"))]
    n_tree = 600 if ctx.quick else 6000
    g = gen_prog.Gen(r)
    progs = corpus + [g.program() for _ in range(n_tree)]
    impl, model = [], None
    tree_bad, outside, wrongly_accepted = 0, 0, 0
    if built:
        impl, model = run_tree(ctx, progs)
        for p, (ic, msg), mc in zip(progs, impl, model):
            if mc == 8:
                outside += 1
                continue
            if ic != mc:
                tree_bad += 1
                bad_accept = ic in (0, 9) and mc in (1, 2, 3)   # accepted (possibly with an invalid HUGR) although the model finds a violation
                wrongly_accepted += bad_accept
                if tree_bad <= 4:
                    (HERE / "corpus").mkdir(exist_ok=True)
                    ctx.report(prog_key(p), "counterexample" if bad_accept else "correspondence",
                               "tree model (ModelTree.trace_function) vs real compile() of a comptime function",
                               {"program": p, "python_source": show(p), "implementation": [CLS.get(ic, ic), msg],
                                "model": CLS.get(mc, mc),
                                "meaning": ("the compiler ACCEPTED a comptime body in which the model finds a " + CLS[mc] + " violation"
                                            if bad_accept else "model and compiler disagree on this body"),
                                "replay": "save python_source as /tmp/p.py, append `main_0.compile()`, run: PYTHONPATH=/verif/tools VERIF_REPO=$REPO /venv/bin/python /tmp/p.py"})
    else:
        ctx.notes.append("ModelTree.vo not built: tree correspondence skipped")
    if reference:
        ctx.gen("GenTracing.v", _probe["text"])      # leave the file as generated from the tree under test
    # ---- proofs
    if not info["ok"] and not ctx.violations and not ctx.known_hits:
        ctx.report("proof-broken:" + str(info["failed"]), "proof-broken", str(info["failed"]),
                   {"coq_error": vlib.CoqResult(False, info["log"]).error_excerpt(),
                    "generated_conditions": _probe.get("conds"), "searched": {"leaf_scripts": len(scripts), "programs": len(progs)}},
                   found_input=False)
    elif not info["ok"]:
        ctx.notes.append(f"Props.v did not check ({info['failed']}); failing inputs were found and reported above")
    hist_impl = collections.Counter(CLS.get(c, c) for c, _ in impl)
    kinds = collections.Counter(s[0] for p in progs for s in p["body"])
    nontrivial = len({prog_key(p) for p, (c, _) in zip(progs, impl) if p["body"] and any(not gen_prog.copyable(t) for t, _ in p["params"])}) if impl else 0
    cov = proof_coverage(
        info, "make C22/Props.vo && coqc C22/Props.v (Print Assumptions)",
        ["Coq 8.16.1 kernel",
         "props/C22/tr_tracing.py: reading of the statement skeletons of GuppyObject.__init__/_use_wire, update_packed_value (GuppyObject case), trace_function, GuppyStructObject.__setattr__, unpack_guppy_object, class frozenlist",
         "props/C22/impl_listmut.py: list's in-place mutators = callable attributes of CPython's list for which one of ~57 probe calls changes a sample list",
         "tools/repo_shim.py (compat shim), selene check_hugr for accepted programs",
         "ModelTree.v (nested tuples/lists/structs) is hand-written: that it matches unpack_guppy_object / guppy_object_from_py / update_packed_value / trace_call / trace_function is validated differentially against compile() only; the theorems about it (frozen at all levels, mutation rejected, refinement to the leaf layer) are proved",
         "NOT PROVED: that update_packed_value resets EXACTLY the leaves of the re-assigned subtree (only: it is a sequence of LReassign/LCreate/LUse leaf steps)"],
        evaluations=len(scripts) + len(progs) + len(_probe["callables"]),
        distinct_nontrivial=nontrivial,
        rule="non-trivial program = non-empty body and at least one non-copyable parameter; programs are distinct by JSON hash",
        traces_validated_against_impl=(len(scripts) if leaf_model else 0) + (len(progs) - outside if model else 0),
        leaf_scripts=len(scripts), leaf_disagreements=leaf_bad,
        programs=len(progs), program_disagreements=tree_bad, programs_outside_model=outside,
        accepted_with_violation=wrongly_accepted,
        implementation_verdicts=dict(hist_impl), statement_kinds=dict(kinds),
        list_mutators=muts, frozenlist_overrides=[f"{m}:{s}" for m, s in _probe["overrides"]],
        frozenlist_gaps=sorted(gaps), python=_probe.get("python"),
        generated_conditions=_probe.get("conds"),
        samples=[{"program": progs[j], "impl": impl[j] if impl else None, "model": model[j] if model else None}
                 for j in (0, len(progs) // 2, len(progs) - 1)],
        notes=ctx.notes)
    return ctx.finish(LEVEL, cov, [
        "comptime bodies are straight-line Python over values of the modelled shapes; control flow in the body is ordinary Python and only changes which straight-line trace runs",
        "every Guppy type that is copyable is droppable (wf_kind); asserted on the real qubit/int/array types by impl_leaf.py",
        "in-place mutation means: an attribute looked up on the value (method call, item/attribute assignment, augmented assignment); list.append(xs, v) / object.__setattr__ bypass any Python-level guard and are out of scope",
        "nested-container tracking is differentially validated only (no theorem)"])
