"""C22 translator: reads the ownership-tracking code of /repo's tracing package with Python
`ast` and emits coq/C22/GenTracing.v.  Fail-closed: every statement skeleton is matched
exactly; only the *conditions* (and the frozen flags that are passed on) are translated, as
boolean expressions, so a change of a condition changes the generated definitions (and
breaks the proofs / the correspondence) while a change of the skeleton raises
TranslatorError.

Generated definitions
  init_registers  c d u   GuppyObject.__init__: object is entered into unused_undroppable_objs
  use_raises      c d u   GuppyObject._use_wire: the "already used" error branch is taken
  use_pops        c d u   ... otherwise: the object is popped from unused_undroppable_objs
  upd_registers   c d u   update_packed_value (GuppyObject case): re-entered into the dict
  leak_raises     ne      trace_function: end-of-function check raises (ne = dict non-empty)
  input_frozen    b       trace_function: `frozen` flag of an input (b = borrowed/Inout)
  unpack_{tuple,struct,list}_child_frozen f   unpack_guppy_object, PER TYPE CASE: the flag handed to the
                          recursive calls for the elements (a call that omits it gets `false`)
  unpack_struct_frozen / unpack_list_frozen f   flag of the GuppyStructObject / whether the list
                          becomes a frozenlist
  setattr_outcome is_field frozen     GuppyStructObject.__setattr__
  frozen_overrides        methods defined by class frozenlist, with the shape of their body
(c, d, u = type copyable, type droppable, object's `_used` is set.)
"""
from __future__ import annotations

import ast
from pathlib import Path

from vlib import TranslatorError


def _fail(msg):
    raise TranslatorError("C22 translator: " + msg)


def _cls(mod, name):
    for n in mod.body:
        if isinstance(n, ast.ClassDef) and n.name == name:
            return n
    _fail(f"class {name} not found")


def _fn(scope, name):
    for n in scope.body:
        if isinstance(n, ast.FunctionDef) and n.name == name:
            return n
    _fail(f"function {name} not found in {getattr(scope, 'name', 'module')}")


def _strip_doc(body):
    if body and isinstance(body[0], ast.Expr) and isinstance(body[0].value, ast.Constant) and isinstance(body[0].value.value, str):
        return body[1:]
    return body


def cond(e, env, where):
    """Boolean expression over the atoms of `env` (keys are ast.unparse texts)."""
    txt = ast.unparse(e)
    if txt in env:
        return env[txt]
    if isinstance(e, ast.BoolOp):
        op = " && " if isinstance(e.op, ast.And) else " || "
        return "(" + op.join(cond(v, env, where) for v in e.values) + ")"
    if isinstance(e, ast.UnaryOp) and isinstance(e.op, ast.Not):
        return f"(negb {cond(e.operand, env, where)})"
    if isinstance(e, ast.Compare) and len(e.ops) == 1:
        l, r = ast.unparse(e.left), ast.unparse(e.comparators[0])
        if isinstance(e.ops[0], ast.NotIn) and f"{l} in {r}" in env:
            return f"(negb {env[f'{l} in {r}']})"
        if isinstance(e.ops[0], ast.IsNot) and r == "None" and l in env:
            return env[l]
        if isinstance(e.ops[0], ast.Is) and r == "None" and l in env:
            return f"(negb {env[l]})"
    if isinstance(e, ast.Constant) and isinstance(e.value, bool):
        return "true" if e.value else "false"
    if isinstance(e, ast.IfExp):
        return f"(if {cond(e.test, env, where)} then {cond(e.body, env, where)} else {cond(e.orelse, env, where)})"
    _fail(f"{where}: cannot read condition `{txt}`")


def _is_raise(s, exc):
    return (isinstance(s, ast.Raise) and isinstance(s.exc, ast.Call) and isinstance(s.exc.func, ast.Name)
            and s.exc.func.id == exc)


def _assigns_to(stmts, prefix):
    """targets (unparsed) assigned anywhere inside stmts whose text starts with prefix"""
    out = []
    for s in stmts:
        for n in ast.walk(s):
            if isinstance(n, (ast.Assign, ast.AugAssign, ast.AnnAssign)):
                tg = n.targets if isinstance(n, ast.Assign) else [n.target]
                out += [ast.unparse(t) for t in tg if ast.unparse(t).startswith(prefix)]
    return out


def _mentions(stmts, text):
    return any(text in ast.unparse(s) for s in stmts)


# ------------------------------------------------------------------------------ object.py
def tr_object(path: Path):
    mod = ast.parse(path.read_text())
    go = _cls(mod, "GuppyObject")
    out = {}
    # ---- __init__
    init = _fn(go, "__init__")
    body = _strip_doc(init.body)
    texts = [ast.unparse(s) for s in body[:-1]]
    want = ["self._ty = ty", "self._wire = wire", "self._used = used", "self._id = GuppyObjectId.fresh()",
            "state = get_tracing_state()"]
    if sorted(texts) != sorted(want):
        _fail(f"GuppyObject.__init__: unexpected statements {texts}")
    last = body[-1]
    if not (isinstance(last, ast.If) and not last.orelse and len(last.body) == 1
            and ast.unparse(last.body[0]) == "state.unused_undroppable_objs[self._id] = self"):
        _fail("GuppyObject.__init__: registration statement not recognised")
    env = {"ty.droppable": "d", "self._ty.droppable": "d", "ty.copyable": "c", "self._ty.copyable": "c",
           "self._used": "u", "used": "u"}
    out["init_registers"] = cond(last.test, env, "GuppyObject.__init__")
    # ---- _use_wire
    uw = _fn(go, "_use_wire")
    body = _strip_doc(uw.body)
    if not (len(body) == 2 and isinstance(body[0], ast.If) and ast.unparse(body[1]) == "return self._wire"):
        _fail("_use_wire: expected `if ...: raise ... else: mark` followed by `return self._wire`")
    iff = body[0]
    env = {"self._ty.droppable": "d", "self._ty.copyable": "c", "self._used": "u"}
    if not _is_raise(iff.body[-1], "GuppyComptimeError"):
        _fail("_use_wire: first branch does not end in `raise GuppyComptimeError(...)`")
    if _assigns_to(iff.body, "self.") or _mentions(iff.body, "unused_undroppable_objs"):
        _fail("_use_wire: the error branch changes the object or the tracing state")
    out["use_raises"] = cond(iff.test, env, "_use_wire")
    els = iff.orelse
    marks = [s for s in els if isinstance(s, ast.Assign) and ast.unparse(s.targets[0]) == "self._used"]
    if not (len(marks) == 1 and isinstance(marks[0].value, ast.Call) and ast.unparse(marks[0].value.func) == "ObjectUse"):
        _fail("_use_wire: `self._used = ObjectUse(...)` not found exactly once in the else branch")
    if _assigns_to(els, "self.") != ["self._used"]:
        _fail("_use_wire: else branch assigns other attributes of self")
    if any(isinstance(n, ast.Raise) for s in els for n in ast.walk(s)):
        _fail("_use_wire: else branch raises")
    pops = [s for s in els if isinstance(s, ast.If)]
    if not (len(pops) == 1 and els[-1] is pops[0] and not pops[0].orelse and els.index(marks[0]) < els.index(pops[0])):
        _fail("_use_wire: expected a single trailing `if ...: state.unused_undroppable_objs.pop(self._id)`")
    pb = [ast.unparse(s) for s in pops[0].body]
    if pb != ["state = get_tracing_state()", "state.unused_undroppable_objs.pop(self._id)"]:
        _fail(f"_use_wire: pop block not recognised: {pb}")
    if sum(_mentions([s], "unused_undroppable_objs") for s in els) != 1:
        _fail("_use_wire: tracing state touched outside the pop block")
    out["use_pops"] = cond(pops[0].test, env, "_use_wire")
    # ---- GuppyStructObject.__setattr__
    so = _cls(mod, "GuppyStructObject")
    sa = _fn(so, "__setattr__")
    if [a.arg for a in sa.args.args] != ["self", "key", "value"]:
        _fail("__setattr__: unexpected parameters")
    env = {"key in self._field_values": "is_field", "self._frozen": "frozen"}

    def stm(stmts, stored):
        if not stmts:
            return "SStored" if stored else "SNothing"
        s, rest = stmts[0], stmts[1:]
        if isinstance(s, ast.If):
            return (f"(if {cond(s.test, env, '__setattr__')} then {stm(s.body + rest, stored)} "
                    f"else {stm(s.orelse + rest, stored)})")
        if _is_raise(s, "GuppyComptimeError"):
            return "SRaiseFrozen" if not stored else _fail("__setattr__: raises after storing")
        if _is_raise(s, "AttributeError"):
            return "SRaiseAttr" if not stored else _fail("__setattr__: raises after storing")
        if isinstance(s, ast.Assign) and ast.unparse(s.targets[0]) == "err":
            return stm(rest, stored)
        if ast.unparse(s) == "self._field_values[key] = value":
            return stm(rest, True)
        _fail(f"__setattr__: unexpected statement `{ast.unparse(s)}`")
    out["setattr_outcome"] = stm(_strip_doc(sa.body), False)
    # struct objects must not offer other ways to rebind fields
    for n in so.body:
        if isinstance(n, ast.FunctionDef) and n.name not in ("__init__", "__setattr__") and _mentions([n], "_field_values["):
            if any(isinstance(x, (ast.Assign, ast.Delete, ast.AugAssign)) and "_field_values[" in ast.unparse(x)
                   for x in ast.walk(n)):
                _fail(f"GuppyStructObject.{n.name} writes to _field_values")
        if isinstance(n, ast.FunctionDef) and n.name in ("__delattr__", "__setitem__", "__delitem__", "__setstate__"):
            _fail(f"GuppyStructObject defines {n.name}, which is not modelled")
    ini = _fn(so, "__init__")
    its = [ast.unparse(s) for s in _strip_doc(ini.body)]
    if "object.__setattr__(self, '_frozen', frozen)" not in its:
        _fail("GuppyStructObject.__init__: `_frozen` is not initialised from the `frozen` parameter")
    return out


# --------------------------------------------------------------------------- unpacking.py
def _match_cases(fn):
    ms = [s for s in _strip_doc(fn.body) if isinstance(s, ast.Match)]
    if len(ms) != 1:
        _fail(f"{fn.name}: expected exactly one match statement")
    return ms[0].cases


def tr_unpacking(path: Path):
    mod = ast.parse(path.read_text())
    out = {}
    # ---- update_packed_value, GuppyObject case
    up = _fn(mod, "update_packed_value")
    case = None
    for c in _match_cases(up):
        if ast.unparse(c.pattern) == "GuppyObject() as v_obj":
            case = c
    if case is None:
        _fail("update_packed_value: `case GuppyObject() as v_obj` not found")
    body = case.body
    texts = [ast.unparse(s) for s in body]
    if not (len(body) == 4 and texts[0] == "assert v_obj._ty == obj._ty" and texts[1] == "v_obj._wire = obj._use_wire(None)"
            and isinstance(body[2], ast.If) and not body[2].orelse and texts[3] == "v_obj._used = None"):
        _fail(f"update_packed_value: GuppyObject case not recognised: {texts}")
    if [ast.unparse(s) for s in body[2].body] != ["state = get_tracing_state()", "state.unused_undroppable_objs[v_obj._id] = v_obj"]:
        _fail("update_packed_value: re-registration block not recognised")
    env = {"v_obj._ty.droppable": "d", "v_obj._ty.copyable": "c", "v_obj._used": "u"}
    out["upd_registers"] = cond(body[2].test, env, "update_packed_value")
    # ---- unpack_guppy_object: frozen propagation, PER TYPE CASE
    un = _fn(mod, "unpack_guppy_object")
    if [a.arg for a in un.args.args] != ["obj", "builder", "frozen"]:
        _fail("unpack_guppy_object: unexpected parameters")
    env = {"frozen": "f"}

    def frozen_arg(call, what):
        """third argument of a call (positional or `frozen=`); a call that leaves it out gets
        the parameter's default, which must be the constant False"""
        kws = {k.arg: k.value for k in call.keywords}
        if len(call.args) >= 3 and not kws:
            return cond(call.args[2], env, what)
        if len(call.args) == 2 and set(kws) == {"frozen"}:
            return cond(kws["frozen"], env, what)
        if len(call.args) == 2 and not kws:
            return "false"
        _fail(f"{what}: call shape not recognised: {ast.unparse(call)}")
    dflt = un.args.defaults
    if not (len(dflt) == 1 and isinstance(dflt[0], ast.Constant) and dflt[0].value is False):
        _fail("unpack_guppy_object: default of `frozen` is not False")
    cases = {}
    for c in _match_cases(un):
        pt = ast.unparse(c.pattern)
        gd = ast.unparse(c.guard) if c.guard is not None else ""
        if pt == "TupleType(element_types=tys)":
            cases["tuple"] = c
        elif pt == "StructType() as ty":
            cases["struct"] = c
        elif gd == "is_array_type(ty)":
            cases["list"] = c
        elif pt in ("NoneType()", "_"):
            if any(isinstance(n, ast.Call) and ast.unparse(n.func) in ("unpack_guppy_object", "GuppyStructObject", "frozenlist")
                   for s in c.body for n in ast.walk(s)):
                _fail(f"unpack_guppy_object: case `{pt}` builds containers")
        else:
            _fail(f"unpack_guppy_object: unknown case `{pt}`")
    if set(cases) != {"tuple", "struct", "list"}:
        _fail(f"unpack_guppy_object: cases found {sorted(cases)}")

    def uniq(s, what):
        if len(s) != 1:
            _fail(f"unpack_guppy_object: {what}: expected exactly one flag expression, got {sorted(s)}")
        return next(iter(s))
    for nm, c in cases.items():
        rec, struct, lst = set(), set(), set()
        for s in c.body:
            for n in ast.walk(s):
                if isinstance(n, ast.Call) and ast.unparse(n.func) == "unpack_guppy_object":
                    rec.add(frozen_arg(n, f"unpack_guppy_object/{nm}"))
                if isinstance(n, ast.Call) and ast.unparse(n.func) == "GuppyStructObject":
                    if nm != "struct":
                        _fail("unpack_guppy_object: GuppyStructObject built outside the struct case")
                    struct.add(frozen_arg(n, "GuppyStructObject(...)"))
                if isinstance(n, ast.Return) and n.value is not None and "obj_list" in ast.unparse(n.value):
                    v = n.value
                    if nm != "list":
                        _fail("unpack_guppy_object: list built outside the array case")
                    if isinstance(v, ast.IfExp) and ast.unparse(v.body) == "frozenlist(obj_list)" and ast.unparse(v.orelse) == "obj_list":
                        lst.add(cond(v.test, env, "unpack_guppy_object/list"))
                    elif ast.unparse(v) == "frozenlist(obj_list)":
                        lst.add("true")
                    elif ast.unparse(v) == "obj_list":
                        lst.add("false")
                    else:
                        _fail("unpack_guppy_object: list result not of the form `frozenlist(obj_list) if c else obj_list`")
        out[f"unpack_{nm}_child_frozen"] = uniq(rec, f"{nm} children")
        if nm == "struct":
            out["unpack_struct_frozen"] = uniq(struct, "struct object")
        if nm == "list":
            out["unpack_list_frozen"] = uniq(lst, "list object")
    return out


# ---------------------------------------------------------------------------- function.py
def tr_function(path: Path):
    mod = ast.parse(path.read_text())
    tf = _fn(mod, "trace_function")
    body = _strip_doc(tf.body)
    out = {}
    if not (len(body) == 4 and ast.unparse(body[0]).startswith("state = TracingState(") and isinstance(body[1], ast.With)
            and isinstance(body[2], ast.If) and ast.unparse(body[3]) == "builder.set_outputs(*regular_returns, *inout_returns)"):
        _fail("trace_function: expected `state = ...; with set_tracing_state(state): ...; if <leak>: raise; builder.set_outputs(...)`")
    leak = body[2]
    if leak.orelse or not _is_raise(leak.body[-1], "GuppyError"):
        _fail("trace_function: leak check does not raise GuppyError")
    env = {"state.unused_undroppable_objs": "ne", "len(state.unused_undroppable_objs) > 0": "ne",
           "len(state.unused_undroppable_objs) != 0": "ne"}
    out["leak_raises"] = cond(leak.test, env, "trace_function")
    # frozen flag of inputs
    fl = None
    for n in ast.walk(body[1]):
        if isinstance(n, ast.Call) and ast.unparse(n.func) == "unpack_guppy_object" and n.keywords:
            kw = {k.arg: k.value for k in n.keywords}
            if set(kw) != {"frozen"}:
                _fail("trace_function: unexpected keywords in unpack_guppy_object(...)")
            if ast.unparse(n.args[0]) != "GuppyObject(inp.ty, wire)":
                _fail("trace_function: inputs are not created as GuppyObject(inp.ty, wire)")
            fl = cond(kw["frozen"], {"InputFlags.Inout in inp.flags": "b"}, "trace_function")
    if fl is None:
        _fail("trace_function: `frozen=` for inputs not found")
    out["input_frozen"] = fl
    # every borrowed input is handed back through _use_wire
    src = ast.unparse(body[1])
    for needle in ("inout_returns.append(obj._use_wire(None))", "out_obj._use_wire(None)",
                   "obj = guppy_object_from_py(inout_obj, builder, node, ctx)",
                   "out_obj = guppy_object_from_py(py_out, builder, node, ctx)"):
        if needle not in src:
            _fail(f"trace_function: `{needle}` not found")
    return out


# -------------------------------------------------------------------------- frozenlist.py
def tr_frozenlist(path: Path):
    mod = ast.parse(path.read_text())
    for n in mod.body:
        if isinstance(n, (ast.Import, ast.ImportFrom)):
            continue
        if isinstance(n, ast.Assign) and ast.unparse(n.targets[0]) == "ERROR_MSG" and isinstance(n.value, ast.Constant):
            continue
        if isinstance(n, ast.ClassDef) and n.name == "frozenlist":
            continue
        _fail(f"frozenlist.py: unexpected top-level statement `{ast.unparse(n)[:60]}`")
    imp = [ast.unparse(n) for n in mod.body if isinstance(n, ast.ImportFrom)]
    if "from guppylang_internals.error import GuppyComptimeError" not in imp:
        _fail("frozenlist.py: GuppyComptimeError is not imported from guppylang_internals.error")
    cls = _cls(mod, "frozenlist")
    if [ast.unparse(b) for b in cls.bases] != ["list"] or cls.keywords or cls.decorator_list:
        _fail("frozenlist: bases/decorators changed")
    overrides, flag_default = [], None
    for n in _strip_doc(cls.body):
        if isinstance(n, (ast.Assign, ast.AnnAssign)):
            tgt = n.targets[0] if isinstance(n, ast.Assign) else n.target
            if ast.unparse(tgt) == "_initialised" and isinstance(n.value, ast.Constant) and n.value.value is False:
                flag_default = False
                continue
            _fail(f"frozenlist: unexpected class attribute `{ast.unparse(n)}`")
        if not isinstance(n, ast.FunctionDef) or n.decorator_list:
            _fail(f"frozenlist: unexpected member `{ast.unparse(n)[:60]}`")
        b = [ast.unparse(s) for s in _strip_doc(n.body)]
        if b == ["raise GuppyComptimeError(ERROR_MSG)"]:
            shape = "BRaise"
        elif b == ["return list(self)"]:
            shape = "BCopy"
        elif b == ["return self"]:
            shape = "BSelf"
        elif (n.name == "__init__" and len(b) == 3 and b[0] == "if self._initialised:\n    raise GuppyComptimeError(ERROR_MSG)"
              and b[1] == "super().__init__(*args, **kwargs)" and b[2] == "self._initialised = True"):
            shape = "BInitGuard"
        else:
            _fail(f"frozenlist.{n.name}: body not recognised: {b}")
        overrides.append((n.name, shape))
    if any(s == "BInitGuard" for _, s in overrides) and flag_default is not False:
        _fail("frozenlist: `_initialised = False` class default missing")
    if len({m for m, _ in overrides}) != len(overrides):
        _fail("frozenlist: a method is defined twice")
    return overrides


SPEC = {"init_registers": "((negb d) && (negb u))", "use_raises": "(u && (negb c))", "use_pops": "(negb d)",
        "upd_registers": "((negb d) && u)", "leak_raises": "ne", "input_frozen": "(negb b)",
        "unpack_tuple_child_frozen": "f", "unpack_struct_child_frozen": "f", "unpack_list_child_frozen": "f",
        "unpack_struct_frozen": "f", "unpack_list_frozen": "f",
        "setattr_outcome": "(if is_field then (if frozen then SRaiseFrozen else SStored) else SRaiseAttr)"}


def render(o, ov, mutators, list_callables, header="GENERATED by props/C22/tr_tracing.py from /repo's tracing package"):
    L = [f"(* {header} -- do not edit *)",
         "From Coq Require Import Bool List String.", "Import ListNotations. Local Open Scope string_scope.", "",
         "Inductive sres := SRaiseFrozen | SRaiseAttr | SStored | SNothing.",
         "Inductive body := BRaise | BCopy | BSelf | BInitGuard.", ""]
    for nm in ("init_registers", "use_raises", "use_pops", "upd_registers"):
        L.append(f"Definition {nm} (c d u : bool) : bool := {o[nm]}.")
    L.append(f"Definition leak_raises (ne : bool) : bool := {o['leak_raises']}.")
    L.append(f"Definition input_frozen (b : bool) : bool := {o['input_frozen']}.")
    for nm in ("unpack_tuple_child_frozen", "unpack_struct_child_frozen", "unpack_list_child_frozen",
               "unpack_struct_frozen", "unpack_list_frozen"):
        L.append(f"Definition {nm} (f : bool) : bool := {o[nm]}.")
    L.append(f"Definition setattr_outcome (is_field frozen : bool) : sres := {o['setattr_outcome']}.")
    L.append("")
    L.append("(* methods defined by class frozenlist(list), with the shape of their body *)")
    L.append("Definition frozen_overrides : list (string * body) := [" + "; ".join(f'("{m}", {s})' for m, s in ov) + "].")
    L.append("(* in-place mutators of CPython's list: callable attributes of `list` for which some probe call changed a sample list *)")
    L.append("Definition list_mutators : list string := [" + "; ".join(f'"{m}"' for m, _ in mutators) + "].")
    L.append("(* all callable attributes of `list` that were probed *)")
    L.append("Definition list_callables : list string := [" + "; ".join(f'"{m}"' for m in list_callables) + "].")
    return "\n".join(L) + "\n"


def translate(int_src, mutators, list_callables):
    """int_src(rel) -> Path; mutators: [(name, witness-args-text)], list_callables: [name]"""
    o = {}
    o.update(tr_object(int_src("tracing/object.py")))
    o.update(tr_unpacking(int_src("tracing/unpacking.py")))
    o.update(tr_function(int_src("tracing/function.py")))
    ov = tr_frozenlist(int_src("tracing/frozenlist.py"))
    return render(o, ov, mutators, list_callables), o, ov
