"""C17 translator: reads the integer-literal paths of /repo and emits coq/C17/GenLit.v.

Sources (all fail-closed; any unknown shape raises TranslatorError):
  tys/ty.py                        NumericType.INT_WIDTH
  checker/expr_checker.py          _int_bounds_check, python_value_to_guppy_type (int cases)
  compiler/expr_compiler.py        python_value_to_hugr (int case)
  std/_internal/compiler/arithmetic.py   UnsignedIntVal.__post_init__ / to_value
  cfg/builder.py                   ExprBuilder.visit_UnaryOp (folding of `-<const>`)

Reading conventions: compiler-side Python ints are exact Z; `1 << k` is Z.shiftl; locals of
_int_bounds_check become top-level definitions parameterised by the function parameters they
depend on (so closed ones can be evaluated by vm_compute whatever their syntactic shape).
"""
import ast

from tr_common import ExprTr, HEADER, TranslatorError, find_class, find_func, parse_file, strip_doc


def _u(n):
    return ast.unparse(n)


# ---------------------------------------------------------------------------------------
def int_width(ty_mod):
    cls = find_class(ty_mod, "NumericType")
    for n in cls.body:
        if isinstance(n, ast.AnnAssign) and isinstance(n.target, ast.Name) and n.target.id == "INT_WIDTH":
            if isinstance(n.value, ast.Constant) and type(n.value.value) is int:
                return n.value.value
        if isinstance(n, ast.Assign) and _u(n.targets[0]) == "INT_WIDTH":
            if isinstance(n.value, ast.Constant) and type(n.value.value) is int:
                return n.value.value
    raise TranslatorError("NumericType.INT_WIDTH is not an integer constant")


# ---------------------------------------------------------------------------------------
class SymEnv:
    """Straight-line code with assignments and assignment-only if/else, executed symbolically:
    every local becomes a top-level Coq definition over the parameters it depends on."""

    def __init__(self, prefix, params, consts):
        self.prefix, self.params = prefix, params           # params: name -> type
        self.consts = consts                                 # dotted python name -> (term, type)
        self.locals = {}                                     # name -> (coq name, type, deps tuple)
        self.defs = []
        self.counter = {}

    def tr(self):
        env = dict(self.consts)
        for p, ty in self.params.items():
            env[p] = (p, ty)
        for l, (cn, ty, deps) in self.locals.items():
            env[l] = ("(" + " ".join([cn] + list(deps)) + ")" if deps else cn, ty)
        return ExprTr(env=env)

    def deps_of(self, e):
        used = {n.id for n in ast.walk(e) if isinstance(n, ast.Name)}
        deps = set()
        for u in used:
            if u in self.locals:
                deps |= set(self.locals[u][2])
            elif u in self.params:
                deps.add(u)
        return tuple(p for p in self.params if p in deps)

    def define(self, name, term, ty, deps):
        k = self.counter.get(name, 0)
        self.counter[name] = k + 1
        cn = f"{self.prefix}_{name}" + (f"_{k}" if k else "")
        args = " ".join(f"({d} : {self.params[d]})" for d in deps)
        self.defs.append(f"Definition {cn} {args} : {ty} := {term}.".replace("  :", " :"))
        self.locals[name] = (cn, ty, deps)

    def assign(self, s):
        if not (isinstance(s, ast.Assign) and len(s.targets) == 1 and isinstance(s.targets[0], ast.Name)):
            raise TranslatorError(f"unsupported statement `{_u(s)[:70]}`")
        term, ty = self.tr().expr(s.value)
        self.define(s.targets[0].id, term, ty, self.deps_of(s.value))

    def branch_assigns(self, stmts):
        out = {}
        snapshot = dict(self.locals)
        for s in stmts:
            if not (isinstance(s, ast.Assign) and len(s.targets) == 1 and isinstance(s.targets[0], ast.Name)):
                raise TranslatorError(f"branch may only assign: `{_u(s)[:70]}`")
            if any(isinstance(n, ast.Name) and n.id in out for n in ast.walk(s.value)):
                raise TranslatorError("branch-local dependency between assignments is not supported")
            term, ty = self.tr().expr(s.value)
            out[s.targets[0].id] = (term, ty, self.deps_of(s.value))
        self.locals = snapshot
        return out

    def if_assign(self, s):
        c, tc = self.tr().expr(s.test)
        if tc != "bool":
            raise TranslatorError(f"condition `{_u(s.test)}` is not boolean")
        cdeps = self.deps_of(s.test)
        a, b = self.branch_assigns(s.body), self.branch_assigns(s.orelse)
        if set(a) != set(b) or not a:
            raise TranslatorError("if/else branches must assign the same non-empty set of variables")
        for name in a:
            (ta, tya, da), (tb, tyb, db) = a[name], b[name]
            if tya != tyb:
                raise TranslatorError(f"branches give {name} different types")
            deps = tuple(p for p in self.params if p in set(cdeps) | set(da) | set(db))
            self.define(name, f"if {c} then {ta} else {tb}", tya, deps)


def tr_int_bounds_check(chk_mod, width_term):
    f = find_func(chk_mod, "_int_bounds_check")
    params = [a.arg for a in f.args.args]
    if params != ["value", "node", "signed"] or f.args.vararg or f.args.kwonlyargs or f.args.defaults:
        raise TranslatorError(f"_int_bounds_check signature changed: {params}")
    env = SymEnv("ibc", {"value": "Z", "signed": "bool"}, {"NumericType.INT_WIDTH": (width_term, "Z")})
    body = strip_doc(f.body)
    if not body:
        raise TranslatorError("_int_bounds_check has no body")
    *pre, last = body
    for s in pre:
        if isinstance(s, ast.If):
            env.if_assign(s)
        else:
            env.assign(s)
    # final statement: if <cond>: [err = IntOverflowError(node, signed, bits, underflow)]; raise GuppyTypeError(err)
    if not (isinstance(last, ast.If) and not last.orelse):
        raise TranslatorError("_int_bounds_check must end with `if <out of range>: raise ...`")
    cond, tc = env.tr().expr(last.test)
    if tc != "bool":
        raise TranslatorError("range condition is not boolean")
    stmts = list(last.body)
    err_call = None
    if len(stmts) == 2 and isinstance(stmts[0], ast.Assign) and isinstance(stmts[1], ast.Raise):
        en = _u(stmts[0].targets[0])
        r = stmts[1].exc
        if not (isinstance(r, ast.Call) and _u(r.func) == "GuppyTypeError" and len(r.args) == 1 and _u(r.args[0]) == en):
            raise TranslatorError(f"raise shape: `{_u(stmts[1])}`")
        err_call = stmts[0].value
    elif len(stmts) == 1 and isinstance(stmts[0], ast.Raise):
        r = stmts[0].exc
        if isinstance(r, ast.Call) and _u(r.func) == "GuppyTypeError" and len(r.args) == 1:
            err_call = r.args[0]
    if not (isinstance(err_call, ast.Call) and _u(err_call.func) == "IntOverflowError" and len(err_call.args) == 4
            and not err_call.keywords and _u(err_call.args[0]) == "node"):
        raise TranslatorError("expected `IntOverflowError(node, signed, bits, is_underflow)`")
    tr = env.tr()
    (sg, t1), (bits, t2), (under, t3) = (tr.expr(a) for a in err_call.args[1:])
    if (t1, t2, t3) != ("bool", "Z", "bool"):
        raise TranslatorError(f"IntOverflowError argument types {(t1, t2, t3)}")
    out = env.defs + [
        "Definition int_bounds_check (value : Z) (signed : bool) : res unit :=\n"
        f"  if {cond}\n  then Raise (IntOverflowError {sg} {bits} {under})\n  else Ok tt."]
    names = {k: v[0] for k, v in env.locals.items()}
    return "\n".join(out), names


# ---------------------------------------------------------------------------------------
def _class_pat(p, names):
    return isinstance(p, ast.MatchClass) and _u(p.cls) in names and not p.kwd_patterns


def _find_match(f, subject):
    ms = [s for s in strip_doc(f.body) if isinstance(s, ast.Match)]
    if len(ms) != 1 or _u(ms[0].subject) != subject:
        raise TranslatorError(f"{f.name}: expected exactly one `match {subject}`")
    return ms[0]


class _HintRewrite(ast.NodeTransformer):
    """`type_hint == nat_type()`  ->  the boolean model parameter `hint_is_nat`."""

    def visit_Compare(self, node):
        if _u(node) in ("type_hint == nat_type()", "nat_type() == type_hint"):
            return ast.copy_location(ast.Name(id="hint_is_nat", ctx=ast.Load()), node)
        return self.generic_visit(node)


def tr_value_to_type(chk_mod):
    f = find_func(chk_mod, "python_value_to_guppy_type")
    params = [a.arg for a in f.args.args]
    if params[:1] != ["v"] or "type_hint" not in params:
        raise TranslatorError(f"python_value_to_guppy_type signature changed: {params}")
    m = _find_match(f, "v")
    branches, seen_int = [], False
    for case in m.cases:
        p = case.pattern
        is_int = isinstance(p, ast.MatchClass) and _u(p.cls) == "int"
        if not is_int:
            if seen_int:
                break_ok = True   # cases after the int cases can never see an int: the last int case must be unguarded
                continue
            # before the int cases only patterns that no (non-bool) int matches are allowed
            if _class_pat(p, {"bool", "str"}) and not p.patterns and case.guard is None:
                continue
            raise TranslatorError(f"python_value_to_guppy_type: case `{_u(p)}` precedes the int cases")
        seen_int = True
        if branches and branches[-1][0] is None:
            continue  # unreachable: an unguarded int case already matched
        if not (len(p.patterns) == 1 and isinstance(p.patterns[0], ast.MatchAs) and p.patterns[0].pattern is None
                and p.patterns[0].name and not p.kwd_patterns):
            raise TranslatorError(f"int case pattern `{_u(p)}`")
        var = p.patterns[0].name
        tr = ExprTr(env={var: ("n", "Z"), "hint_is_nat": ("hint_is_nat", "bool")})
        guard = None
        if case.guard is not None:
            g = _HintRewrite().visit(ast.parse(_u(case.guard), mode="eval").body)
            guard, tg = tr.expr(g)
            if tg != "bool":
                raise TranslatorError("int case guard is not boolean")
        body = list(case.body)
        if not (len(body) == 2 and isinstance(body[0], ast.Expr) and isinstance(body[0].value, ast.Call)
                and isinstance(body[1], ast.Return)):
            raise TranslatorError(f"int case body: `{_u(case)[:120]}`")
        call = body[0].value
        kw = {k.arg: k.value for k in call.keywords}
        if not (_u(call.func) == "_int_bounds_check" and len(call.args) == 2 and _u(call.args[0]) == var
                and _u(call.args[1]) == "node" and set(kw) == {"signed"} and isinstance(kw["signed"], ast.Constant)
                and isinstance(kw["signed"].value, bool)):
            raise TranslatorError(f"expected `_int_bounds_check({var}, node, signed=<bool>)`, found `{_u(call)}`")
        signed = "true" if kw["signed"].value else "false"
        ret = {"nat_type()": "KNat", "int_type()": "KInt"}.get(_u(body[1].value))
        if ret is None:
            raise TranslatorError(f"int case returns `{_u(body[1].value)}`")
        branches.append((guard, f"bind (int_bounds_check n {signed}) (fun _ => Ok {ret})"))
    if not branches or branches[-1][0] is not None:
        raise TranslatorError("python_value_to_guppy_type: no unguarded `case int(n)`")
    term = branches[-1][1]
    for g, t in reversed(branches[:-1]):
        term = f"if {g}\n  then {t}\n  else {term}"
    return f"Definition literal_type (hint_is_nat : bool) (n : Z) : res kind :=\n  {term}."


def tr_value_to_hugr(cmp_mod, width_term):
    f = find_func(cmp_mod, "python_value_to_hugr")
    params = [a.arg for a in f.args.args]
    if params[:2] != ["v", "exp_ty"]:
        raise TranslatorError(f"python_value_to_hugr signature changed: {params}")
    m = _find_match(f, "v")
    for case in m.cases:
        p = case.pattern
        if isinstance(p, ast.MatchClass) and _u(p.cls) == "int":
            if p.patterns or p.kwd_patterns or case.guard is not None:
                raise TranslatorError(f"python_value_to_hugr int case pattern `{_u(p)}`")
            break
        if _class_pat(p, {"bool", "str"}) and not p.patterns and case.guard is None:
            continue
        raise TranslatorError(f"python_value_to_hugr: case `{_u(p)}` precedes the int case")
    else:
        raise TranslatorError("python_value_to_hugr: no `case int()`")
    body = [s for s in case.body if not isinstance(s, ast.Assert)]
    if not (len(body) == 1 and isinstance(body[0], ast.Match) and _u(body[0].subject) == "exp_ty.kind"):
        raise TranslatorError("python_value_to_hugr int case must `match exp_ty.kind`")
    arms = {}
    for c in body[0].cases:
        pat = _u(c.pattern)
        if pat == "_":
            if not isinstance(c.body[0], ast.Raise):
                raise TranslatorError("default kind case must raise")
            continue
        k = {"NumericType.Kind.Nat": "KNat", "NumericType.Kind.Int": "KInt"}.get(pat)
        if k is None or c.guard is not None or k in arms:
            raise TranslatorError(f"kind case `{pat}`")
        if not (len(c.body) == 1 and isinstance(c.body[0], ast.Return) and isinstance(c.body[0].value, ast.Call)):
            raise TranslatorError(f"kind case body `{_u(c)[:100]}`")
        call = c.body[0].value
        ctor = {"UnsignedIntVal": "UnsignedIntVal", "hugr.std.int.IntVal": "IntVal", "IntVal": "IntVal"}.get(_u(call.func))
        kw = {x.arg: _u(x.value) for x in call.keywords}
        if ctor is None or len(call.args) != 1 or _u(call.args[0]) != "v" or kw != {"width": "NumericType.INT_WIDTH"}:
            raise TranslatorError(f"constant constructor `{_u(call)}`")
        arms[k] = f"{ctor} v {width_term}"
    if set(arms) != {"KNat", "KInt"}:
        raise TranslatorError(f"python_value_to_hugr handles kinds {sorted(arms)}")
    return ("Definition literal_hugr (k : kind) (v : Z) : hconst :=\n"
            f"  match k with KNat => {arms['KNat']} | KInt => {arms['KInt']} end.")


def tr_unsigned_val(ar_mod):
    cls = find_class(ar_mod, "UnsignedIntVal")
    fields = [(n.target.id, _u(n.annotation)) for n in cls.body if isinstance(n, ast.AnnAssign)]
    if fields != [("v", "int"), ("width", "int")]:
        raise TranslatorError(f"UnsignedIntVal fields {fields}")
    tr = ExprTr(env={"self.v": ("v", "Z"), "self.width": ("width", "Z")})
    pi = strip_doc(find_func(cls, "__post_init__").body)
    if not (len(pi) == 1 and isinstance(pi[0], ast.Assert)):
        raise TranslatorError("UnsignedIntVal.__post_init__ shape")
    c, tc = tr.expr(pi[0].test)
    tv = strip_doc(find_func(cls, "to_value").body)
    if not (len(tv) == 2 and isinstance(tv[0], ast.Assign) and _u(tv[0].targets[0]) == "payload"
            and isinstance(tv[0].value, ast.Dict) and isinstance(tv[1], ast.Return)):
        raise TranslatorError("UnsignedIntVal.to_value shape")
    d = {ast.literal_eval(k): v for k, v in zip(tv[0].value.keys, tv[0].value.values)}
    if set(d) != {"log_width", "value"}:
        raise TranslatorError(f"payload keys {sorted(d)}")
    ret = tv[1].value
    kw = {x.arg: _u(x.value) for x in ret.keywords} if isinstance(ret, ast.Call) else {}
    if not (isinstance(ret, ast.Call) and _u(ret.func) == "val.Extension" and [_u(a) for a in ret.args] == ["'ConstInt'"]
            and kw == {"typ": "int_t(self.width)", "val": "payload"}):
        raise TranslatorError(f"UnsignedIntVal.to_value returns `{_u(ret)}`")
    (lw, t1), (vv, t2) = tr.expr(d["log_width"]), tr.expr(d["value"])
    if (tc, t1, t2) != ("bool", "Z", "Z"):
        raise TranslatorError("UnsignedIntVal expression types")
    # to_model: the text/binary envelope serialisation
    tm = strip_doc(find_func(cls, "to_model").body)
    if not (len(tm) == 1 and isinstance(tm[0], ast.Return) and isinstance(tm[0].value, ast.Call)
            and _u(tm[0].value.func) == "model.Apply" and len(tm[0].value.args) == 2 and not tm[0].value.keywords
            and _u(tm[0].value.args[0]) == "'arithmetic.int.const'" and isinstance(tm[0].value.args[1], ast.List)
            and len(tm[0].value.args[1].elts) == 2):
        raise TranslatorError("UnsignedIntVal.to_model shape")
    margs = []
    for a in tm[0].value.args[1].elts:
        if not (isinstance(a, ast.Call) and _u(a.func) == "model.Literal" and len(a.args) == 1 and not a.keywords):
            raise TranslatorError(f"UnsignedIntVal.to_model argument `{_u(a)}`")
        t, ty = tr.expr(a.args[0])
        if ty != "Z":
            raise TranslatorError("UnsignedIntVal.to_model argument type")
        margs.append(t)
    return (f"Definition unsigned_model (v width : Z) : Z * Z := ({margs[0]}, {margs[1]}).  (* arithmetic.int.const <log_width> <value> *)\n"
            f"Definition unsigned_post_init (v width : Z) : res unit := if {c} then Ok tt else Raise AssertionError.\n"
            f"Definition unsigned_payload (v width : Z) : Z * Z := ({lw}, {vv}).  (* (log_width, value) of ConstInt *)")


def tr_neg_fold(bld_mod):
    cls = find_class(bld_mod, "ExprBuilder")
    f = find_func(cls, "visit_UnaryOp")
    body = strip_doc(f.body)
    if not (len(body) == 1 and isinstance(body[0], ast.Match) and _u(body[0].subject) in ("(node.op, node.operand)", "node.op, node.operand")):
        raise TranslatorError("ExprBuilder.visit_UnaryOp must be a single `match node.op, node.operand`")
    cases = body[0].cases
    if len(cases) != 2 or _u(cases[1].pattern) != "_" or _u(cases[1].body[0]) != "return self.generic_visit(node)":
        raise TranslatorError("ExprBuilder.visit_UnaryOp: expected one folding case and a generic_visit default")
    c = cases[0]
    p = c.pattern
    ok = (isinstance(p, ast.MatchSequence) and len(p.patterns) == 2 and c.guard is None
          and _class_pat(p.patterns[0], {"ast.USub"}) and not p.patterns[0].patterns)
    if not ok:
        raise TranslatorError(f"folding pattern `{_u(p)}`")
    # operand pattern: `ast.Constant(value=float(v) | int(v))`, optionally `... as const`
    inner, cname = p.patterns[1], None
    if isinstance(inner, ast.MatchAs) and inner.pattern is not None:
        cname, inner = inner.name, inner.pattern
    if not (isinstance(inner, ast.MatchClass) and _u(inner.cls) == "ast.Constant" and not inner.patterns
            and inner.kwd_attrs == ["value"]):
        raise TranslatorError(f"folding pattern `{_u(p)}`")
    vp = inner.kwd_patterns[0]
    alts = vp.patterns if isinstance(vp, ast.MatchOr) else [vp]
    var = None
    for a in alts:
        if not (isinstance(a, ast.MatchClass) and _u(a.cls) in ("int", "float") and len(a.patterns) == 1
                and isinstance(a.patterns[0], ast.MatchAs) and a.patterns[0].pattern is None):
            raise TranslatorError(f"constant value pattern `{_u(vp)}`")
        if _u(a.cls) == "int":
            var = a.patterns[0].name
    if var is None:
        raise TranslatorError("folding pattern does not cover int constants")
    b = c.body
    value_expr = None
    if (cname and len(b) == 2 and isinstance(b[0], ast.Assign) and _u(b[0].targets[0]) == f"{cname}.value"
            and _u(b[1]) == f"return with_loc(node, {cname})"):
        value_expr = b[0].value                      # in-place: const.value = <e>; return with_loc(node, const)
    elif len(b) == 1 and isinstance(b[0], ast.Return) and isinstance(b[0].value, ast.Call) \
            and _u(b[0].value.func) == "with_loc" and len(b[0].value.args) == 2 and _u(b[0].value.args[0]) == "node":
        k = b[0].value.args[1]                       # fresh node: return with_loc(node, ast.Constant(value=<e>))
        if isinstance(k, ast.Call) and _u(k.func) == "ast.Constant" and not k.args and [x.arg for x in k.keywords] == ["value"]:
            value_expr = k.keywords[0].value
    if value_expr is None:
        raise TranslatorError(f"folding body `{_u(c)[:160]}`")
    t, ty = ExprTr(env={var: ("v", "Z")}).expr(value_expr)
    if ty != "Z":
        raise TranslatorError("folded value is not an integer expression")
    return ("(* Some c: the UnaryOp node is replaced by the constant c (children not visited);\n"
            "   None: generic_visit (children rebuilt, node kept) *)\n"
            "Definition fold_unaryop (op : unop) (operand : lexpr) : option lexpr :=\n"
            f"  match op, operand with\n  | USub, LConst v => Some (LConst {t})\n  | _, _ => None\n  end.")


def tr_typed_path(chk_mod):
    """ExprChecker.check: the early path for expressions that already carry a type must only match the
    stored type against the target (check_type_against) — no other rule, in particular nothing that
    re-types an ast.Constant."""
    cls = find_class(chk_mod, "ExprChecker")
    f = find_func(cls, "check")
    params = [a.arg for a in f.args.args]
    if params != ["self", "expr", "ty", "kind"]:
        raise TranslatorError(f"ExprChecker.check signature changed: {params}")
    body = strip_doc(f.body)
    first = body[0] if body else None
    if not (isinstance(first, ast.If) and not first.orelse and _u(first.test) == "(actual := get_type_opt(expr))"):
        raise TranslatorError("ExprChecker.check does not start with `if actual := get_type_opt(expr):`")
    b = first.body
    shape = [
        "expr, subst, inst = check_type_against(actual, ty, expr, self.ctx, kind)",
        "if inst:\n    expr = with_loc(expr, TypeApply(value=expr, tys=inst))",
        "return (with_type(ty.substitute(subst), expr), subst)",
    ]
    # the keyword under which the instantiation is stored in the TypeApply node is irrelevant to
    # literal typing (`tys=` was a defect of the pinned tree, repaired as `inst=`)
    got = [_u(x).replace("TypeApply(value=expr, inst=inst)", "TypeApply(value=expr, tys=inst)") for x in b]
    if got != shape:
        extra = [g for g in got if g not in shape]
        raise TranslatorError("ExprChecker.check: the already-typed path is no longer just check_type_against "
                              f"(a constant must be typed once): unexpected `{(extra or got)[0][:160]}`")
    return ("(* ExprChecker.check, path for expressions that already have a type: the stored type is matched\n"
            "   against the target, nothing else *)\n"
            "Definition check_typed (actual ty : kind) : res kind := check_type_against actual ty.")


def translate(ctx) -> str:
    ty_mod = parse_file(ctx.int_src("tys/ty.py"))
    chk = parse_file(ctx.int_src("checker/expr_checker.py"))
    cmp_ = parse_file(ctx.int_src("compiler/expr_compiler.py"))
    ar = parse_file(ctx.int_src("std/_internal/compiler/arithmetic.py"))
    bld = parse_file(ctx.int_src("cfg/builder.py"))
    w = int_width(ty_mod)
    ibc, names = tr_int_bounds_check(chk, "INT_WIDTH")
    parts = [
        HEADER.format(src="tys/ty.py, checker/expr_checker.py, compiler/expr_compiler.py, std/_internal/compiler/arithmetic.py, cfg/builder.py",
                      tool="props/C17/tr_lit.py"),
        "From Coq Require Import ZArith Bool.\nFrom V.C17 Require Import ModelBase.\nOpen Scope Z_scope.\n",
        f"(* NumericType.INT_WIDTH *)\nDefinition INT_WIDTH : Z := ({w})%Z.\n",
        "(* _int_bounds_check: locals as definitions, then the range test *)\n" + ibc + "\n",
        "(* python_value_to_guppy_type, the `int` cases (bool()/str() cases precede them) *)\n" + tr_value_to_type(chk) + "\n",
        tr_typed_path(chk) + "\n",
        "(* python_value_to_hugr, `case int()` *)\n" + tr_value_to_hugr(cmp_, "INT_WIDTH") + "\n",
        "(* UnsignedIntVal.__post_init__ and .to_value *)\n" + tr_unsigned_val(ar) + "\n",
        "(* ExprBuilder.visit_UnaryOp *)\n" + tr_neg_fold(bld) + "\n",
    ]
    for need in ("max_v", "min_v"):
        if need not in names:
            raise TranslatorError(f"_int_bounds_check no longer defines {need}")
    parts.append(f"(* names the proofs refer to *)\nNotation ibc_MAX := {names['max_v']}.\nNotation ibc_MIN := {names['min_v']}.\n")
    return "\n".join(parts)
