"""C17 — integer literals are range-checked and preserved exactly.
Tie: T (translator tr_lit.py -> coq/C17/GenLit.v) + translator validation + X on programs.

1. regenerate GenLit.v from the five /repo sources (fail-closed);
2. re-check the theorems of coq/C17/Props.v against the regenerated definitions;
3. translator validation: the generated leaf functions evaluated in Coq vs the real
   _int_bounds_check / python_value_to_guppy_type / python_value_to_hugr(+to_value/to_model) /
   ExprBuilder.visit_UnaryOp called directly on the same integers;
4. X on whole programs: one @guppy function per (syntactic position, type, value); the real
   check()/compile_function() verdict, diagnostic and ConstInt payloads in the serialised HUGR
   are compared with (a) the Coq pipeline compile_expr/compile_const/compile_synth and (b) the
   specification written here in Python integers (range per type, payload = v mod 2^64);
5. any spec-vs-implementation difference is the concrete failing input (replay = program)."""
import json

import vlib
from vlib import proof_coverage

LEVEL = "proof"
M63, M64 = 1 << 63, 1 << 64
RANGE = {"int": (-M63, M63 - 1), "nat": (0, M64 - 1)}
SCALAR_POS = ["return", "assign", "arg", "comptime", "comptime_expr", "comptime_neg", "synth"]
STRUCT_POS = ["tuple", "comptime_tuple", "comptime_array", "comptime_nested"]
OPERAND_POS = ["binop", "compare", "augassign", "generic"]   # constant synthesised before it meets a parameter type


def generate(ctx):
    import tr_lit
    ctx.gen("GenLit.v", tr_lit.translate(ctx))


# ---------------------------------------------------------------------------------------
# specification side (Python integers; independent of the code and of the Coq model)
def spec_program(case):
    tys, vals = case["tys"], case["vals"]
    if case["pos"] in OPERAND_POS:
        return spec_operand(case)
    if case["pos"] == "comptime_array":
        leaf_tys = [tys[0]] * len(vals)
    elif case["pos"] == "comptime_nested":
        leaf_tys = [tys[0]] + [tys[1]] * (len(vals) - 1)
    else:
        leaf_tys = tys
    if case["pos"] == "synth" and tys[0] != "int":
        return ["err", "TypeMismatchError"] if RANGE["int"][0] <= vals[0] <= RANGE["int"][1] else ["err", "IntOverflowError"]
    ok = all(RANGE[t][0] <= v <= RANGE[t][1] for t, v in zip(leaf_tys, vals))
    if ok:
        return ["ok", sorted([6, v % M64] for v in vals)]
    if len(vals) == 1:
        t, v = leaf_tys[0], vals[0]
        if t == "nat" and -M63 <= v < 0:
            return ["err", "TypeMismatchError"]
        signed = t == "int" or v < 0
        return ["err", "IntOverflowError", {"signed": signed, "bits": 64, "is_underflow": v < 0}]
    return ["err", None]


def spec_operand(case):
    """Operand / augmented assignment / generic argument: the constant has no hint, so it is an int:
    outside [-2^63, 2^63-1] it is rejected with a signed IntOverflowError whatever the other operand is;
    inside, the expression may still be ill-typed (any Guppy type error), but if check() accepts it then
    compilation succeeds and the HUGR holds the signed constant IntVal with exactly that value."""
    v = case["vals"][0]
    if RANGE["int"][0] <= v <= RANGE["int"][1]:
        return ["operand-ok", [6, v % M64]]
    return ["err", "IntOverflowError", {"signed": True, "bits": 64, "is_underflow": v < 0}]


def same_verdict(spec, impl):
    if spec[0] == "operand-ok":
        if impl[0] == "err":
            return impl[1] != "IntOverflowError"
        return impl[0] == "ok" and spec[1] in impl[1] and ["IntVal"] + spec[1] in impl[3]
    if spec[0] == "ok":
        return impl[0] == "ok" and impl[1] == spec[1] and (not impl[2] or all(p in spec[1] for p in impl[2]))
    if impl[0] != "err":
        return False
    if len(spec) > 1 and spec[1] is not None and spec[1] != impl[1]:
        return False
    if len(spec) > 2 and impl[1] == "IntOverflowError":
        return all(impl[2].get(k) == v for k, v in spec[2].items())
    return True


# ---------------------------------------------------------------------------------------
def values(r, n_random, full):
    b = [0, 1, 255, M63 - 1, M63, M63 + 1, M64 - 1, M64, (1 << 100) + 7]
    if full:
        b += [2, 1 << 31, 1 << 32, (1 << 53) + 1, M63 - 2, M64 - 2, M64 + 1, 1 << 65, 10 ** 30]
    vs = b + [-x for x in b if x]
    hist = {"boundary": len(vs)}
    for _ in range(n_random):
        bits = r.randrange(0, 131)
        v = r.getrandbits(bits) if bits else 0
        if r.random() < 0.5:
            v = -v
        vs.append(v)
        k = "random |v|<2^31" if abs(v) < 1 << 31 else "random 2^31<=|v|<2^62" if abs(v) < 1 << 62 else \
            "random 2^62<=|v|<2^65" if abs(v) < 1 << 65 else "random |v|>=2^65"
        hist[k] = hist.get(k, 0) + 1
    near = []
    for _ in range(n_random // 2):
        c = r.choice([M63, -M63, M64, 0])
        near.append(c + r.randrange(-3, 4))
    hist["random within 3 of 0/±2^63/2^64"] = len(near)
    return vs + near, hist


def program_cases(r, vs, n_struct, nb):
    cases = []
    for i, v in enumerate(vs):
        for j, pos in enumerate(SCALAR_POS):
            # every value in every scalar position at one type; both types for boundary values
            tys = ["int", "nat"] if i < nb else [["int", "nat"][(i + j) % 2]]
            for t in tys:
                if pos == "comptime_neg" and v > 0:
                    continue
                cases.append({"pos": pos, "tys": [t], "vals": [v]})
    good = [v for v in vs if -M63 <= v <= M64 - 1]
    for _ in range(n_struct):
        pos = r.choice(STRUCT_POS)
        n = r.randrange(2, 5)
        tys = [r.choice(["int", "nat"]) for _ in range(n)] if pos in ("tuple", "comptime_tuple") else \
            [r.choice(["int", "nat"])] if pos == "comptime_array" else [r.choice(["int", "nat"]), r.choice(["int", "nat"])]
        if r.random() < 0.6:   # mostly valid: every leaf in the range of its type
            lt = tys if len(tys) == n else ([tys[0]] * n if pos == "comptime_array" else [tys[0]] + [tys[1]] * (n - 1))
            vals = [r.choice([v for v in good if RANGE[t][0] <= v <= RANGE[t][1]]) for t in lt]
        else:
            vals = [r.choice(vs) for _ in range(n)]
        cases.append({"pos": pos, "tys": tys, "vals": vals})
    cases += operand_cases(r, vs, n_struct)
    for k, c in enumerate(cases):
        c["id"] = k
    return cases


def operand_cases(r, vs, n_random):
    key = [-1, 1, 0, -3, -M63, M63 - 1, M63, M64 - 1, -M63 - 1]
    out = []
    # the negative / boundary constants against every operand type, both operand orders, literal and comptime
    for v in key:
        for t in ("nat", "int", "float"):
            for ct in (False, True):
                out.append({"pos": "binop", "tys": [t], "vals": [v], "op": "+", "side": "r", "ct": ct})
            out.append({"pos": "binop", "tys": [t], "vals": [v], "op": "*", "side": "l", "ct": False})
            out.append({"pos": "compare", "tys": [t], "vals": [v], "op": ">", "side": "r", "ct": False})
        out.append({"pos": "binop", "tys": ["nat"], "vals": [v], "op": "-", "side": "r", "ct": False})
        out.append({"pos": "binop", "tys": ["nat"], "vals": [v], "op": "^", "side": "r", "ct": True})
        out.append({"pos": "compare", "tys": ["nat"], "vals": [v], "op": "==", "side": "l", "ct": True})
        out.append({"pos": "augassign", "tys": ["nat"], "vals": [v], "op": "+", "ct": False})
        out.append({"pos": "augassign", "tys": ["int"], "vals": [v], "op": "-", "ct": True})
        out.append({"pos": "generic", "tys": ["int"], "vals": [v], "ct": False})
        out.append({"pos": "generic", "tys": ["int"], "vals": [v], "ct": True})
    for _ in range(n_random):
        pos = r.choice(OPERAND_POS)
        c = {"pos": pos, "tys": [r.choice(["nat", "nat", "int", "float"])], "vals": [r.choice(vs)], "ct": r.random() < 0.4}
        if pos in ("binop", "augassign"):
            c["op"] = r.choice(["+", "-", "*", "&", "|", "^", "//", "%"] if c["tys"][0] != "float" else ["+", "-", "*"])
        if pos == "compare":
            c["op"] = r.choice(["<", "<=", ">", ">=", "==", "!="])
        if pos in ("binop", "compare"):
            c["side"] = r.choice("lr")
        out.append(c)
    return out


def coq_lexpr(v):
    return f"(LConst ({v}))" if v >= 0 else f"(LUnary USub (LConst ({-v})))"


PRELUDE = """From Coq Require Import ZArith List Bool.
From V.C17 Require Import ModelBase GenLit ModelLit.
Import ListNotations. Open Scope Z_scope.
Definition b2z (b : bool) : Z := if b then 1 else 0.
Definition enc_err (e : err) : list Z := match e with
  | IntOverflowError s b u => [0; 1; b2z s; b; b2z u] | TypeMismatchError _ _ => [0; 2]
  | AssertionError => [0; 3] | ValueError => [0; 4] | SerialisationsDiffer => [0; 5] | NotALiteral => [0; 6] end.
Definition enc_u (r : res unit) : list Z := match r with Ok _ => [1] | Raise e => enc_err e end.
Definition enc_k (r : res kind) : list Z := match r with Ok KNat => [1; 1] | Ok KInt => [1; 2] | Raise e => enc_err e end.
Definition enc_p (r : res (Z * Z)) : list Z := match r with Ok (w, p) => [1; w; p] | Raise e => enc_err e end.
Definition enc_h (c : hconst) : list Z := match payload c with
  | Ok (w, p) => [match c with UnsignedIntVal _ _ => 1 | IntVal _ _ => 2 end; 1; w; p] | Raise e => enc_err e end.
Definition enc_f (o : option lexpr) : list Z := match o with Some (LConst v) => [1; v] | Some _ => [2] | None => [0] end.
"""


def coq_file(items):
    return PRELUDE + "Definition cases : list (list Z) := [\n" + ";\n".join(items) + "].\nEval vm_compute in cases.\n"


def model_eval(ctx, items):
    chunks = [items[i:i + 400] for i in range(0, len(items), 400)]
    outs = ctx.coq_eval_many({f"m{i}": coq_file(c) for i, c in enumerate(chunks)})
    res = []
    for i in range(len(chunks)):
        res += vlib.parse_coq_values(outs[f"m{i}"])[0]
    return res


def direct_cases(vs):
    cases, items = [], []
    K = {"nat": "KNat", "int": "KInt"}
    for v in vs:
        for s in (True, False):
            cases.append({"fn": "ibc", "v": v, "signed": s})
            items.append(f"enc_u (int_bounds_check ({v}) {str(s).lower()})")
        for h in (True, False):
            cases.append({"fn": "type", "v": v, "hint_nat": h, "hint_int": not h and v % 2 == 0})
            items.append(f"enc_k (literal_type {str(h).lower()} ({v}))")
        for k in ("nat", "int"):
            cases.append({"fn": "hugr", "v": v, "kind": k})
            items.append(f"enc_h (literal_hugr {K[k]} ({v}))")
        if v >= 0:
            for op, cop in (("-", "USub"), ("+", "UAdd"), ("~", "Invert"), ("not ", "Not")):
                cases.append({"fn": "fold", "v": v, "src": f"{op}{v}"})
                items.append(f"enc_f (fold_unaryop {cop} (LConst ({v})))")
    return cases, items


def canon_direct(c, r):
    """implementation answer -> the encoding used by the Coq side"""
    if r[0] == "err":
        if r[1] == "IntOverflowError":
            return [0, 1, int(r[2]["signed"]), r[2]["bits"], int(r[2]["is_underflow"])]
        return {"AssertionError": [0, 3], "ValueError": [0, 4]}.get(r[1], [0, 9])
    if c["fn"] == "ibc":
        return [1]
    if c["fn"] == "type":
        return [1, {"nat": 1, "int": 2}.get(r[1], 9)]
    if c["fn"] == "hugr":
        # to_value payload, and to_model text must carry the same two numbers
        ok_model = r[3] == ["arithmetic.int.const", [r[2][0], r[2][1]]]
        return [{"UnsignedIntVal": 1, "IntVal": 2}.get(r[1], 9), 1, r[2][0], r[2][1]] if ok_model else [9, r[3]]
    if c["fn"] == "fold":
        if r[1] == "generic_visit":
            return [0]
        import re
        m = re.fullmatch(r"Constant\(value=(-?\d+)\)", r[1])
        return [1, int(m.group(1))] if m else [2]


def model_program_item(c):
    K = {"nat": "KNat", "int": "KInt"}
    pos, t, v = c["pos"], c["tys"][0], c["vals"][0]
    if pos in OPERAND_POS:
        return f"enc_p (compile_operand_payload ({v}))"
    if pos in ("return", "assign", "arg"):
        return f"enc_p (compile_expr {K[t]} {coq_lexpr(v)})"
    if pos == "synth":
        return f"enc_p (compile_synth {K[t]} {coq_lexpr(v)})"
    return f"enc_p (compile_const {K[t]} ({v}))"   # comptime*: Python computed v


def canon_program(r):
    if r[0] == "ok":
        return [1] + r[1][0] if len(r[1]) == 1 else [9]
    if r[0] == "err" and r[1] == "IntOverflowError":
        return [0, 1, int(r[2]["signed"]), r[2]["bits"], int(r[2]["is_underflow"])]
    if r[0] == "err" and r[1] == "TypeMismatchError":
        return [0, 2]
    return [9, r[1]]


def replay_text(c):
    import impl_lit
    return {"program": impl_lit.HEADER.format(vals={c["id"]: c["vals"]}) + impl_lit.source(c),
            "how": "save as /tmp/p17.py, then: PYTHONPATH=/verif/tools:$REPO/guppylang/src:$REPO/guppylang-internals/src "
                   f"/venv/bin/python -c 'import p17; print(p17.f{c['id']}.compile_function().to_str())'  "
                   "(accepted programs print the HUGR; look for `arithmetic.int.const 6 <payload>`)"}


def run(ctx):
    tr_err = None
    try:
        generate(ctx)
    except vlib.TranslatorError as e:
        tr_err = e
    info = ctx.coq_props() if tr_err is None else {"ok": False, "obligations": 1, "discharged": 0, "failed": f"translator: {tr_err}", "log": str(tr_err), "theorems": []}
    import time
    T = {"coq_props_s": round(time.time() - ctx.t0, 1)}
    r = vlib.rng(ctx.seed, "C17")
    vs, hist = values(r, 12 if ctx.quick else 400, not ctx.quick)
    corpus = json.loads((ctx.dir / "corpus" / "cases.json").read_text()) if (ctx.dir / "corpus" / "cases.json").exists() else []
    cases = program_cases(r, vs, 40 if ctx.quick else 900, hist["boundary"] if not ctx.quick else 0)
    cases = [dict(c) for c in corpus] + cases
    for k, c in enumerate(cases):
        c["id"] = k
    # ---- implementation: programs (chunks keep each generated module small) and direct calls
    impl = []
    for i in range(0, len(cases), 700):
        impl += json.loads(ctx.impl("impl_lit.py", {"cases": cases[i:i + 700]}))
    dvs = vs if ctx.quick else vs[:200]
    dcases, ditems = direct_cases(dvs)
    dimpl = json.loads(ctx.impl("impl_lit.py", {"cases": dcases, "mode": "direct"}))
    T["impl_s"] = round(time.time() - ctx.t0 - T["coq_props_s"], 1)
    # ---- spec vs implementation (the failing-input search; always run)
    spec_fail = []
    for c, i in zip(cases, impl):
        s = spec_program(c)
        if not same_verdict(s, i):
            spec_fail.append((c, s, i))
    # an accepted check() followed by a non-Guppy crash is the most telling input: list it first
    spec_fail.sort(key=lambda t: (0 if t[2][0] == "crash" else 1, len(t[0]["vals"]), abs(t[0]["vals"][0])))
    for c, s, i in spec_fail[:5]:
        extra = "".join(f":{k}={c[k]}" for k in ("op", "side", "ct") if k in c)
        ctx.report(f"lit:{c['pos']}:{','.join(c['tys'])}:{','.join(map(str, c['vals']))}{extra}", "counterexample",
                   "literal at type: implementation differs from the range/value specification",
                   {"case": c, "specification": s, "implementation": i, "replay": replay_text(c),
                    "proofs": "ok" if info["ok"] else f"broken at {info['failed']}"})
    # ---- model vs implementation
    model_dis = 0
    model_ok = tr_err is None and (vlib.COQ / "C17" / "ModelLit.vo").exists()
    if model_ok:
        try:
            scal = [c for c in cases if c["pos"] in SCALAR_POS or c["pos"] in OPERAND_POS]
            mres = model_eval(ctx, ditems + [model_program_item(c) for c in scal])
            dm, pm = mres[:len(ditems)], mres[len(ditems):]
            for c, i, m in zip(dcases, dimpl, dm):
                ci = canon_direct(c, i)
                if c["fn"] == "hugr" and i[0] == "ok":
                    ci = [ci[0], ci[1], ci[2], ci[3]]
                if ci != m:
                    model_dis += 1
                    if model_dis <= 3:
                        ctx.report(f"translator-mismatch:{c}", "correspondence", "generated leaf function vs real function",
                                   {"case": c, "impl": i, "impl_canonical": ci, "model": m}, found_input=not spec_fail or True)
            by_id = {c["id"]: r_ for c, r_ in zip(cases, impl)}
            for c, m in zip(scal, pm):
                i = by_id[c["id"]]
                if c["pos"] in OPERAND_POS:
                    if i[0] == "err" and i[1] != "IntOverflowError":
                        continue        # operator / overload resolution failed: outside this model
                    if i[0] == "ok":    # typed once: the constant must be the signed IntVal the model predicts
                        ci = m if m[0] == 1 and ["IntVal"] + m[1:] in i[3] else [9, "constants in HUGR", i[3]]
                    else:
                        ci = canon_program(i)
                else:
                    ci = canon_program(i)
                if ci != m:
                    model_dis += 1
                    if model_dis <= 3:
                        ctx.report(f"model-mismatch:{c['pos']}:{c['tys'][0]}:{c['vals'][0]}", "correspondence",
                                   "Coq pipeline (build/check_const/literal_hugr/payload) vs check()+compile_function()",
                                   {"case": c, "impl": by_id[c["id"]], "impl_canonical": ci, "model": m, "replay": replay_text(c)})
        except RuntimeError as e:
            model_ok = False
            ctx.notes.append(f"model evaluation failed: {e}")
    if not info["ok"] and not spec_fail:
        ctx.report("proof-broken:" + str(info["failed"]), "proof-broken", str(info["failed"]),
                   {"coq_error": vlib.CoqResult(False, info["log"]).error_excerpt(), "searched_programs": len(cases),
                    "searched_direct": len(dcases)}, found_input=False)
    accepted = sum(1 for i in impl if i[0] == "ok")
    posh = {}
    for c in cases:
        posh[c["pos"]] = posh.get(c["pos"], 0) + 1
    cov = proof_coverage(
        info, "make C17/Props.vo && coqc C17/Props.v (Print Assumptions)",
        ["Coq 8.16.1 kernel; vm_compute for closed constants (1 << 64 etc.) and Examples",
         "props/C17/tr_lit.py + tools/tr_common.py: reading of `match` cases, `1 << k`, comparisons, and of straight-line locals as definitions",
         "hand-written (ModelLit.v), tied by the program-level correspondence only: hugr.std.int._to_unsigned (installed hugr library), ExprBuilder traversal, check_type_against on int/nat, the recursion of python_value_to_guppy_type/python_value_to_hugr through tuples and lists (not in the Coq model: checked against the Python specification on programs)",
         "meaning of a ConstInt payload: unsigned 64-bit pattern, two's complement when read as int (HUGR specification)",
         "tools/repo_shim.py (no compiler logic)"],
        evaluations=len(cases) + len(dcases), distinct_nontrivial=accepted,
        rule="evaluations = programs compiled by /repo + direct calls of the translated functions; non-trivial = programs accepted by check() whose ConstInt payloads were extracted from the serialised HUGR and compared",
        programs=len(cases), programs_accepted=accepted, programs_rejected=len(cases) - accepted,
        direct_calls=len(dcases), positions=posh, value_distribution=hist,
        model_vs_impl_compared=(len(dcases) + sum(1 for c in cases if c["pos"] in SCALAR_POS or c["pos"] in OPERAND_POS)) if model_ok else 0,
        operand_positions={"cases": sum(1 for c in cases if c["pos"] in OPERAND_POS),
                           "accepted_with_IntVal_constant": sum(1 for c, i in zip(cases, impl) if c["pos"] in OPERAND_POS and i[0] == "ok"),
                           "negative_constant_vs_nat_accepted": sum(1 for c, i in zip(cases, impl) if c["pos"] in OPERAND_POS and i[0] == "ok" and c["vals"][0] < 0 and c["tys"][0] == "nat")},
        model_disagreements=model_dis, spec_disagreements=len(spec_fail),
        samples=[{"case": cases[j], "impl": impl[j], "spec": spec_program(cases[j])} for j in (0, len(cases) // 3, len(cases) - 1)],
        timing=T, notes=ctx.notes)
    return ctx.finish(LEVEL, cov, [
        "bool literals are outside the model (the translator checks that `case bool()` precedes the int cases)",
        "constants synthesised before they meet a parameter type (operand of a binary operator/comparison in both orders against nat/int/float, augmented assignment, generic argument; literal, negated literal and comptime) are typed int once: checked on programs for verdict of check(), success of compile_function() and the IntVal constant in the HUGR",
        "literal positions exercised on programs: return, annotated assignment, call argument, unannotated assignment, comptime value / arithmetic / negation, tuple display, comptime tuple, comptime list, nested comptime tuple+list",
        "no emulator for /repo HUGR: 'observes exactly that value' is decided on the constant written into the HUGR"])
