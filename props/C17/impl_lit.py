"""Implementation side of the C17 correspondence: writes one @guppy function per case into a
real file (inspect.getsource needs one), runs check()/compile_function() of the /repo
sources under repo_shim and reports, per case,
   ["ok", [[log_width, value], ...]]     sorted ConstInt payloads found in the serialised HUGR
   ["err", <error class>, <detail>]      the diagnostic (IntOverflowError: signed/underflow flags)
stdin: {"cases": [{"id":..,"pos":..,"tys":[..],"vals":[..]}], "mode": "cases"|"direct"}.
mode "direct": calls _int_bounds_check / python_value_to_guppy_type / python_value_to_hugr /
ExprBuilder directly (translator validation of the generated leaf functions)."""
import json
import os
import re
import sys

HEADER = """import repo_shim
from guppylang import guppy
from guppylang.std.builtins import nat, comptime, frozenarray

@guppy.declare
def id_int(x: int) -> int: ...

@guppy.declare
def id_nat(x: nat) -> nat: ...

TV = guppy.type_var("TV")

@guppy.declare
def gid(x: TV) -> TV: ...

VALS = {vals}

"""


def lit(v):
    """Python source of the integer v as the user writes it: literal token, or `-` literal."""
    return str(v) if v >= 0 else f"-{-v}"


def source(case):
    i, pos, tys, vals = case["id"], case["pos"], case["tys"], case["vals"]
    t = tys[0]
    if pos == "return":
        return f"@guppy\ndef f{i}() -> {t}:\n    return {lit(vals[0])}\n"
    if pos == "assign":
        return f"@guppy\ndef f{i}() -> {t}:\n    x: {t} = {lit(vals[0])}\n    return x\n"
    if pos == "synth":     # no type hint at the literal: always int
        return f"@guppy\ndef f{i}() -> {t}:\n    x = {lit(vals[0])}\n    return x\n"
    if pos == "arg":
        return f"@guppy\ndef f{i}() -> {t}:\n    return id_{t}({lit(vals[0])})\n"
    if pos == "comptime":  # value computed by the Python interpreter
        return f"@guppy\ndef f{i}() -> {t}:\n    return comptime(VALS[{i}][0])\n"
    if pos == "comptime_expr":
        a = vals[0] // 2
        b = vals[0] - a
        return f"@guppy\ndef f{i}() -> {t}:\n    return comptime(({a}) + ({b}))\n"
    if pos == "comptime_neg":   # `-` inside comptime is Python's negation of a Python int
        return f"@guppy\ndef f{i}() -> {t}:\n    return comptime(-({-vals[0]}))\n"
    if pos == "tuple":     # literal tuple: every element is its own Constant
        return (f"@guppy\ndef f{i}() -> tuple[{', '.join(tys)}]:\n    return ({', '.join(lit(v) for v in vals)},)\n")
    if pos == "comptime_tuple":
        return f"@guppy\ndef f{i}() -> tuple[{', '.join(tys)}]:\n    return comptime(tuple(VALS[{i}]))\n"
    if pos == "comptime_array":
        return f"@guppy\ndef f{i}() -> frozenarray[{t}, {len(vals)}]:\n    return comptime(VALS[{i}])\n"
    if pos == "comptime_nested":  # tuple of (scalar, array)
        return (f"@guppy\ndef f{i}() -> tuple[{tys[0]}, frozenarray[{tys[1]}, {len(vals) - 1}]]:\n"
                f"    return comptime((VALS[{i}][0], VALS[{i}][1:]))\n")
    # --- positions where the constant is synthesised before it meets a parameter type
    if pos in ("binop", "compare", "augassign", "generic"):
        L = f"comptime(VALS[{i}][0])" if case.get("ct") else lit(vals[0])
        if pos == "generic":
            return f"@guppy\ndef f{i}() -> None:\n    y = gid({L})\n"
        if pos == "augassign":
            return f"@guppy\ndef f{i}(a: {t}) -> None:\n    n = a\n    n {case['op']}= {L}\n"
        e = f"a {case['op']} {L}" if case.get("side", "r") == "r" else f"{L} {case['op']} a"
        return f"@guppy\ndef f{i}(a: {t}) -> None:\n    x = {e}\n"
    raise SystemExit(f"unknown position {pos}")


CONST_RE = re.compile(r"\(arithmetic\.int\.const (\d+) (\d+)\)")
# static arrays are embedded as (compat.const_json "...") with the to_value() JSON form
JSON_RE = re.compile(r'"c":"ConstInt","v":\{"log_width":(\d+),"value":(\d+)\}')


def run_cases(cases):
    import repo_shim  # noqa: F401
    vals = {c["id"]: c["vals"] for c in cases}
    src = HEADER.format(vals=repr(vals)) + "\n".join(source(c) for c in cases)
    path = os.path.join(os.getcwd(), f"c17_prog_{os.getpid()}.py")
    with open(path, "w") as fh:
        fh.write(src)
    import importlib.util
    spec = importlib.util.spec_from_file_location("c17_prog", path)
    mod = importlib.util.module_from_spec(spec)
    sys.modules["c17_prog"] = mod
    spec.loader.exec_module(mod)
    from guppylang_internals.error import GuppyError
    out = []
    for c in cases:
        f = getattr(mod, f"f{c['id']}")
        stage = "check"
        try:
            f.check()
            stage = "compile"
            pkg = f.compile_function()
            text = pkg.to_str()
            consts = sorted([int(a), int(b)] for a, b in CONST_RE.findall(text) + JSON_RE.findall(text.replace("\\", "")))
            # the JSON-side payload (to_value) of every top-level integer Const node
            m = pkg.modules[0]
            jv, kinds = [], []
            for n in m.descendants():
                op = m[n].op
                if type(op).__name__ == "Const" and type(op.val).__name__ in ("IntVal", "UnsignedIntVal"):
                    p = op.val.to_value().val
                    jv.append([p["log_width"], p["value"]])
                    kinds.append([type(op.val).__name__, p["log_width"], p["value"]])
            out.append(["ok", consts, sorted(jv), sorted(kinds)])
        except GuppyError as e:
            err = e.error
            d = {}
            for k in ("signed", "bits", "is_underflow"):
                if hasattr(err, k):
                    d[k] = getattr(err, k)
            for k in ("expected", "actual"):
                if hasattr(err, k):
                    d[k] = str(getattr(err, k))
            out.append(["err", type(err).__name__, d])
        except Exception as e:  # internal error: reported as such
            out.append(["crash", type(e).__name__, str(e)[:200], stage])
    return out


def run_direct(cases):
    """Direct calls of the translated functions."""
    import repo_shim  # noqa: F401
    import ast
    from guppylang_internals.checker import expr_checker as ec
    from guppylang_internals.compiler.expr_compiler import python_value_to_hugr
    from guppylang_internals.cfg.builder import ExprBuilder
    from guppylang_internals.error import GuppyError
    from guppylang_internals.tys.builtin import nat_type, int_type
    from guppylang_internals.tys.ty import NumericType
    node = ast.Constant(value=0)
    out = []
    for c in cases:
        k, v = c["fn"], c["v"]
        try:
            if k == "ibc":
                ec._int_bounds_check(v, node, c["signed"])
                out.append(["ok"])
            elif k == "type":
                ty = ec.python_value_to_guppy_type(v, node, None, nat_type() if c["hint_nat"] else (int_type() if c.get("hint_int") else None))
                out.append(["ok", "nat" if ty == nat_type() else "int" if ty == int_type() else str(ty)])
            elif k == "hugr":
                ty = nat_type() if c["kind"] == "nat" else int_type()
                val = python_value_to_hugr(v, ty, None)
                p = val.to_value().val
                mt = val.to_model()
                out.append(["ok", type(val).__name__, [p["log_width"], p["value"]],
                            [mt.symbol if hasattr(mt, "symbol") else getattr(mt, "name", "?"), [a.value for a in mt.args]]])
            elif k == "fold":
                from guppylang_internals.ast_util import annotate_location
                e = ast.parse(c["src"], mode="eval").body
                annotate_location(e, c["src"], "lit.py", 1)
                eb = ExprBuilder.__new__(ExprBuilder)
                eb.generic_visit = lambda n: "generic_visit"    # the default case; children are constants
                r = ExprBuilder.visit_UnaryOp(eb, e)
                out.append(["ok", r if isinstance(r, str) else ast.dump(r)])
            else:
                raise SystemExit(f"unknown fn {k}")
        except GuppyError as e:
            err = e.error
            out.append(["err", type(err).__name__, {a: getattr(err, a) for a in ("signed", "bits", "is_underflow") if hasattr(err, a)}])
        except (AssertionError, ValueError) as e:
            out.append(["err", type(e).__name__, {}])
    return out


if __name__ == "__main__":
    req = json.load(sys.stdin)
    res = run_direct(req["cases"]) if req.get("mode") == "direct" else run_cases(req["cases"])
    json.dump(res, sys.stdout)
