"""C13 generators, Coq-text printers and decoders for the term encoding shared by
impl_inst.py (JSON) and coq/C13/ModelEnc.v (flat list Z)."""

NUMS = ["nat", "int", "float"]


# ------------------------------------------------------------------ Coq text -------------
def cb(b):
    return "true" if b else "false"


def ctm(j):
    k = j[0]
    if k == "V":
        return f"(TVar {j[1]} {cb(j[2])} {cb(j[3])})"
    if k == "Num":
        return {"nat": "(TNum KNat)", "int": "(TNum KInt)", "float": "(TNum KFloat)"}[j[1]]
    if k == "None":
        return f"(TNone {cb(j[1])})"
    if k == "Tup":
        return f"(TTup {clist(j[1])} {cb(j[2])})"
    if k == "Opq":
        return f"(TOpq {j[1]} {clist(j[2])})"
    if k == "Fun":
        return f"(TFun {clist(j[1])} {cflags(j[2])} {ctm(j[3])})"
    if k == "CVal":
        return f"(CVal {ctm(j[1])} ({j[2]})%Z)"
    if k == "CVar":
        return f"(CVar {ctm(j[1])} {j[2]})"
    raise ValueError(j)


def L(items):
    """Coq list without the (slow to parse when nested) list notation."""
    out = "nil"
    for x in reversed(list(items)):
        out = f"(cons {x} {out})"
    return out


def clist(l):
    return L(ctm(x) for x in l)


def colist(l):
    return L("None" if x is None else f"(Some {ctm(x)})" for x in l)


def cflags(l):
    return L({0: "FNo", 1: "FInout", 2: "FOwned", 4: "FComptime"}[f] for f in l)


def cparam(p):
    if p[0] == "PTy":
        return f"(PTy {p[1]} {cb(p[2])} {cb(p[3])})"
    return f"(PCon {p[1]} {ctm(p[2])} {cb(p[3])})"


def cparams(ps):
    return L(cparam(p) for p in ps)


def cfty(f):
    return f"(mk_fty {clist(f['ins'])} {cflags(f['fl'])} {ctm(f['out'])} {cparams(f['params'])})"


# ------------------------------------------------------------------ decoding list Z ------
class Dec:
    def __init__(self, zs):
        self.z, self.i = zs, 0

    def n(self):
        v = self.z[self.i]
        self.i += 1
        return v

    def tm(self):
        t = self.n()
        if t == 0:
            return ["V", self.n(), self.n(), self.n()]
        if t == 1:
            return ["Num", NUMS[self.n()]]
        if t == 2:
            return ["None", self.n()]
        if t == 3:
            p, k = self.n(), self.n()
            return ["Tup", [self.tm() for _ in range(k)], p]
        if t == 4:
            d, k = self.n(), self.n()
            return ["Opq", d, [self.tm() for _ in range(k)]]
        if t == 5:
            k = self.n()
            ins = [self.tm() for _ in range(k)]
            fl = [self.n() for _ in range(k)]
            return ["Fun", ins, fl, self.tm()]
        if t == 6:
            v = self.n()
            return ["CVal", self.tm(), v]
        if t == 7:
            i = self.n()
            return ["CVar", self.tm(), i]
        if t == 9:
            return None
        raise ValueError(f"bad tm tag {t}")

    def tlist(self):
        return [self.tm() for _ in range(self.n())]

    def param(self):
        t = self.n()
        if t == 0:
            return ["PTy", self.n(), self.n(), self.n()]
        i, ct = self.n(), self.n()
        return ["PCon", i, self.tm(), ct]

    def fty(self):
        ins = self.tlist()
        fl = [self.n() for _ in ins]
        out = self.tm()
        ps = [self.param() for _ in range(self.n())]
        return {"ins": ins, "fl": fl, "out": out, "params": ps, "cargs": self.tlist()}

    def ftys(self):
        return [self.fty() for _ in range(self.n())]

    def h(self):
        t = self.n()
        if t == 0:
            return ["HVar", self.n(), self.n()]
        if t == 1:
            return ["HInt"]
        if t == 2:
            return ["HFloat"]
        if t == 3:
            return ["HTup", [self.h() for _ in range(self.n())]]
        if t == 4:
            d, k = self.n(), self.n()
            return ["HOpq", d, [self.h() for _ in range(k)]]
        if t == 5:
            a, b = self.n(), self.n()
            return ["HFun", [self.h() for _ in range(a)], [self.h() for _ in range(b)]]
        if t == 6:
            return ["HNat", self.n()]
        if t == 7:
            return ["HVarArg", self.n()]
        if t == 8:
            return ["HErr"]
        raise ValueError(f"bad htm tag {t}")

    def hparams(self):
        out = []
        for _ in range(self.n()):
            t = self.n()
            out.append(["HPTy", self.n()] if t == 0 else (["HPNat"] if t == 1 else ["HErr"]))
        return out

    def done(self):
        assert self.i == len(self.z), (self.i, len(self.z))


def has_err(h):
    if isinstance(h, list):
        return (len(h) > 0 and h[0] == "HErr") or any(has_err(x) for x in h)
    return False


# ------------------------------------------------------------------ python-side helpers --
def scoped(n, t):
    k = t[0]
    if k == "V":
        return t[1] < n
    if k in ("Num", "None"):
        return True
    if k == "Tup":
        return all(scoped(n, x) for x in t[1])
    if k == "Opq":
        return all(scoped(n, x) for x in t[2])
    if k == "Fun":
        return all(scoped(n, x) for x in t[1]) and scoped(n, t[3])
    if k == "CVal":
        return scoped(n, t[1])
    return t[2] < n and scoped(n, t[1])


def bound_vars(t):
    k = t[0]
    if k == "V":
        return {t[1]}
    if k in ("Num", "None"):
        return set()
    if k == "Tup":
        return set().union(*[bound_vars(x) for x in t[1]]) if t[1] else set()
    if k == "Opq":
        return set().union(*[bound_vars(x) for x in t[2]]) if t[2] else set()
    if k == "Fun":
        return set().union(bound_vars(t[3]), *[bound_vars(x) for x in t[1]])
    if k == "CVal":
        return bound_vars(t[1])
    return {t[2]} | bound_vars(t[1])


def erase(t):
    """Forget const annotations (CVal/CVar types) — the semantic content of a term."""
    if t is None:
        return None
    k = t[0]
    if k in ("V", "Num", "None"):
        return t
    if k == "Tup":
        return ["Tup", [erase(x) for x in t[1]], t[2]]
    if k == "Opq":
        return ["Opq", t[1], [erase(x) for x in t[2]]]
    if k == "Fun":
        return ["Fun", [erase(x) for x in t[1]], t[2], erase(t[3])]
    if k == "CVal":
        return ["CVal", None, t[2]]
    if k == "CVar":
        return ["CVar", None, t[2]]
    return t


def erase_fty(f, drop_flags=False):
    return {"ins": [erase(x) for x in f["ins"]], "fl": f["fl"], "out": erase(f["out"]),
            "params": [p if p[0] == "PTy" else ["PCon", p[1], erase(p[2]), 0 if drop_flags else p[3]]
                       for p in f["params"]],
            "cargs": [erase(x) for x in f["cargs"]]}


def subst_py(rho, t):
    """Textual simultaneous substitution (specification, independent of the code)."""
    k = t[0]
    if k == "V" or k == "CVar":
        return rho(t[1] if k == "V" else t[2])
    if k in ("Num", "None", "CVal"):
        return t
    if k == "Tup":
        return ["Tup", [subst_py(rho, x) for x in t[1]], t[2]]
    if k == "Opq":
        return ["Opq", t[1], [subst_py(rho, x) for x in t[2]]]
    return ["Fun", [subst_py(rho, x) for x in t[1]], t[2], subst_py(rho, t[3])]


def set_preserve(a):
    if a[0] == "Tup":
        return ["Tup", a[1], 1]
    if a[0] == "None":
        return ["None", 1]
    return a


def compose_args(a1, a2):
    out, it = [], iter(a2)
    for x in a1:
        out.append(x if x is not None else next(it, None))
    return out


# ------------------------------------------------------------------ random generation ----
class Gen:
    def __init__(self, r):
        self.r = r

    def closed_ty(self, depth=2):
        r = self.r
        c = r.random()
        if depth <= 0 or c < 0.45:
            return r.choice([["Num", "nat"], ["Num", "int"], ["Num", "float"], ["None", 0]])
        if c < 0.7:
            return ["Tup", [self.closed_ty(depth - 1) for _ in range(r.randint(0, 3))], 0]
        if c < 0.9:
            return ["Opq", r.randint(0, 2), [self.closed_ty(depth - 1), ["CVal", ["Num", "nat"], r.randint(0, 9)]][:r.randint(1, 2)]]
        return self.fun(lambda d: self.closed_ty(d), depth - 1)

    def fun(self, sub, depth):
        r = self.r
        n = r.randint(0, 2)
        return ["Fun", [sub(depth) for _ in range(n)], [r.choice([0, 0, 1, 2]) for _ in range(n)], sub(depth)]

    def params(self, n, dependent=True):
        r = self.r
        ps = []
        for i in range(n):
            if r.random() < 0.5:
                ps.append(["PTy", i, r.choice([0, 1, 1]), r.choice([0, 1, 1])])
                continue
            tvs = [p for p in ps if p[0] == "PTy"]
            nats = [p for p in ps if p[0] == "PCon" and p[2] == ["Num", "nat"]]
            c = r.random()
            if dependent and tvs and c < 0.35:
                q = r.choice(tvs)
                v = ["V", q[1], q[2], q[3]]
                ty = v if r.random() < 0.6 else ["Tup", [v, r.choice([v, ["Num", "int"]])], 0]
            elif dependent and nats and c < 0.5:
                q = r.choice(nats)
                ty = ["Opq", 0, [["Num", "int"], ["CVar", ["Num", "nat"], q[1]]]]
            elif c < 0.8:
                ty = ["Num", "nat"]
            else:
                ty = r.choice([["Num", "int"], ["Num", "float"], ["Tup", [["Num", "int"], ["Num", "nat"]], 0]])
            ps.append(["PCon", i, ty, r.choice([0, 1])])
        return ps

    def open_ty(self, ps, depth=2):
        """A type over the parameters ps (annotations of const variables = the parameter's type)."""
        r = self.r
        c = r.random()
        tvs = [p for p in ps if p[0] == "PTy"]
        cvs = [p for p in ps if p[0] == "PCon"]
        if tvs and c < 0.35:
            q = r.choice(tvs)
            return ["V", q[1], q[2], q[3]]
        if depth <= 0 or c < 0.5:
            return r.choice([["Num", "nat"], ["Num", "int"], ["Num", "float"], ["None", 0]])
        if c < 0.7:
            return ["Tup", [self.open_ty(ps, depth - 1) for _ in range(r.randint(0, 3))], 0]
        if c < 0.92:
            args = [self.open_ty(ps, depth - 1)]
            if cvs and r.random() < 0.8:
                q = r.choice(cvs)
                args.append(["CVar", q[2], q[1]])
            elif r.random() < 0.5:
                args.append(["CVal", ["Num", "nat"], r.randint(0, 9)])
            r.shuffle(args)
            return ["Opq", r.randint(0, 2), args]
        return self.fun(lambda d: self.open_ty(ps, d), depth - 1)

    def sig(self, nmax=5, dependent=True):
        r = self.r
        ps = self.params(r.randint(1, nmax), dependent)
        k = r.randint(0, 3)
        ins = [self.open_ty(ps) for _ in range(k)]
        fl = [r.choice([0, 0, 1, 2]) for _ in range(k)]
        # comptime inputs for flagged params
        for p in ps:
            if p[0] == "PCon" and p[3]:
                ins.append(p[2])
                fl.append(4)
        return {"ins": ins, "fl": fl, "out": self.open_ty(ps), "params": ps}

    def inst_ty_closed(self, ty, chosen):
        """Type of a const parameter after instantiating with the chosen (closed) earlier
        arguments; None if it still mentions an unspecialised parameter."""
        if any(chosen[v] is None for v in bound_vars(ty)):
            return None
        return subst_py(lambda i: chosen[i], ty)

    def partial(self, ps, p_none=0.5):
        """A partial instantiation with closed, well-kinded arguments."""
        r = self.r
        chosen = []
        for p in ps:
            if r.random() < p_none:
                chosen.append(None)
                continue
            if p[0] == "PTy":
                chosen.append(self.closed_ty(2))
            else:
                ty = self.inst_ty_closed(p[2], chosen)
                if ty is None:
                    chosen.append(None)
                else:
                    chosen.append(["CVal", ty, r.randint(0, 12)])
        return chosen

    def remaining(self, ps, a):
        return [p for p, x in zip(ps, a) if x is None]


# ------------------------------------------------------------------ independent spec -----
def spec_partial(f, a):
    """Specification of instantiate_partial, written as textual substitution: the result of
    instantiating signature f with the partial argument list a.  Remaining parameters keep
    their order and are renumbered 0..k-1; the type of a remaining const parameter is the
    original one with the substitution applied.  Annotations of remaining const variables
    are the substituted parameter types (the check compares modulo annotations)."""
    ps = f["params"]
    rho_list, rem, k = [], [], 0
    for p, x in zip(ps, a):
        if x is not None:
            rho_list.append(set_preserve(x))
            continue
        if p[0] == "PTy":
            rem.append(["PTy", k, p[2], p[3]])
            rho_list.append(["V", k, p[2], p[3]])
        else:
            cur = list(rho_list)
            ty = subst_py(lambda i, cur=cur: cur[i], p[2])
            rem.append(["PCon", k, ty, 0])
            rho_list.append(["CVar", ty, k])
        k += 1
    rho = lambda i: rho_list[i]
    cargs = [["CVar", p[2], p[1]] for p in ps if p[0] == "PCon" and p[3]]
    return {"ins": [subst_py(rho, t) for t in f["ins"]], "fl": f["fl"], "out": subst_py(rho, f["out"]),
            "params": rem, "cargs": [subst_py(rho, c) for c in cargs]}


def closed_ctypes(ps):
    return all(p[0] == "PTy" or scoped(0, p[2]) for p in ps)


def needs_mono_spec(ps, args):
    """Spec of partially_monomorphize_args' marking: position i is monomorphized iff it is a
    const parameter whose instantiated type is not nat, or it occurs in the (original)
    non-nat type of some const parameter."""
    out = set()
    for p in ps:
        if p[0] != "PCon":
            continue
        if p[2] != ["Num", "nat"]:
            out |= bound_vars(p[2])
        if subst_py(lambda i: args[i], p[2]) != ["Num", "nat"]:
            out.add(p[1])
    return out
