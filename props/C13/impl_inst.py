"""C13 implementation-side harness: builds REAL guppylang objects (tys.* and compiler.core)
from the JSON term encoding, runs the real functions, dumps results structurally.

stdin: JSON list of cases; stdout: JSON list of results (same order).
Term encoding:  ["V",i,cp,dr] ["Num",k] ["None",p] ["Tup",[..],p] ["Opq",d,[..]]
                ["Fun",[ins],[flags],out] ["CVal",ty,v] ["CVar",ty,i]
Params:         ["PTy",idx,cp,dr] ["PCon",idx,ty,ct]
An exception inside the implementation is reported as ["EXC", <class name>]."""
import json
import sys

import repo_shim  # noqa: F401  (must come first; compiler.core needs it)
from hugr import tys as ht
import hugr.std.float
import hugr.std.int

from guppylang_internals.compiler import core as cc
from guppylang_internals.definition.common import DefId
from guppylang_internals.definition.ty import OpaqueTypeDef
from guppylang_internals.tys.arg import ConstArg, TypeArg
from guppylang_internals.tys.common import QuantifiedToHugrContext
from guppylang_internals.tys.const import BoundConstVar, ConstValue
from guppylang_internals.tys.param import ConstParam, TypeParam
from guppylang_internals.tys.subst import Instantiator
from guppylang_internals.tys.ty import (BoundTypeVar, FuncInput, FunctionType, InputFlags,
                                        NoneType, NumericType, OpaqueType, TupleType)

KINDS = {"nat": NumericType.Kind.Nat, "int": NumericType.Kind.Int, "float": NumericType.Kind.Float}
RKINDS = {v: k for k, v in KINDS.items()}
FLAGS = {0: InputFlags.NoFlags, 1: InputFlags.Inout, 2: InputFlags.Owned, 4: InputFlags.Comptime}
RFLAGS = {v: k for k, v in FLAGS.items()}


def _opq_to_hugr(name):
    return lambda args, ctx: ht.Opaque(id=name, bound=ht.TypeBound.Linear,
                                       args=[a.to_hugr(ctx) for a in args], extension="verif.c13")


DEFS = {}


def opq_def(d):
    if d not in DEFS:
        DEFS[d] = OpaqueTypeDef(DefId.fresh(), f"opq{d}", None, [], False, False, _opq_to_hugr(f"opq{d}"))
    return DEFS[d]


RDEFS = {}


# ---- decoding ---------------------------------------------------------------------------
def ty(j):
    k = j[0]
    if k == "V":
        return BoundTypeVar(f"T{j[1]}", j[1], bool(j[2]), bool(j[3]))
    if k == "Num":
        return NumericType(KINDS[j[1]])
    if k == "None":
        return NoneType(preserve=bool(j[1]))
    if k == "Tup":
        return TupleType([ty(x) for x in j[1]], preserve=bool(j[2]))
    if k == "Opq":
        return OpaqueType([arg(x) for x in j[2]], opq_def(j[1]))
    if k == "Fun":
        return FunctionType([FuncInput(ty(x), FLAGS[f]) for x, f in zip(j[1], j[2], strict=True)], ty(j[3]))
    raise ValueError(f"not a type: {j}")


def const(j):
    if j[0] == "CVal":
        return ConstValue(ty(j[1]), j[2])
    if j[0] == "CVar":
        return BoundConstVar(ty(j[1]), f"c{j[2]}", j[2])
    raise ValueError(f"not a const: {j}")


def arg(j):
    return ConstArg(const(j)) if j[0] in ("CVal", "CVar") else TypeArg(ty(j))


def oarg(j):
    return None if j is None else arg(j)


def param(j):
    if j[0] == "PTy":
        return TypeParam(j[1], f"T{j[1]}", bool(j[2]), bool(j[3]))
    return ConstParam(j[1], f"c{j[1]}", ty(j[2]), from_comptime_arg=bool(j[3]))


def fty(j):
    return FunctionType([FuncInput(ty(x), FLAGS[f]) for x, f in zip(j["ins"], j["fl"], strict=True)],
                        ty(j["out"]), [param(p) for p in j["params"]])


# ---- dumping ----------------------------------------------------------------------------
def d_ty(t):
    if isinstance(t, BoundTypeVar):
        return ["V", t.idx, int(t.copyable), int(t.droppable)]
    if isinstance(t, NumericType):
        return ["Num", RKINDS[t.kind]]
    if isinstance(t, NoneType):
        return ["None", int(t.preserve)]
    if isinstance(t, TupleType):
        return ["Tup", [d_ty(x) for x in t.element_types], int(t.preserve)]
    if isinstance(t, OpaqueType):
        return ["Opq", int(t.defn.name[3:]), [d_arg(a) for a in t.args]]
    if isinstance(t, FunctionType):
        if t.params or t.comptime_args:
            return ["PolyFun", d_fty(t)]
        return ["Fun", [d_ty(i.ty) for i in t.inputs], [RFLAGS[i.flags] for i in t.inputs], d_ty(t.output)]
    raise ValueError(f"cannot dump type {t!r}")


def d_const(c):
    if isinstance(c, ConstValue):
        return ["CVal", d_ty(c.ty), c.value]
    if isinstance(c, BoundConstVar):
        return ["CVar", d_ty(c.ty), c.idx]
    raise ValueError(f"cannot dump const {c!r}")


def d_arg(a):
    if a is None:
        return None
    return d_const(a.const) if isinstance(a, ConstArg) else d_ty(a.ty)


def d_param(p):
    if isinstance(p, TypeParam):
        return ["PTy", p.idx, int(p.must_be_copyable), int(p.must_be_droppable)]
    return ["PCon", p.idx, d_ty(p.ty), int(p.from_comptime_arg)]


def d_fty(f):
    return {"ins": [d_ty(i.ty) for i in f.inputs], "fl": [RFLAGS[i.flags] for i in f.inputs],
            "out": d_ty(f.output), "params": [d_param(p) for p in f.params],
            "cargs": [d_arg(a) for a in f.comptime_args]}


INT_T = hugr.std.int.int_t(NumericType.INT_WIDTH)
FLOAT_T = hugr.std.float.FLOAT_T


def d_h(h):
    """Canonical form of a hugr type / type argument."""
    if isinstance(h, ht.TypeTypeArg):
        return d_h(h.ty)
    if isinstance(h, ht.BoundedNatArg):
        return ["HNat", h.n]
    if isinstance(h, ht.VariableArg):
        if not isinstance(h.param, ht.BoundedNatParam):
            return ["HVarArgKind", h.idx, type(h.param).__name__]
        return ["HVarArg", h.idx]
    if isinstance(h, ht.Variable):
        return ["HVar", h.idx, int(h.bound == ht.TypeBound.Copyable)]
    if isinstance(h, ht.Opaque):
        return ["HOpq", int(h.id[3:]), [d_h(a) for a in h.args]]
    if isinstance(h, ht.FunctionType):
        return ["HFun", [d_h(x) for x in h.input], [d_h(x) for x in h.output]]
    if h == INT_T:
        return ["HInt"]
    if h == FLOAT_T:
        return ["HFloat"]
    if isinstance(h, ht.Tuple) or (isinstance(h, ht.Sum) and len(h.variant_rows) == 1):
        return ["HTup", [d_h(x) for x in h.variant_rows[0]]]
    raise ValueError(f"cannot dump hugr {h!r} ({type(h).__name__})")


def d_hparam(p):
    if isinstance(p, ht.TypeTypeParam):
        return ["HPTy", int(p.bound == ht.TypeBound.Copyable)]
    if isinstance(p, ht.BoundedNatParam):
        return ["HPNat"]
    raise ValueError(f"cannot dump hugr param {p!r}")


def mk_ctx(m):
    ctx = cc.CompilerContext.__new__(cc.CompilerContext)
    ctx.current_mono_args = None if m is None else tuple(oarg(x) for x in m)
    return ctx


def to_hugr_any(a, ctx):
    return a.to_hugr(ctx)


# ---- operations ---------------------------------------------------------------------------
def run_case(c):
    op = c["op"]
    if op == "ip":                       # sequence of instantiate_partial steps
        f = fty(c["f"])
        out = []
        for step in c["steps"]:
            f = f.instantiate_partial([oarg(x) for x in step])
            out.append(d_fty(f))
        return out
    if op == "inst":                     # Instantiator(s, allow_partial=True) on a type/arg
        s = [oarg(x) for x in c["s"]]
        return d_arg(arg(c["t"]).transform(Instantiator(s, allow_partial=True)))
    if op == "cvi":
        return cc.compile_variable_idx(c["idx"], tuple(oarg(x) for x in c["m"]))
    if op == "pma":
        ps = [param(p) for p in c["params"]]
        mono, rem = cc.partially_monomorphize_args(ps, [arg(a) for a in c["args"]], mk_ctx(c["cur"]))
        return [[d_arg(a) for a in mono], [d_arg(a) for a in rem]]
    if op == "reqmono":
        ps = [param(p) for p in c["params"]]
        got = cc.require_monomorphization(ps)
        return sorted({i for i, p in enumerate(ps) if any(p is q for q in got)})
    if op == "tohugr":                   # arg.to_hugr(ctx) under one of the three contexts
        k = c["ctx"]
        if k[0] == "quant":
            ctx = QuantifiedToHugrContext([param(p) for p in k[1]])
        else:
            ctx = mk_ctx(k[1])
        return d_h(arg(c["t"]).to_hugr(ctx))
    if op == "poly":                     # CheckedFunctionDef.monomorphize: instantiate_partial + to_hugr_poly
        f = fty(c["f"])
        mono_ty = f.instantiate_partial(tuple(oarg(x) for x in c["m"]))
        h = mono_ty.to_hugr_poly(mk_ctx(c["m"]))
        return [[d_hparam(p) for p in h.params], d_h(h.body)]
    if op == "sig_m":                    # the signature as the body compiler sees it (ctx with mono args)
        f = fty(c["f"])
        return d_h(f._to_hugr_function_type(mk_ctx(c["m"])))
    raise ValueError(op)


def main():
    cases = json.load(sys.stdin)
    out = []
    for c in cases:
        try:
            out.append(run_case(c))
        except Exception as e:  # noqa: BLE001
            out.append(["EXC", type(e).__name__, str(e)[:120]])
    json.dump(out, sys.stdout)


if __name__ == "__main__":
    main()
