"""C13 — generic instantiation and monomorphization preserve meaning.   Tie: X.

1. re-check the theorems of coq/C13/Props.v (de Bruijn algebra of instantiate /
   instantiate_partial / compile_variable_idx / to_hugr under partial monomorphization /
   partially_monomorphize_args);
2. correspondence: generated signatures with interleaved type / const / comptime parameters
   and random full / partial / composed instantiations are built as REAL guppylang objects
   (impl_inst.py: tys.*, compiler.core under the shim) and as Coq terms; the model is
   evaluated by vm_compute and both sides are compared structurally (incl. preserve flags,
   const annotations, from_comptime_arg flags);
3. failing-input search, independent of the model, on the implementation's results:
   composition law, textual-substitution spec, identity law, rank law, marking law of
   partially_monomorphize_args, signature-vs-body agreement of monomorphize;
4. compile-level differential (gen_progs.py, impl_compile.py): generated programs whose generic
   functions forward their own type/const/comptime parameters to other generic functions, each
   instantiated >= 2 times in one compilation, are compiled with the real compiler together
   with their *textually substituted copy*; the two HUGRs must both validate (check_hugr),
   have the expected number of monomorphizations per function, and unfold from `main` to the
   same call tree (constants loaded, op histogram, call targets) up to names/numbering."""
import json

import vlib
from vlib import proof_coverage

LEVEL = "proof"
FILES = ["tys/ty.py", "tys/subst.py", "tys/param.py", "tys/arg.py", "tys/const.py",
         "compiler/core.py", "definition/function.py"]


def generate(ctx):
    for f in FILES:          # fail closed if an anchored file disappears
        ctx.int_src(f)


# ------------------------------------------------------------------ case generation ------
def gen_cases(ctx, G, r, scale):
    import gen_sigs as gs
    cases = []
    # A: composition (two partial steps, then the composed step in one go)
    for _ in range(300 * scale):
        f = G.sig(nmax=r.choice([2, 3, 3, 4, 5]), dependent=r.random() < 0.6)
        a1 = G.partial(f["params"], p_none=r.choice([0.3, 0.5, 0.7, 1.0]))
        r1 = gs.spec_partial(f, a1)
        a2 = G.partial(r1["params"], p_none=r.choice([0.0, 0.3, 0.6, 1.0]))
        cases.append({"op": "ip", "f": f, "steps": [a1, a2], "a12": gs.compose_args(a1, a2)})
    # B: the Instantiator alone, partial lists, out-of-range indices (shifting)
    for _ in range(150 * scale):
        ps = G.params(r.randint(1, 5))
        t = G.open_ty(ps, 3)
        s = G.partial(ps[:r.randint(0, len(ps))], p_none=0.4)
        cases.append({"op": "inst", "s": s, "t": t})
    # C: compile_variable_idx
    for _ in range(60 * scale):
        m = [None if r.random() < 0.5 else G.closed_ty(1) for _ in range(r.randint(1, 7))]
        for i, x in enumerate(m):
            if x is None:
                cases.append({"op": "cvi", "idx": i, "m": m})
    # D/E: partially_monomorphize_args / require_monomorphization
    for _ in range(200 * scale):
        ps = G.params(r.randint(1, 5))
        args = G.partial(ps, p_none=0.0)
        if any(a is None for a in args):
            continue
        cases.append({"op": "pma", "params": ps, "args": args, "cur": None})
        cases.append({"op": "reqmono", "params": ps})
    # F: to_hugr under the three contexts, monomorphize (instantiate_partial + to_hugr_poly)
    for _ in range(120 * scale):
        f = G.sig(nmax=4, dependent=r.random() < 0.5)
        ps = f["params"]
        args = G.partial(ps, p_none=0.0)
        if any(a is None for a in args):
            continue
        need = gs.needs_mono_spec(ps, args)
        # the monomorphization the compiler would choose, and a random one
        m_comp = [a if i in need else None for i, a in enumerate(args)]
        m_rand = G.partial(ps, p_none=0.5)
        for m in (m_comp, m_rand):
            cases.append({"op": "poly", "f": f, "m": m})
            cases.append({"op": "sig_m", "f": f, "m": m})
        t = G.open_ty(ps, 3)
        cases.append({"op": "tohugr", "ctx": ["mono", m_rand], "t": t})
        cases.append({"op": "tohugr", "ctx": ["mono", None], "t": t})
        cases.append({"op": "tohugr", "ctx": ["quant", ps], "t": t})
    return cases


def coq_expr(c):
    import gen_sigs as gs
    op = c["op"]
    if op == "ip":
        steps = gs.L(gs.colist(s) for s in c["steps"])
        e = f"enc_ftys (ip_steps {gs.cfty(c['f'])} {steps})"
        if "a12" in c:
            e += f" ++ enc_ftys (ip_steps {gs.cfty(c['f'])} {gs.L([gs.colist(c['a12'])])})"
        return e
    if op == "inst":
        return f"enc (inst {gs.colist(c['s'])} {gs.ctm(c['t'])})"
    if op == "cvi":
        return f"(cons (zn (compile_variable_idx {c['idx']} {gs.colist(c['m'])})) nil)"
    if op == "pma":
        cur = "None" if c["cur"] is None else f"(Some {gs.colist(c['cur'])})"
        return f"pma_enc (partially_monomorphize_args {gs.cparams(c['params'])} {gs.clist(c['args'])} {cur})"
    if op == "reqmono":
        return f"enc_nats (require_mono {gs.cparams(c['params'])})"
    if op == "tohugr":
        k = c["ctx"]
        if k[0] == "quant":
            return f"henc (to_hugr_q {gs.cparams(k[1])} {gs.ctm(c['t'])})"
        if k[1] is None:
            return f"henc (to_hugr0 {gs.ctm(c['t'])})"
        return f"henc (to_hugr_m {gs.colist(k[1])} {gs.ctm(c['t'])})"
    if op == "poly":
        return f"poly {gs.cfty(c['f'])} {gs.colist(c['m'])}"
    if op == "sig_m":
        return f"sig_m {gs.cfty(c['f'])} {gs.colist(c['m'])}"
    raise ValueError(op)


def coq_file(cases):
    import gen_sigs as gs
    lines = ["From Coq Require Import ZArith List Bool.", "From V.C13 Require Import Model ModelEnc.",
             "Definition cases : list (list Z) :="]
    lines.append(gs.L("(" + coq_expr(c) + ")\n" for c in cases) + ".")
    lines.append("Import ListNotations. Open Scope Z_scope. Set Printing Depth 1000000.")
    lines.append("Eval vm_compute in cases.")
    return "\n".join(lines)


def decode_model(c, zs):
    import gen_sigs as gs
    d = gs.Dec(zs)
    op = c["op"]
    if op == "ip":
        out = d.ftys()
        if "a12" in c:
            out = [out, d.ftys()[0]]
    elif op == "inst":
        out = d.tm()
    elif op == "cvi":
        out = d.n()
    elif op == "pma":
        out = [d.tlist(), d.tlist()]
    elif op == "reqmono":
        out = sorted(set(zs))
        d.i = len(zs)
    elif op in ("tohugr", "sig_m"):
        h = d.h()
        out = "ERR" if gs.has_err(h) else h
    elif op == "poly":
        ps, h = d.hparams(), d.h()
        out = "ERR" if gs.has_err(ps) or gs.has_err(h) else [ps, h]
    d.done()
    return out


def canon_impl(c, res):
    if isinstance(res, list) and res and res[0] == "EXC":
        return "ERR" if c["op"] in ("tohugr", "sig_m", "poly") else res
    return res


# ------------------------------------------------------------------ laws on the impl -----
def law_failures(c, res, allres):
    """Model-independent checks of the implementation's own results.  Returns a list of
    (key, name, detail)."""
    import gen_sigs as gs
    out = []
    op = c["op"]
    if isinstance(res, list) and res and res[0] == "EXC":
        if op in ("ip", "inst", "cvi", "pma", "reqmono"):
            out.append((f"exc:{op}:{json.dumps(c, sort_keys=True)[:200]}", "implementation raised on a well-formed input", {"case": c, "got": res}))
        return out
    if op == "ip" and "a12" in c:
        (r1, r2), r12 = res
        f, a1, a2, a12 = c["f"], c["steps"][0], c["steps"][1], c["a12"]
        strict = gs.closed_ctypes(f["params"])
        lhs, rhs = (r2, r12) if strict else (gs.erase_fty(r2), gs.erase_fty(r12))
        if lhs != rhs:
            out.append(("compose:" + json.dumps([f, a1, a2], sort_keys=True),
                        "instantiate_partial_compose" + ("" if strict else "_erased"),
                        {"signature": f, "first": a1, "then": a2, "all_at_once": a12,
                         "two_steps_give": r2, "one_step_gives": r12,
                         "compared": "structurally" if strict else "modulo const annotations"}))
        spec = gs.spec_partial(f, a12)
        if gs.erase_fty(r12) != gs.erase_fty(spec):
            out.append(("subst:" + json.dumps([f, a12], sort_keys=True), "instantiate = textual substitution",
                        {"signature": f, "args": a12, "implementation": r12, "textual_substitution": spec,
                         "compared": "modulo const annotations"}))
        want = [i for i in range(len(r12["params"]))]
        if [p[1] for p in r12["params"]] != want:
            out.append(("renumber:" + json.dumps([f, a12], sort_keys=True), "remaining parameters renumbered 0..k-1",
                        {"signature": f, "args": a12, "params": r12["params"]}))
    if op == "cvi":
        k = sum(1 for x in c["m"][:c["idx"]] if x is None)
        if res != k:
            out.append((f"rank:{json.dumps(c, sort_keys=True)}", "compile_variable_idx_rank",
                        {"case": c, "got": res, "rank_among_unspecialised": k}))
    if op == "pma":
        mono, rem = res
        need = gs.needs_mono_spec(c["params"], c["args"])
        got = {i for i, x in enumerate(mono) if x is not None}
        ok = got == need and all(mono[i] == c["args"][i] for i in got) and rem == [a for i, a in enumerate(c["args"]) if i not in got]
        if not ok:
            out.append((f"pma:{json.dumps(c, sort_keys=True)}", "partially_monomorphize_args marks exactly the non-nat const params and the variables their types mention",
                        {"case": c, "got": res, "expected_marked": sorted(need)}))
    return out


def compile_level(ctx, r, n):
    """Returns (programs run, list of failures (key, name, detail)), smallest failure first."""
    import hashlib
    import gen_progs as gp
    progs = []
    for p in sorted((ctx.dir / "corpus").glob("*.progs")):
        progs += json.loads(p.read_text())
    for _ in range(n):
        progs.append(gp.make(r))
    payload = [{"id": i, "sources": {"generic": p["generic"], "copy": p["copy"]}} for i, p in enumerate(progs)]
    res = json.loads(ctx.impl("impl_compile.py", payload))
    fails, stats = [], {"programs": len(progs), "with_preserve_instantiations": sum(1 for p in progs if p.get("has_preserve")), "defs_generic": 0, "instantiations": 0, "multi_instantiated_forwarders": 0}
    for p, o in zip(progs, res):
        g, k = o["generic"], o["copy"]
        why = []
        if "error" in k:
            why.append(f"the substituted copy does not compile: {k['error']}: {k['msg']}")
        if "error" in g:
            why.append(f"the generic program does not compile: {g['error']}: {g['msg']} {g.get('where')}")
        if not why:
            if g["valid"] is not True:
                why.append(f"HUGR of the generic program rejected by check_hugr: {g['valid']}")
            if k["valid"] is not True:
                why.append(f"HUGR of the copy rejected by check_hugr: {k['valid']}")
            def strip(t):
                return {"consts": t["consts"], "ops": t["ops"],
                        "calls": sorted((strip(c) for c in t["calls"]), key=lambda x: json.dumps(x, sort_keys=True))}
            gu, ku = g["unfold"], k["unfold"]
            if p.get("has_preserve") and gu is not None and ku is not None:
                # a type variable instantiated with None / a tuple is ONE port in the generic
                # function but a row in the copy: pack/unpack ops legitimately differ
                gu, ku = strip(gu), strip(ku)
            exp_outs = p.get("expected_outs")
            if exp_outs is not None and g["outs"] != {f: [n] for f, n in exp_outs.items() if f in g["outs"]}:
                why.append(f"output ports of the generic functions: got {g['outs']}, the declared return types give {exp_outs}")
            if p.get("compare") != "valid-only" and gu != ku:
                why.append("call trees differ: some call site of the generic program targets a specialisation that loads other constants / has other ops than the copy's")
            if g["defs"] != p["expected_defs"]:
                why.append(f"monomorphizations per function: got {g['defs']}, expected {p['expected_defs']}")
            if k["defs"] != p["instantiations"]:
                why.append(f"copy has {k['defs']} functions, generator expected {p['instantiations']} (harness problem)")
            stats["defs_generic"] += sum(g["defs"].values())
            stats["instantiations"] += sum(p["instantiations"].values())
            stats["multi_instantiated_forwarders"] += sum(1 for f, c in p["instantiations"].items() if f.startswith("mid") and c >= 2)
        if why:
            key = "prog:" + hashlib.sha1(p["generic"].encode()).hexdigest()[:12]
            fails.append((len(p["generic"]), key, "generic program = textually substituted copy (compile level)",
                          {"why": why, "generic_program": p["generic"], "substituted_copy": p["copy"],
                           "expected_monomorphizations": p["expected_defs"],
                           "generic_summary": g if "error" in g else {"valid": g["valid"], "defs": g["defs"]},
                           "replay": "save generic_program as prog.py (add `import repo_shim` as first line and `main.compile_function()` at the end); PYTHONPATH=/verif/tools VERIF_REPO=<tree> /venv/bin/python prog.py; or feed [{id, sources:{generic, copy}}] to props/C13/impl_compile.py"}))
    fails.sort(key=lambda f: f[0])
    return stats, [f[1:] for f in fails]


def replay_cmd(c):
    return ("echo '" + json.dumps([{k: v for k, v in c.items() if k != "a12"}]) + "' | PYTHONPATH=/verif/tools VERIF_REPO=<tree> /venv/bin/python /verif/props/C13/impl_inst.py")


def run(ctx):
    import gen_sigs as gs
    generate(ctx)
    info = ctx.coq_props()
    r = vlib.rng(ctx.seed, "C13")
    G = gs.Gen(r)
    # ---- corpus first
    corpus, strict_laws = [], []
    for p in sorted((ctx.dir / "corpus").glob("*.json")):
        for c in json.loads(p.read_text()):
            (strict_laws if "law" in c else corpus).append(c)
    cases = corpus + gen_cases(ctx, G, r, 1 if ctx.quick else 8)
    # ---- implementation
    impl_in = [{k: v for k, v in c.items() if k != "a12"} for c in cases]
    for c, i in zip(cases, impl_in):
        if c["op"] == "ip" and "a12" in c:
            i["steps"] = c["steps"]
    extra = [{"op": "ip", "f": c["f"], "steps": [c["a12"]]} for c in cases if c["op"] == "ip" and "a12" in c]
    law_in = []
    for c in strict_laws:
        if c["law"] == "identity":
            law_in.append({"op": "ip", "f": c["f"], "steps": [[None] * len(c["f"]["params"])]})
        else:
            law_in.append({"op": "ip", "f": c["f"], "steps": c["steps"]})
            law_in.append({"op": "ip", "f": c["f"], "steps": [gs.compose_args(*c["steps"])]})
    raw = json.loads(ctx.impl("impl_inst.py", impl_in + extra + law_in))
    impl_main, impl_extra, impl_law = raw[:len(cases)], raw[len(cases):len(cases) + len(extra)], raw[len(cases) + len(extra):]
    it = iter(impl_extra)
    impl = []
    for c, res in zip(cases, impl_main):
        if c["op"] == "ip" and "a12" in c:
            e = next(it)
            if (isinstance(res, list) and res and res[0] == "EXC") or (e and e[0] == "EXC"):
                impl.append(["EXC", "ip", [res, e]])
            else:
                impl.append([res, e[0]])
        else:
            impl.append(canon_impl(c, res))
    # ---- model (vm_compute), 400 cases per file
    model = None
    if (vlib.COQ / "C13" / "ModelEnc.vo").exists():
        chunks = [cases[i:i + 150] for i in range(0, len(cases), 150)]
        try:
            outs = ctx.coq_eval_many({f"c{i}": coq_file(ch) for i, ch in enumerate(chunks)})
            model = []
            for i, ch in enumerate(chunks):
                vals = vlib.parse_coq_values(outs[f"c{i}"])[0]
                assert len(vals) == len(ch)
                model += [decode_model(c, z) for c, z in zip(ch, vals)]
        except (RuntimeError, AssertionError) as e:
            model = None
            ctx.notes.append(f"model evaluation failed: {str(e)[:600]}")
    # ---- compare model and implementation
    disagreements = 0
    if model is not None:
        for c, i, m in zip(cases, impl, model):
            if i != m:
                disagreements += 1
                if disagreements <= 3:
                    ctx.report("corr:" + json.dumps({k: v for k, v in c.items()}, sort_keys=True)[:400], "correspondence",
                               f"model vs implementation: {c['op']}",
                               {"case": c, "implementation": i, "model": m, "replay": replay_cmd(c),
                                "meaning": "the Coq model of Instantiator/instantiate_partial/compile_variable_idx/to_hugr/partially_monomorphize_args and the real code disagree on this input"})
    else:
        ctx.report("model-eval", "correspondence", "model could not be evaluated", {"notes": ctx.notes}, found_input=False)
    # ---- laws on the implementation alone (failing-input search; always run)
    nlaw, law_fail = 0, []
    for c, i in zip(cases, impl):
        fails = law_failures(c, i, impl)
        nlaw += 1
        law_fail += [(c, f) for f in fails]
    # monomorphize: declared signature (instantiate_partial + to_hugr_poly) = the signature the
    # body compiler derives under the same mono args
    by = {}
    for c, i in zip(cases, impl):
        if c["op"] in ("poly", "sig_m"):
            by.setdefault(json.dumps([c["f"], c["m"]], sort_keys=True), {})[c["op"]] = (c, i)
    sig_checked = sig_agree = 0
    for k, v in by.items():
        if "poly" in v and "sig_m" in v:
            (c, p), (_, s) = v["poly"], v["sig_m"]
            if p == "ERR" or s == "ERR":
                continue
            sig_checked += 1
            if p[1] == s:
                sig_agree += 1
            else:
                law_fail.append((c, ("sigbody:" + k[:400], "to_hugr(instantiate_partial f m) = to_hugr_m m f (declared signature vs body view)",
                                     {"signature": c["f"], "mono_args": c["m"], "declared": p[1], "body_view": s, "replay": replay_cmd(c)})))
    for c, (key, name, detail) in law_fail[:3]:
        detail = dict(detail)
        detail.setdefault("replay", replay_cmd(c))
        ctx.report(key, "counterexample", name, detail)
    # strict laws from the corpus (known findings live here)
    it = iter(impl_law)
    for c in strict_laws:
        if c["law"] == "identity":
            got = next(it)[0]
            want = dict(c["f"])
            want["cargs"] = [["CVar", p[2], p[1]] for p in c["f"]["params"] if p[0] == "PCon" and p[3]]
            if got != want:
                ctx.report(c["key"], "counterexample", "identity law: instantiate_partial with no argument given returns the same signature",
                           {"signature": want, "got": got, "replay": replay_cmd({"op": "ip", "f": c["f"], "steps": [[None] * len(c['f']['params'])]})})
        else:
            two, one = next(it), next(it)
            if two[-1] != one[0]:
                ctx.report(c["key"], "counterexample", "composition law under structural equality",
                           {"signature": c["f"], "steps": c["steps"], "two_steps_give": two[-1], "one_step_gives": one[0],
                            "replay": replay_cmd({"op": "ip", "f": c["f"], "steps": c["steps"]})})
    # ---- compile-level differential
    try:
        cstats, cfails = compile_level(ctx, vlib.rng(ctx.seed, "C13-progs"), 40 if ctx.quick else 400)
    except Exception as e:  # noqa: BLE001
        cstats, cfails = {"programs": 0}, []
        ctx.report("compile-harness", "correspondence", "compile-level harness crashed", {"error": str(e)[-1500:]}, found_input=False)
    unknown = 0
    for key, name, detail in cfails:
        if ctx.is_known(key) is None:
            unknown += 1
            if unknown > 2:
                continue
        ctx.report(key, "counterexample", name, detail)
    # ---- source tie for the hand-transcribed `_pack_returns` condition (Model.pack_returns_consumes)
    import ast as _ast
    want = "isinstance(return_ty, TupleType | NoneType) and (not return_ty.preserve)"
    got = None
    try:
        tree = _ast.parse(ctx.int_src("compiler/expr_compiler.py").read_text())
        fn = next(n for n in _ast.walk(tree) if isinstance(n, _ast.FunctionDef) and n.name == "_pack_returns")
        got = _ast.unparse(next(n for n in fn.body if isinstance(n, _ast.If)).test)
    except Exception as e:  # noqa: BLE001
        got = f"<unreadable: {e}>"
    if _ast.unparse(_ast.parse(want, mode="eval").body) != got and not cfails:
        ctx.report("pack_returns-shape", "correspondence", "_pack_returns condition differs from the modelled one (Model.pack_returns_consumes)",
                   {"modelled": want, "source": got, "compile_level_programs": cstats.get("programs")}, found_input=False)
    if not info["ok"]:
        if not law_fail and not disagreements and not cfails:
            ctx.report("proof-broken:" + str(info["failed"]), "proof-broken", str(info["failed"]),
                       {"coq_error": vlib.CoqResult(False, info["log"]).error_excerpt(), "searched_cases": len(cases)},
                       found_input=False)
    # ---- evidence
    hist = {}
    for c in cases:
        hist[c["op"]] = hist.get(c["op"], 0) + 1
    ip = [(c, i) for c, i in zip(cases, impl) if c["op"] == "ip" and "a12" in c and not (i and i[0] == "EXC")]
    nparams = {}
    for c, _ in ip:
        n = len(c["f"]["params"])
        nparams[n] = nparams.get(n, 0) + 1
    nontriv = len({json.dumps(c, sort_keys=True) for c, i in ip
                   if any(x is None for x in c["steps"][0]) and any(x is not None for x in c["steps"][0])
                   and any(p[0] == "PCon" for p in c["f"]["params"])})
    cov = proof_coverage(
        info, "make -f Makefile.C13 C13/Props.vo && coqc C13/Props.v (Print Assumptions)",
        ["Coq 8.16.1 kernel; vm_compute for Examples/_refuted witnesses and for evaluating the model in the correspondence",
         "hand-written model coq/C13/Model.v of Instantiator, *.transform, FunctionType.instantiate_partial, with_idx/to_bound/instantiate_bounds, to_hugr under the three ToHugrContexts, compile_variable_idx, require_monomorphization, partially_monomorphize_args; tied to the code by the correspondence only",
         "props/C13/impl_inst.py (JSON <-> real guppylang objects, structural dump), gen_sigs.py (generator, decoder), tools/repo_shim.py",
         "not modelled: display names, existential variables/Substituter, StructType.fields, check_arg, the HUGR builder; 'same runtime results' is reduced to the type-level commutation (no emulator for /repo HUGR)"],
        evaluations=len(cases), distinct_nontrivial=nontriv,
        rule="non-trivial = composed-instantiation case whose first step specialises some but not all parameters of a signature with at least one const parameter (distinct by JSON)",
        traces_validated_against_impl=len(cases) if model is not None else 0,
        model_impl_disagreements=disagreements, law_checks=nlaw, law_failures=len(law_fail),
        signature_vs_body_checked=sig_checked, signature_vs_body_agree=sig_agree,
        op_histogram=hist, compose_cases_by_param_count=nparams,
        compose_cases_dependent_const_types=sum(1 for c, _ in ip if not gs.closed_ctypes(c["f"]["params"])),
        compose_cases_with_comptime=sum(1 for c, _ in ip if any(p[0] == "PCon" and p[3] for p in c["f"]["params"])),
        hugr_cases_error_both=sum(1 for c, i in zip(cases, impl) if c["op"] in ("tohugr", "poly", "sig_m") and i == "ERR"),
        corpus_cases=len(corpus), strict_law_cases=len(strict_laws),
        compile_level=dict(cstats, failures=len(cfails)),
        samples=[{"case": cases[j], "impl": impl[j]} for j in (len(corpus), len(cases) // 2, len(cases) - 1) if j < len(cases)],
        notes=ctx.notes)
    return ctx.finish(LEVEL, cov, [
        "arguments of a partial instantiation are closed (asserted by partially_monomorphize_args); signatures are well-scoped (const parameter types mention earlier parameters only)",
        "const annotations (BoundConstVar.ty) are compared exactly in the correspondence but erased in the composition law when const parameter types are dependent (see known findings)",
        "type-level commutation only: values/runtime behaviour are not modelled"])
