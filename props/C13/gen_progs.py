"""C13 compile-level differential: generator of Guppy programs whose generic functions forward
their own type / const / comptime parameters to other generic functions, each instantiated
several times in one compilation — together with the *textually substituted copy* of the same
program (the property's own specification) and the number of monomorphizations expected per
function.

A function has parameters
    {"k": "ct", "n": name, "ty": "float"|"int"|"bool"|"nat"}   name: ty @comptime
    {"k": "cd", "n": name, "tv": "T"|"U"}                      name: T @comptime   (dependent)
    {"k": "v",  "n": name, "tv": "T"|"U"}                      name: T              (value)
a list of calls (callee, argument expressions) and returns the tuple of all its parameters
and call results.  Everything is deterministic given the PRNG."""
import re

HEADER = """from guppylang import guppy
from guppylang.std.builtins import comptime, nat

T = guppy.type_var("T", copyable=True, droppable=True)
U = guppy.type_var("U", copyable=True, droppable=True)
"""

#: instantiations of a type parameter that exercise the `preserve` flag (None, empty tuple,
#: 1-tuples, nested tuples) with a value of that type
PRES = {"None": "None", "tuple[()]": "()", "tuple[int]": "(7,)",
        "tuple[int, tuple[float, bool]]": "(3, (1.5, True))", "tuple[None, int]": "(None, 4)",
        "tuple[tuple[()], tuple[int]]": "((), (5,))"}

LITS = {"float": ["1.5", "4.0", "0.25", "-2.5", "8.0"], "int": ["7", "-3", "0", "12"],
        "bool": ["True", "False"], "nat": ["3", "4", "0", "9"]}


def sub_words(text, mapping):
    if not mapping:
        return text
    return re.sub(r"\b(" + "|".join(map(re.escape, mapping)) + r")\b", lambda m: mapping[m.group(1)], text)


def tuple_ty(parts):
    return parts[0] if len(parts) == 1 else "tuple[" + ", ".join(parts) + "]"


class Fn:
    def __init__(self, name, params):
        self.name, self.params, self.calls = name, params, []

    def tvs(self):
        out = []
        for p in self.params:
            if "tv" in p and p["tv"] not in out:
                out.append(p["tv"])
        return out

    def ptype(self, p):
        return p.get("ty") or p["tv"]

    def ret_parts(self):
        parts = [self.ptype(p) for p in self.params]
        for callee, _args, bind in self.calls:
            parts.append(sub_words(callee.ret_type(), bind))
        return parts

    def ret_type(self):
        return tuple_ty(self.ret_parts())

    def sig(self, env=None):
        """Parameter list source; with env: the substituted copy (comptime params dropped)."""
        out = []
        for p in self.params:
            if p["k"] == "v":
                out.append(f"{p['n']}: {sub_words(p['tv'], env or {})}")
            elif env is None:
                out.append(f"{p['n']}: {self.ptype(p)} @ comptime")
        return ", ".join(out)


def gen_program(r, nmid=None):
    """Returns (functions bottom-up, main calls)."""
    fns = []
    nleaf = r.randint(1, 2)
    nmid = r.randint(1, 3) if nmid is None else nmid

    def mk_params(i):
        ps = []
        shape = r.choice(["ct", "dep", "dep", "mixed", "val", "val", "ret", "ret"])
        if shape == "ret":                  # returns the bare type variable
            return [{"k": "v", "n": "a", "tv": "T"}]
        if shape in ("val", "mixed") or (shape == "dep" and r.random() < 0.4):
            ps.append({"k": "v", "n": "a", "tv": "T"})
        if shape in ("dep", "mixed"):
            ps.append({"k": "cd", "n": "x", "tv": "T"})
            if r.random() < 0.3:
                ps.append({"k": "cd", "n": "w", "tv": "T"})
        if shape in ("ct", "mixed", "val") or r.random() < 0.3:
            ps.append({"k": "ct", "n": "y", "ty": r.choice(["float", "int", "bool", "nat", "float", "nat"])})
        if r.random() < 0.3:
            ps.append({"k": "ct", "n": "z", "ty": r.choice(["nat", "int", "float"])})
        return ps

    for i in range(nleaf):
        fns.append(Fn(f"leaf{i}", mk_params(i)))
    for i in range(nmid):
        f = Fn(f"mid{i}", mk_params(i))
        for _ in range(r.randint(1, 2)):
            callee = r.choice(fns)          # any earlier function (leaf or mid): DAG
            c = make_call(r, f, callee)
            if c is not None:
                f.calls.append(c)
        fns.append(f)
    main = Fn("main", [])
    tops = [f for f in fns if f.name.startswith("mid")] or fns
    for f in tops:
        for _ in range(r.randint(2, 3)):   # every forwarding function is instantiated >= 2 times
            c = make_call(r, main, f)
            if c is not None:
                main.calls.append(c)
    return fns, main


def make_call(r, caller, callee):
    """Chooses well-typed argument expressions.  Returns (callee, args, bind) where bind maps
    the callee's type variables to a caller-side type expression, or None."""
    own_ct = [p for p in caller.params if p["k"] == "ct"]
    bind = {}
    for tv in callee.tvs():
        cands = []
        for ctv in caller.tvs():
            cands += [ctv] * 3
        cands += ["float", "int"]
        if any(p["ty"] == "nat" for p in own_ct):
            cands += ["nat", "nat"]
        if USE_PRES[0] and not any(p["k"] == "cd" and p["tv"] == tv for p in callee.params):
            cands += list(PRES) * 2
        bind[tv] = r.choice(cands)
    args, first_of_tv = [], set()
    for p in callee.params:
        if p["k"] == "ct":
            fw = [q["n"] for q in own_ct if q["ty"] == p["ty"]]
            args.append(r.choice(fw) if fw and r.random() < 0.75 else r.choice(LITS[p["ty"]]))
            continue
        ty = bind[p["tv"]]
        if ty in ("T", "U"):                      # the caller's own type variable
            fw = [q["n"] for q in caller.params if q.get("tv") == ty and (p["k"] == "v" or q["k"] == "cd")]
            if not fw:
                return None
            args.append(r.choice(fw))
        elif ty in PRES:
            USE_PRES[1] = True
            args.append(PRES[ty])
        else:
            fw = [q["n"] for q in own_ct if q["ty"] == ty]
            need_typed = ty == "nat" and p["tv"] not in first_of_tv   # inference: first T-typed arg fixes T
            if fw and (need_typed or r.random() < 0.7):
                args.append(r.choice(fw))
            elif need_typed:
                return None
            else:
                args.append(r.choice(LITS[ty]))
        first_of_tv.add(p["tv"])
    return callee, args, bind


# ------------------------------------------------------------------ source text ----------
def body_lines(f, call_text):
    lines, comps = [], [p["n"] for p in f.params]
    for i, c in enumerate(f.calls):
        lines.append(f"    r{i} = {call_text(i, c)}")
        comps.append(f"r{i}")
    if not comps:
        return ["    return 0"], "int"
    ret = comps[0] if len(comps) == 1 else "(" + ", ".join(comps) + ")"
    lines.append(f"    return {ret}")
    return lines, None


def generic_source(fns, main):
    out = [HEADER]
    for f in fns + [main]:
        lines, _ = body_lines(f, lambda i, c: f"{c[0].name}({', '.join(c[1])})")
        out.append("@guppy")
        out.append(f"def {f.name}({f.sig()}) -> {f.ret_type() if (f.params or f.calls) else 'int'}:")
        out += lines
        out.append("")
    return "\n".join(out)


def callee_env(caller_env, c):
    callee, args, bind = c
    env = {}
    for tv, ty in bind.items():
        env[tv] = caller_env.get(ty, ty)
    for p, a in zip(callee.params, args):
        if p["k"] != "v":
            env[p["n"]] = caller_env.get(a, a)
    return env


def env_key(f, env):
    return (f.name,) + tuple((k, env[k]) for k in sorted(env))


def mono_key(f, env):
    """Projection of an instantiation onto what the compiler must monomorphize (independent
    reading of partially_monomorphize_args): non-nat const parameters, and the type variable
    of every dependent const parameter."""
    key = []
    for p in f.params:
        if p["k"] == "ct" and p["ty"] != "nat":
            key.append((p["n"], env[p["n"]]))
        if p["k"] == "cd":
            key.append((p["tv"], env[p["tv"]]))
            if env[p["tv"]] != "nat":
                key.append((p["n"], env[p["n"]]))
    return tuple(sorted(set(key)))


def copy_source(fns, main):
    """The program with every instantiation written out by textual substitution."""
    insts, order = {}, []

    def visit(f, env):
        k = env_key(f, env)
        if k in insts:
            return insts[k][0]
        name = f.name if f.name == "main" else f"{f.name}__{len([1 for q in insts if q[0] == f.name])}"
        insts[k] = [name, f, env, None]
        subs = [visit(c[0], callee_env(env, c)) for c in f.calls]
        insts[k][3] = subs
        order.append(k)
        return name

    visit(main, {})
    out = [HEADER]
    for k in order:
        name, f, env, subs = insts[k]

        def call_text(i, c, env=env, subs=subs):
            callee, args, _ = c
            real = [sub_words(a, env) for p, a in zip(callee.params, args) if p["k"] == "v"]
            return f"{subs[i]}({', '.join(real)})"
        lines, _ = body_lines(f, call_text)
        lits = {n: v for n, v in env.items() if n not in ("T", "U")}
        lines = [sub_words(ln, lits) for ln in lines]
        out.append("@guppy")
        rt = sub_words(f.ret_type(), {tv: env[tv] for tv in ("T", "U") if tv in env}) if (f.params or f.calls) else "int"
        out.append(f"def {name}({f.sig(env)}) -> {rt}:")
        out += lines
        out.append("")
    expected = {}
    for k in order:
        _, f, env, _ = insts[k]
        expected.setdefault(f.name, set()).add(mono_key(f, env))
    ninst = {}
    for k in order:
        ninst[k[0]] = ninst.get(k[0], 0) + 1
    return "\n".join(out), {n: len(s) for n, s in expected.items()}, ninst


def top_components(ty):
    """Number of top-level components of a `tuple[...]` annotation."""
    inner = ty[len("tuple["):-1].strip()
    if inner == "()":
        return 0
    depth, n = 0, 1
    for ch in inner:
        depth += ch == "["
        depth -= ch == "]"
        n += ch == "," and depth == 0
    return n


def row_len(ty):
    """len(type_to_row(ty)) for a written (never `preserve`d) annotation."""
    if ty == "None":
        return 0
    return top_components(ty) if ty.startswith("tuple[") else 1


def expected_outs(fns, main):
    """Output ports of the HUGR function: generic = row of the DECLARED return type (a bare type
    variable is one port whatever it is instantiated with); copy = row of the substituted one."""
    gen = {f.name: row_len(f.ret_type()) for f in fns + [main]}
    return gen


USE_PRES = [True, False]


def make(r):
    USE_PRES[0] = r.random() < 0.55     # the other programs compare pack/unpack ops strictly
    USE_PRES[1] = False
    for _ in range(50):
        fns, main = gen_program(r)
        if main.calls:
            break
    g = generic_source(fns, main)
    c, expected, ninst = copy_source(fns, main)
    return {"generic": g, "copy": c, "expected_defs": expected, "instantiations": ninst,
            "expected_outs": expected_outs(fns, main),
            "has_preserve": USE_PRES[1]}
