"""C13 compile-level harness: compiles Guppy programs with the REAL compiler of the tree under
test (under repo_shim) and summarises the resulting HUGR up to function names / numbering.

stdin: JSON list of {"id":…, "sources": {"generic": src, "copy": src}}; stdout: JSON list of
{"id":…, "generic": summary|error, "copy": summary|error}.

summary = {"valid": bool, "defs": {base name: number of FuncDefns}, "unfold": tree} where
tree(f, env) = {"consts": sorted constants loaded in f's body (generic nat parameters resolved
through the call's type arguments), "ops": histogram of the other ops of the body, "calls":
sorted trees of the call targets}.  Base name = name up to "__"."""
import importlib.util
import json
import sys
import traceback

import repo_shim  # noqa: F401
from hugr import ops
from hugr import tys as ht
from hugr.hugr.node_port import InPort
from selene_hugr_qis_compiler import check_hugr

SKIP = {"Const", "LoadConst", "prelude.load_nat", "arithmetic.conversions.ifromusize"}
PACK = {"MakeTuple", "UnpackTuple"}


def opname(o):
    if isinstance(o, ops.ExtOp):
        return o.op_def().qualified_name()
    if isinstance(o, ops.Custom):
        return f"{o.extension}.{o.op_name}"
    return type(o).__name__


def constrepr(v):
    n = type(v).__name__
    if n in ("IntVal", "UnsignedIntVal"):
        return f"int:{v.v}"
    if n == "FloatVal":
        return f"float:{v.v!r}"
    return repr(v)


def summarize(pkg):
    h = pkg.modules[0]
    valid = True
    try:
        check_hugr(pkg.to_bytes())
    except BaseException as e:  # noqa: BLE001
        valid = f"{type(e).__name__}: {str(e)[:200]}"

    def desc(n):
        for c in h.children(n):
            yield c
            yield from desc(c)

    defs, outs, entry = {}, {}, None
    for n in h.children(h.module_root):
        op = h[n].op
        if isinstance(op, ops.FuncDefn):
            base = op.f_name.split("__")[0]
            defs[base] = defs.get(base, 0) + 1
            outs.setdefault(base, set()).add(len(op.signature.body.output))
            if op.f_name == "main":
                entry = n
    memo = {}

    def resolve(a, env):
        if isinstance(a, ht.VariableArg):
            return env[a.idx] if a.idx < len(env) else f"?var{a.idx}"
        if isinstance(a, ht.BoundedNatArg):
            return a.n
        return "ty"

    def unfold(n, env):
        key = (n.idx, tuple(map(str, env)))
        if key in memo:
            return memo[key]
        consts, hist, packs, calls = [], {}, {}, []
        for d in desc(n):
            o = h[d].op
            name = opname(o)
            if isinstance(o, ops.Const):
                consts.append(constrepr(o.val))
            elif name == "prelude.load_nat":
                consts.append(f"int:{resolve(o.args[0], env)}")
            if name in PACK:
                packs[name] = packs.get(name, 0) + 1
            elif name not in SKIP:
                hist[name] = hist.get(name, 0) + 1
            if isinstance(o, ops.Call):
                targs = [resolve(a, env) for a in o.type_args]
                for p in h.linked_ports(InPort(d, o._function_port_offset())):
                    calls.append(unfold(p.node, targs))
        out = {"consts": sorted(consts), "ops": dict(sorted(hist.items())), "packs": dict(sorted(packs.items())),
               "calls": sorted(calls, key=lambda t: json.dumps(t, sort_keys=True))}
        memo[key] = out
        return out

    return {"valid": valid, "defs": defs, "outs": {k: sorted(v) for k, v in outs.items()}, "unfold": unfold(entry, []) if entry is not None else None}


def compile_src(ident, kind, src):
    path = f"c13_{ident}_{kind}.py"
    with open(path, "w") as f:
        f.write(src)
    spec = importlib.util.spec_from_file_location(f"c13_{ident}_{kind}", path)
    mod = importlib.util.module_from_spec(spec)
    sys.modules[spec.name] = mod
    try:
        spec.loader.exec_module(mod)
        pkg = mod.main.compile_function()
        return summarize(pkg)
    except BaseException as e:  # noqa: BLE001
        msg = str(e) or repr(e)
        tb = traceback.format_exc().strip().split("\n")
        return {"error": type(e).__name__, "msg": msg[:300], "where": tb[-3:] if len(tb) > 3 else tb}


def main():
    out = []
    for c in json.load(sys.stdin):
        r = {"id": c["id"]}
        for kind, src in c["sources"].items():
            r[kind] = compile_src(c["id"], kind, src)
        out.append(r)
    json.dump(out, sys.stdout)


if __name__ == "__main__":
    main()
