"""C18 translator: std/iter.py (Range, Range.__next__, Range.__iter__, _range1/2/3,
_range_comptime, the overload order of `range`) + the int dunder table of std/num.py
-> coq/C18/GenRange.v.  Fail-closed.

Reading conventions: the bodies are *Guppy* code, so operators on `int` values are the HUGR
ops that std/num.py binds to the int dunders (`+` -> __add__ -> iadd: wraps modulo 2^64;
`>=` -> __ge__ -> ige_s ...); the op names are read from num.py on every run, their
semantics is coq/C18/ModelWrap.v.  A `nat` expression passed where the struct field is `int`
is the same 64 bits read signed (nat_as_int); the check confirms on the compiled HUGR that no
conversion op is emitted there and that __next__ contains exactly the ops assumed here."""
import ast

from tr_common import ExprTr, HEADER, TranslatorError, find_class, find_func, parse_file, strip_doc, BOOL_OPS

DUNDER = {"add": "__add__", "sub": "__sub__", "ge": "__ge__", "gt": "__gt__", "le": "__le__", "lt": "__lt__"}
KNOWN_OPS = {"iadd": "Z", "isub": "Z", "ige_s": "bool", "igt_s": "bool", "ile_s": "bool", "ilt_s": "bool",
             "ige_u": "bool", "igt_u": "bool", "ile_u": "bool", "ilt_u": "bool"}
I64 = (-(1 << 63), (1 << 63) - 1)


def _u(n):
    return ast.unparse(n)


def int_op_table(num_mod):
    """{'add': ('iadd {a} {b}', 'Z'), ...} from `@extend_type(int_type_def) class int`."""
    cls = None
    for n in num_mod.body:
        if isinstance(n, ast.ClassDef) and any(_u(d) == "extend_type(int_type_def)" for d in n.decorator_list):
            cls = n
    if cls is None:
        raise TranslatorError("num.py: no class decorated with @extend_type(int_type_def)")
    table, names = {}, {}
    for key, dunder in DUNDER.items():
        f = find_func(cls, dunder)
        op = None
        for d in f.decorator_list:
            s = _u(d)
            for pre, post in (("hugr_op(int_op('", "'))"), ("custom_function(BoolOpCompiler(int_op('", "')))")):
                if s.startswith(pre) and s.endswith(post):
                    op = s[len(pre):-len(post)]
        args = [(a.arg, _u(a.annotation)) for a in f.args.args]
        if op is None or [t for _, t in args] != ["int", "int"]:
            raise TranslatorError(f"num.py: int.{dunder} is not a plain HUGR int op on (int, int): {[_u(d) for d in f.decorator_list]}")
        if op not in KNOWN_OPS:
            raise TranslatorError(f"num.py: int.{dunder} -> `{op}` has no semantics in ModelWrap.v")
        table[key] = (op + " {a} {b}", KNOWN_OPS[op])
        names[dunder] = op
    return table, names


def has_deco(f, name):
    return any(_u(d) == name for d in f.decorator_list)


class RangeTr:
    def __init__(self, ops):
        self.ops = ops

    def tr(self, env):
        def range_ctor(tr, call):
            if len(call.args) != 3 or call.keywords:
                tr.fail(call, "Range(...) needs three positional arguments")
            parts = []
            for a in call.args:
                t, ty = tr.expr(a)
                if ty == "nat":
                    t = f"(nat_as_int {t})"
                elif ty != "Z":
                    tr.fail(a, f"Range field of type {ty}")
                parts.append(t)
            return "(mkRange " + " ".join(parts) + ")", "Range"

        def nothing(tr, call):
            if call.args or call.keywords:
                tr.fail(call, "nothing() takes no arguments")
            return "None", "option"

        def some(tr, call):
            if len(call.args) != 1 or call.keywords:
                tr.fail(call, "some(x)")
            t, ty = tr.expr(call.args[0])
            return f"(Some {t})", "option"

        def sized(tr, call):
            if len(call.args) != 1 or call.keywords:
                tr.fail(call, "SizedIter(x)")
            t, ty = tr.expr(call.args[0])
            return t, f"Sized {ty}"

        return ExprTr(env=env, attrs={("Range", "next"): ("r_next", "Z"), ("Range", "stop"): ("r_stop", "Z"),
                                      ("Range", "step"): ("r_step", "Z")},
                      ops={"Z": self.ops, "bool": BOOL_OPS},
                      calls={"Range": range_ctor, "nothing": nothing, "some": some, "SizedIter": sized})


def check_consts(f):
    for n in ast.walk(f):
        if isinstance(n, ast.Constant) and type(n.value) is int and not (I64[0] <= n.value <= I64[1]):
            raise TranslatorError(f"{f.name}: integer literal {n.value} outside int64")
        if isinstance(n, ast.Constant) and type(n.value) not in (int, str, type(None)):
            raise TranslatorError(f"{f.name}: literal {n.value!r}")


def translate(iter_path, num_path) -> str:
    mod, num = parse_file(iter_path), parse_file(num_path)
    ops, opnames = int_op_table(num)
    rt = RangeTr(ops)
    # --- the struct
    cls = find_class(mod, "Range")
    if not has_deco(cls, "guppy.struct"):
        raise TranslatorError("Range is not a @guppy.struct")
    fields = [(n.target.id, _u(n.annotation)) for n in cls.body if isinstance(n, ast.AnnAssign)]
    if fields != [("next", "int"), ("stop", "int"), ("step", "int")]:
        raise TranslatorError(f"Range fields changed: {fields}")
    methods = [n.name for n in cls.body if isinstance(n, ast.FunctionDef)]
    if sorted(methods) != ["__iter__", "__next__"]:
        raise TranslatorError(f"Range methods changed: {methods}")
    out = [HEADER.format(src="guppylang/std/iter.py, guppylang/std/num.py", tool="props/C18/tr_range.py"),
           "From Coq Require Import ZArith Bool List String.\nFrom V.C18 Require Import ModelWrap.\nImport ListNotations.\nOpen Scope Z_scope.\n",
           "(* int dunders -> HUGR ops (std/num.py): " + ", ".join(f"{k} = {v}" for k, v in sorted(opnames.items())) + " *)",
           "Definition int_dunder_ops : list (string * string) := [" +
           "; ".join(f'("{k}"%string, "{v}"%string)' for k, v in sorted(opnames.items())) + "].\n",
           "(* @guppy.struct class Range *)\nRecord Range := mkRange { r_next : Z; r_stop : Z; r_step : Z }.\n"]
    # --- __iter__
    f = find_func(cls, "__iter__")
    b = strip_doc(f.body)
    if not (has_deco(f, "guppy") and len(b) == 1 and _u(b[0]) == "return self"):
        raise TranslatorError("Range.__iter__ is not `return self`")
    out.append("(* Range.__iter__ *)\nDefinition range_iter (self : Range) : Range := self.\n")
    # --- __next__
    f = find_func(cls, "__next__")
    if not has_deco(f, "guppy") or [a.arg for a in f.args.args] != ["self"] or _u(f.args.args[0].annotation) != "Range":
        raise TranslatorError("Range.__next__ signature/decorators changed")
    if _u(f.returns) != "Option[tuple[int, Range]]":
        raise TranslatorError(f"Range.__next__ returns {_u(f.returns)}")
    check_consts(f)
    env = {"self": ("self", "Range")}
    lets = []
    body = strip_doc(f.body)
    while body and isinstance(body[0], ast.Assign):
        s = body[0]
        if not (len(s.targets) == 1 and isinstance(s.targets[0], ast.Name)):
            raise TranslatorError(f"assignment `{_u(s)}`")
        t, ty = rt.tr(env).expr(s.value)
        name = s.targets[0].id
        cn = name + "_v"
        lets.append(f"  let {cn} := {t} in")
        env[name] = (cn, ty)
        body = body[1:]

    def ret(term, ty):
        if ty != "option":
            raise TranslatorError(f"__next__ returns a {ty}")
        return term

    def raise_(node):
        raise TranslatorError(f"__next__ must not raise/assert: `{_u(node)}`")

    t = rt.tr(env).body(body, ret, raise_)
    out.append("(* Range.__next__ *)\nDefinition range_next (self : Range) : option (Z * Range) :=\n" + "\n".join(lets) + f"\n  {t}.\n")
    # --- constructors
    order = None
    for n in mod.body:
        if isinstance(n, ast.FunctionDef) and n.name == "range":
            for d in n.decorator_list:
                if isinstance(d, ast.Call) and _u(d.func) == "guppy.overload":
                    order = [_u(a) for a in d.args]
    if order is None:
        raise TranslatorError("`range` is not a @guppy.overload(...)")
    expected = {"_range1": ["int"], "_range2": ["int", "int"], "_range3": ["int", "int", "int"], "_range_comptime": ["nat @ comptime"]}
    if sorted(order) != sorted(expected):
        raise TranslatorError(f"range overloads changed: {order}")
    for name in order:
        f = find_func(mod, name)
        if not has_deco(f, "guppy"):
            raise TranslatorError(f"{name} is not @guppy")
        params = [(a.arg, _u(a.annotation)) for a in f.args.args]
        if [t for _, t in params] != expected[name]:
            raise TranslatorError(f"{name} parameters changed: {params}")
        check_consts(f)
        env = {p: (p, "nat" if "nat" in t else "Z") for p, t in params}
        b = strip_doc(f.body)
        if not (len(b) == 1 and isinstance(b[0], ast.Return)):
            raise TranslatorError(f"{name} body is not a single return")
        t, ty = rt.tr(env).expr(b[0].value)
        args = " ".join(f"({p} : Z)" for p, _ in params)
        cn = name.lstrip("_")
        ret_ann = ast.literal_eval(f.returns) if isinstance(f.returns, ast.Constant) else _u(f.returns)
        if name == "_range_comptime":
            if ty != "Sized Range" or ret_ann.replace(" ", "") != f"SizedIter[Range,{params[0][0]}]":
                raise TranslatorError(f"_range_comptime: type {ty}, annotation {ret_ann}")
            out.append(f"(* {name}: the iterator and the size its type SizedIter[Range, {params[0][0]}] promises *)\n"
                       f"Definition {cn} {args} : Range * Z := ({t}, {params[0][0]}).\n")
        else:
            if ty != "Range" or ret_ann != "Range":
                raise TranslatorError(f"{name}: type {ty}, annotation {ret_ann}")
            out.append(f"(* {name} *)\nDefinition {cn} {args} : Range := {t}.\n")
    out.append("(* @guppy.overload order of `range` *)\nDefinition range_overload_order : list string := [" +
               "; ".join(f'"{n}"%string' for n in order) + "].\n")
    return "\n".join(out)
