"""C18 — range() yields Python's sequence.
Tie: T (tr_range.py -> coq/C18/GenRange.v) + translator validation + HUGR inspection.

1. regenerate GenRange.v from std/iter.py and the int dunder table of std/num.py (fail-closed);
2. re-check coq/C18/Props.v against the regenerated definitions;
3. HUGR inspection: compile `for i in range(...)` programs with /repo's compiler and confirm that
   __next__ contains exactly the arithmetic ops the generated model uses, that _range_comptime is
   load_nat+ifromusize (nat bits reused as int), that each call form picks the overload variant the
   model assumes and that range(n)'s static size is n;
4. translator validation: the source text of __next__/__iter__/_range* executed under int64 semantics
   (impl_range.py exec mode) vs the generated Coq model (vm_compute) on the same triples;
5. specification validation + failing-input search: Coq's py_range and the executed source vs
   Python's own range() — under the theorem's side condition any difference is a counterexample;
6. supporting evidence for the trusted op semantics: one program on the venv's guppylang 1.0.4
   emulator (same __next__ logic) compared with the model's prefix, including the wrap witness."""
import json
import os
import re
import subprocess

import vlib
from vlib import proof_coverage

LEVEL = "proof"
M63, M64 = 1 << 63, 1 << 64
K, CAP = 6, 40
WITNESS = (M63 - 2, M63 - 1, 2)
BIGN = M63
IGNORED_OPS = {"make_opaque", "read"}       # tket.bool plumbing around comparisons


def generate(ctx):
    import tr_range
    ctx.gen("GenRange.v", tr_range.translate(ctx.pub_src("std/iter.py"), ctx.pub_src("std/num.py")))


def i64(z):
    return -M63 <= z < M63


def rlen(pr):
    """len() of Python's own range object, also beyond sys.maxsize (len() itself overflows there)"""
    return pr.index(pr[-1]) + 1 if pr else 0


def nowrap_py(a, b, s):
    r = range(a, b, s)
    return rlen(r) == 0 or i64(a + rlen(r) * s)


def triples(r, n):
    edge = [0, 1, -1, 2, 7, -7, M63 - 1, -M63, M63 - 2, -M63 + 1, M63 - 10, -M63 + 10, 1 << 62, -(1 << 62)]
    out = [WITNESS, (-M63 + 1, -M63, -2), (M63 - 10, M63 - 1, 3), (10, -10, -3), (0, 0, 1), (5, 5, -1), (-M63, M63 - 1, M63 - 1),
           (M63 - 1, -M63, -M63), (0, M63 - 1, 1 << 62), (3, 4, M63 - 1), (-M63, -M63 + 5, 2)]
    hist = {"fixed": len(out)}

    def bump(k):
        hist[k] = hist.get(k, 0) + 1
    while len(out) < n:
        m = r.random()
        if m < 0.35:       # small, mostly short ranges (full sequences compared)
            a, b = r.randrange(-30, 31), r.randrange(-30, 31)
            s = r.choice([1, -1, 2, -2, 3, -3, 5, -7, 11, 40])
            bump("small")
        elif m < 0.6:      # near the int64 boundaries
            a = r.choice(edge) + r.randrange(-3, 4)
            b = r.choice(edge) + r.randrange(-3, 4)
            s = r.choice([1, -1, 2, -2, 3, -5, M63 - 1, -M63, 1 << 62, -(1 << 62), r.randrange(1, 1 << 63), -r.randrange(1, 1 << 63)])
            bump("boundary")
        elif m < 0.8:      # short ranges far from zero
            a = r.randrange(-M63, M63)
            s = r.choice([1, -1]) * r.randrange(1, 1 << r.randrange(1, 63))
            b = a + s * r.randrange(-2, 30) + r.randrange(-2, 3)
            bump("short far from zero")
        else:
            a, b = r.randrange(-M63, M63), r.randrange(-M63, M63)
            s = r.choice([1, -1]) * r.randrange(1, 1 << r.randrange(1, 64))
            bump("uniform magnitude")
        a, b, s = max(-M63, min(M63 - 1, a)), max(-M63, min(M63 - 1, b)), max(-M63, min(M63 - 1, s))
        if s != 0:
            out.append((a, b, s))
    return out, hist


PRELUDE = """From Coq Require Import ZArith List Bool.
From V.C18 Require Import ModelWrap GenRange ModelIter.
Import ListNotations. Open Scope Z_scope.
Definition b2z (b : bool) : Z := if b then 1 else 0.
Definition spec_prefix (a b s : Z) : list Z :=
  map (fun i => a + Z.of_nat i * s) (seq 0 (Z.to_nat (Z.min %d (py_range_len a b s)))).
Definition full (r : Range) : list Z := match iterate %d r with Some l => 1 :: l | None => [0] end.
Definition nowrap (a b s : Z) : bool :=
  (py_range_len a b s =? 0) || in_i64b (a + py_range_len a b s * s).
Definition case3 (r : Range) (a b s : Z) : list (list Z) :=
  [[py_range_len a b s; b2z (nowrap a b s)]; iter_prefix %d (range_iter r); spec_prefix a b s; full (range_iter r)].
""" % (K, CAP + 1, K)


def coq_case(c):
    f, a = c["form"], c["args"]
    if f == "3":
        return f"case3 (range3 ({a[0]}) ({a[1]}) ({a[2]})) ({a[0]}) ({a[1]}) ({a[2]})"
    if f == "2":
        return f"case3 (range2 ({a[0]}) ({a[1]})) ({a[0]}) ({a[1]}) 1"
    if f == "1":
        return f"case3 (range1 ({a[0]})) 0 ({a[0]}) 1"
    return f"case3 (fst (range_comptime ({a[0]}))) 0 ({a[0]}) 1 ++ [[snd (range_comptime ({a[0]}))]]"


def model_eval(ctx, cases):
    chunks = [cases[i:i + 300] for i in range(0, len(cases), 300)]
    files = {f"r{i}": PRELUDE + "Definition cases : list (list (list Z)) := [\n" + ";\n".join(coq_case(c) for c in ch) + "].\nEval vm_compute in cases.\n"
             for i, ch in enumerate(chunks)}
    outs = ctx.coq_eval_many(files)
    res = []
    for i in range(len(chunks)):
        res += vlib.parse_coq_values(outs[f"r{i}"])[0]
    return res


def py_args(c):
    f, a = c["form"], c["args"]
    return (a[0], a[1], a[2]) if f == "3" else (a[0], a[1], 1) if f == "2" else (0, a[0], 1)


def guppy_program(c):
    f, a = c["form"], c["args"]
    call = ", ".join(str(x) for x in a)
    return (f"@guppy\ndef main() -> None:\n    for i in range({call}):\n        result(\"y\", i)\n"
            f"# Python: list(range({call}))[:6] = {list(range(*a)[:6]) if f != 'comptime' and (f != '3' or a[2]) else '...'}")


def replay(c):
    return {"guppy_program": guppy_program(c),
            "how": "source-level replay on the real function bodies: echo '" +
                   json.dumps({"mode": "exec", "k": K, "cap": CAP, "cases": [c]}) +
                   "' | VERIF_REPO=$REPO /venv/bin/python /verif/props/C18/impl_range.py   (prints the first yields and the count; "
                   "compare with list(range(...)))"}


# ---------------------------------------------------------------------------------------
def expected_next_ops(ctx):
    txt = (ctx.coqdir / "GenRange.v").read_text()
    m = re.search(r"Definition range_next .*?\.\n\n", txt, re.S)
    body = m.group(0) if m else ""
    ops = {}
    for op in ("iadd", "isub", "ige_s", "igt_s", "ile_s", "ilt_s", "ige_u", "igt_u", "ile_u", "ilt_u"):
        n = len(re.findall(rf"\b{op}\b", body))
        if n:
            ops[op] = n
    consts = sorted(re.findall(r"\((-?\d+)\)%Z", body))
    return ops, consts


def hugr_programs():
    ps = [{"kind": "loop", "args": [5], "variant": "_range_comptime"},
          {"kind": "loop", "args": [0], "variant": "_range_comptime"},
          {"kind": "loop", "args": ["comptime:2+3"], "variant": "_range_comptime"},
          {"kind": "loop", "args": [BIGN], "variant": "_range_comptime", "big": True},
          {"kind": "loop", "args": ["dyn"], "variant": "_range1"},
          {"kind": "loop", "args": [-3], "variant": "_range1"},
          {"kind": "loop", "args": ["dyn", "dyn"], "variant": "_range2"},
          {"kind": "loop", "args": [2, "dyn"], "variant": "_range2"},
          {"kind": "loop", "args": ["dyn", "dyn", "dyn"], "variant": "_range3"},
          {"kind": "loop", "args": [10, -10, -3], "variant": "_range3"},
          {"kind": "loop", "args": list(WITNESS), "variant": "_range3"}]
    for n in (0, 1, 5, 17):
        ps.append({"kind": "array", "n": n, "size": n, "accept": True})
        ps.append({"kind": "array", "n": n, "size": n + 1, "accept": False})
    for i, p in enumerate(ps):
        p["id"] = i
    return ps


def check_hugr(ctx, progs, res):
    """returns (list of problems, facts)"""
    probs, facts = [], {"programs": len(progs), "accepted": 0}
    exp_ops, exp_consts = expected_next_ops(ctx)
    for p, r in zip(progs, res):
        name = f"program {p['id']} {p}"
        if p["kind"] == "array":
            ok = r[0] == "ok"
            facts["accepted"] += ok
            if ok != p["accept"]:
                probs.append((f"hugr:size:{p['n']}:{p['size']}", f"array(i for i in range({p['n']})) at array[int, {p['size']}]: "
                              f"{'accepted' if ok else 'rejected ' + str(r[1:])}, expected {'accept' if p['accept'] else 'reject'} (static size of range(n) must be n)"))
            continue
        if r[0] != "ok":
            probs.append((f"hugr:reject:{p['args']}", f"{name}: not compiled: {r}"))
            continue
        facts["accepted"] += 1
        funcs = r[1]
        user = funcs.get(f"p{p['id']}", {})
        variant = [c for c in user.get("calls", []) if c.startswith("_range")]
        if variant != [p["variant"]]:
            probs.append((f"hugr:dispatch:{p['args']}", f"{name}: range call resolved to {variant}, model assumes {p['variant']}"))
        if "__next__" not in user.get("calls", []):
            probs.append((f"hugr:loop:{p['args']}", f"{name}: loop does not call __next__: {user.get('calls')}"))
        nx = funcs.get("__next__", {})
        got = {k: v for k, v in nx.get("ops", {}).items() if k not in IGNORED_OPS}
        if got != exp_ops or nx.get("consts") != exp_consts or nx.get("calls"):
            probs.append(("hugr:next-ops", f"{name}: compiled __next__ has ops {got} consts {nx.get('consts')} calls {nx.get('calls')}; "
                          f"the generated model uses {exp_ops} consts {exp_consts}"))
        for fn, d in funcs.items():
            if fn == "_range_comptime" and (d["ops"] != {"load_nat": 1, "ifromusize": 1} or d["calls"]):
                probs.append(("hugr:comptime-ops", f"{name}: _range_comptime compiled to {d}; model assumes load_nat + ifromusize only (nat bits read as int)"))
            if fn in ("_range1", "_range2", "_range3", "__iter__") and (d["ops"] or d["calls"]):
                probs.append((f"hugr:{fn}", f"{name}: {fn} contains operations {d}"))
        facts["next_ops"] = got
    return probs, facts


EMU_SRC = '''from guppylang import guppy
from guppylang.std.builtins import result

@guppy
def main() -> None:
%s
res = main.emulator(n_qubits=1).run()
import json
print("EMU" + json.dumps([[t, v] for t, v in res.results[0].entries]))
'''


def emulator_run(ctx, ranges):
    body = ""
    for j, (a, b, s) in enumerate(ranges):
        body += f"    k{j} = 0\n    for i in range({a}, {b}, {s}):\n        result(\"r{j}\", i)\n        k{j} += 1\n        if k{j} >= {K}:\n            break\n"
    f = ctx.scratch / "emu_c18.py"
    f.write_text(EMU_SRC % body)
    env = {k: v for k, v in os.environ.items() if k not in ("PYTHONPATH",)}
    try:
        p = subprocess.run([vlib.PY, str(f)], env=env, text=True, capture_output=True, timeout=600, cwd=str(ctx.scratch))
    except subprocess.TimeoutExpired:
        return None, "timeout"
    m = re.search(r"^EMU(.*)$", p.stdout, re.M)
    if not m:
        return None, (p.stderr or p.stdout)[-500:]
    got = {}
    for t, v in json.loads(m.group(1)):
        got.setdefault(t, []).append(v)
    return [got.get(f"r{j}", []) for j in range(len(ranges))], None


# ---------------------------------------------------------------------------------------
def run(ctx):
    tr_err = None
    try:
        generate(ctx)
    except vlib.TranslatorError as e:
        tr_err = e
    info = ctx.coq_props() if tr_err is None else {"ok": False, "obligations": 1, "discharged": 0, "failed": f"translator: {tr_err}",
                                                    "log": str(tr_err), "theorems": []}
    r = vlib.rng(ctx.seed, "C18")
    ts, hist = triples(r, 150 if ctx.quick else 2500)
    corpus = ctx.dir / "corpus" / "triples.json"
    if corpus.exists():
        ts = [tuple(t) for t in json.loads(corpus.read_text())] + ts
    cases = [{"form": "3", "args": list(t)} for t in ts]
    for t in ts[:: 5]:
        cases.append({"form": "2", "args": [t[0], t[1]]})
        cases.append({"form": "1", "args": [t[1]]})
    for n in [0, 1, 2, 5, 17, CAP, CAP + 1, 1000, M63 - 1, BIGN, BIGN + 1, M64 - 1] + [r.randrange(0, 60) for _ in range(10)] + [r.randrange(0, M64) for _ in range(6)]:
        cases.append({"form": "comptime", "args": [n]})
    # ---- the real source executed under int64 semantics
    ex = json.loads(ctx.impl("impl_range.py", {"mode": "exec", "k": K, "cap": CAP, "cases": cases}))
    # ---- search: executed source vs Python's range (under the side condition)
    spec_fail, wrap_cases, finding_hits = [], 0, []
    for c, e in zip(cases, ex):
        if c["form"] == "comptime":
            n = c["args"][0]
            if n >= M63:
                if e[0] == "ok" and e[2] != n and n == BIGN:
                    finding_hits.append(("range_comptime:%d" % n, c, e))
                continue
            a, b, s = 0, n, 1
        else:
            a, b, s = py_args(c)
        pr = range(a, b, s)
        exp_prefix, exp_n = list(pr[:K]), (rlen(pr) if rlen(pr) <= CAP else None)
        if not nowrap_py(a, b, s):
            wrap_cases += 1
            if (a, b, s) == WITNESS and c["form"] == "3" and (e[0] != "ok" or e[1] != exp_prefix or e[2] != exp_n):
                finding_hits.append(("range:%d,%d,%d" % WITNESS, c, e))
            continue
        if e[0] != "ok" or e[1] != exp_prefix or e[2] != exp_n:
            spec_fail.append((c, e, exp_prefix, exp_n))
    for c, e, ep, en in spec_fail[:4]:
        ctx.report("range:" + c["form"] + ":" + ",".join(map(str, c["args"])), "counterexample",
                   "range loop differs from Python's range (no yielded+step value leaves int64)",
                   {"case": c, "python_first_values": ep, "python_length(None=more than %d)" % CAP: en,
                    "implementation_source_executed": e, "replay": replay(c), "proofs": "ok" if info["ok"] else f"broken at {info['failed']}"})
    for key, c, e in finding_hits:
        ctx.report(key, "counterexample", "range differs from Python's range outside the side condition (wrap-around)",
                   {"case": c, "implementation_source_executed": e, "replay": replay(c),
                    "theorem": "range_seq_refuted / range_comptime_size_refuted in coq/C18/Props.v"})
    # ---- model vs executed source, spec vs Python
    model_dis = spec_dis = compared = model_fail = 0
    model_ok = tr_err is None and (vlib.COQ / "C18" / "ModelIter.vo").exists()
    if model_ok:
        try:
            mres = model_eval(ctx, cases)
            for c, e, m in zip(cases, ex, mres):
                compared += 1
                head, mprefix, sprefix, mfull = m[0], m[1], m[2], m[3]
                mcount = len(mfull) - 1 if mfull[0] == 1 else None
                if e[0] != "ok" or e[1] != mprefix or e[2] != mcount:
                    model_dis += 1
                    if model_dis <= 3:
                        ctx.report(f"translator-mismatch:{c}", "correspondence", "generated model vs executed source of iter.py",
                                   {"case": c, "executed_source": e, "model_prefix": mprefix, "model_count": mcount})
                if c["form"] == "comptime":
                    if m[4] != [c["args"][0]]:
                        model_dis += 1
                        ctx.report(f"size-mismatch:{c}", "correspondence", "static size of _range_comptime", {"case": c, "model_size": m[4]})
                    if c["args"][0] >= M63:
                        continue
                a, b, s = py_args(c) if c["form"] != "comptime" else (0, c["args"][0], 1)
                pr = range(a, b, s)
                if nowrap_py(a, b, s) and (mprefix != list(pr[:K]) or mcount != (rlen(pr) if rlen(pr) <= CAP else None)):
                    model_fail += 1
                    if model_fail <= 3 and not spec_fail:
                        ctx.report("range:" + c["form"] + ":" + ",".join(map(str, c["args"])), "counterexample",
                                   "model generated from the current iter.py/num.py differs from Python's range (side condition holds)",
                                   {"case": c, "python_first_values": list(pr[:K]), "python_length": rlen(pr), "model_first_values": mprefix,
                                    "model_length(None=more than %d)" % CAP: mcount, "replay": replay(c),
                                    "int_ops": "see int_dunder_ops in coq/C18/GenRange.v"})
                if head != [rlen(pr), int(nowrap_py(a, b, s))] or sprefix != list(pr[:K]):
                    spec_dis += 1
                    if spec_dis <= 3:
                        ctx.report(f"spec-mismatch:{c}", "correspondence", "Coq py_range/py_range_len/no_wrap vs Python's range",
                                   {"case": c, "coq": [head, sprefix], "python": [rlen(pr), nowrap_py(a, b, s), list(pr[:K])]})
        except RuntimeError as ee:
            model_ok = False
            ctx.notes.append(f"model evaluation failed: {ee}")
    # ---- HUGR inspection
    progs = hugr_programs()
    hres = json.loads(ctx.impl("impl_range.py", {"mode": "hugr", "programs": progs}))
    hprobs, hfacts = ([], {}) if tr_err is not None and not (ctx.coqdir / "GenRange.v").exists() else check_hugr(ctx, progs, hres)
    for key, msg in hprobs[:4]:
        ctx.report(key, "correspondence", "compiled HUGR of a range loop differs from what the model assumes", {"detail": msg}, found_input=True)
    big = [(p, x) for p, x in zip(progs, hres) if p.get("big")]
    big_accepted = bool(big and big[0][1][0] == "ok" and "_range_comptime" in big[0][1][1])
    # ---- emulator (venv guppylang 1.0.4): supporting evidence for the op semantics
    emu_ranges = [WITNESS, (10, -10, -3), (-M63 + 1, -M63, -2), (M63 - 10, M63 - 1, 3), (0, 4, 1), (5, 5, 1)]
    if not ctx.quick:
        emu_ranges += [t for t in ts[11:200] if True][:30]
    emu, emu_err = emulator_run(ctx, emu_ranges)
    emu_dis = 0
    if emu is None:
        ctx.notes.append(f"emulator run unavailable: {emu_err}")
    elif model_ok and info["ok"] and not spec_fail and not model_fail and not model_dis:
        em = model_eval(ctx, [{"form": "3", "args": list(t)} for t in emu_ranges])
        for t, got, m in zip(emu_ranges, emu, em):
            if got != m[1]:
                emu_dis += 1
                ctx.notes.append(f"emulator (guppylang 1.0.4) prefix for range{t} = {got}, model = {m[1]}")
        if emu_dis:
            ctx.report("op-semantics", "correspondence", "ModelWrap.v op semantics vs selene runtime (venv guppylang 1.0.4)",
                       {"notes": ctx.notes[-3:]}, found_input=True)
    if not info["ok"] and not spec_fail and not model_fail:
        ctx.report("proof-broken:" + str(info["failed"]), "proof-broken", str(info["failed"]),
                   {"coq_error": vlib.CoqResult(False, info["log"]).error_excerpt(), "searched_cases": len(cases),
                    "wrap_cases_skipped": wrap_cases}, found_input=False)
    nontrivial = sum(1 for c, e in zip(cases, ex) if e[0] == "ok" and e[1])
    cov = proof_coverage(
        info, "make C18/Props.vo && coqc C18/Props.v (Print Assumptions)",
        ["Coq 8.16.1 kernel; vm_compute in Examples and for the two refutation witnesses",
         "props/C18/tr_range.py + tools/tr_common.py: Guppy operators on int read as the HUGR ops std/num.py binds (iadd wraps, ige_s/ile_s signed); nat argument of an int field keeps its bits (confirmed on the compiled HUGR: load_nat + ifromusize only)",
         "coq/C18/ModelWrap.v: semantics of iadd/isub/i{ge,gt,le,lt}_{s,u} at width 6 (HUGR spec); compared with the selene runtime through the venv's guppylang 1.0.4 on a few ranges per run (supporting evidence)",
         "coq/C18/ModelIter.v: the for-loop protocol (call __next__ until nothing) and the overload dispatch by arity/comptime-ness (variant choice confirmed on compiled programs)",
         "specification py_range/py_range_len: CPython's formula; proved equal to the documented membership condition (range_spec_is_python) and compared with Python's range on every run",
         "tools/repo_shim.py (no compiler logic)"],
        evaluations=len(cases) + len(progs), distinct_nontrivial=nontrivial,
        rule="evaluations = (form, arguments) cases executed on the source text of iter.py and in the Coq model + programs compiled by /repo; non-trivial = the loop yields at least one value",
        cases=len(cases), triples_distribution=hist, outside_side_condition=wrap_cases,
        model_vs_source_compared=compared, model_disagreements=model_dis, spec_vs_python_disagreements=spec_dis,
        source_vs_python_failures=len(spec_fail), model_vs_python_failures=model_fail, hugr=hfacts, hugr_problems=len(hprobs),
        comptime_2pow63_accepted_by_repo=big_accepted,
        emulator_ranges=len(emu_ranges) if emu is not None else 0, emulator_disagreements=emu_dis,
        samples=[{"case": cases[j], "executed_source": ex[j]} for j in (0, len(cases) // 2, len(cases) - 1)],
        notes=ctx.notes)
    return ctx.finish(LEVEL, cov, [
        "side condition of range_seq: no yielded value plus step leaves int64 (explicit hypothesis no_wrap; decided by the last element: no_wrap_iff_last)",
        "range_comptime_size holds for n <= 2^63-1 only (larger comptime nats are accepted by the compiler: finding)",
        "no emulator for /repo HUGR: sequences are those of the model of the source, the HUGR is inspected structurally",
        "step = 0 is outside the property (Python raises ValueError; Guppy's range(…, 0) loops forever on a non-empty range)"])
