"""Implementation side of C18.

mode "hugr": compile small `for i in range(...)` programs with /repo's compiler (repo_shim) and
   report, per program: accepted?, the functions its body calls (which overload variant was
   chosen), and for every std function in the module (__next__, __iter__, _range*) the multiset
   of HUGR extension ops, integer constants and callees.  The check compares them with the ops
   the translator assumed.
mode "exec": execute the *source text* of Range.__next__ / __iter__ / _range1/2/3 /
   _range_comptime taken from the repo's iter.py as plain Python over an int64 value class
   (`+`/`-` wrap modulo 2^64, comparisons signed — the semantics std/num.py binds to int), driven
   like a `for` loop.  This runs the real function bodies whatever their shape; it is compared
   with the generated Coq model (translator validation) and with Python's own range (search).
stdin: {"mode":..., ...}"""
import ast
import json
import os
import sys

M64, M63 = 1 << 64, 1 << 63


def wrap(z):
    return (z + M63) % M64 - M63


class I64:
    __slots__ = ("v",)

    def __init__(self, v):
        self.v = wrap(v.v if isinstance(v, I64) else v)

    @staticmethod
    def _o(x):
        if isinstance(x, I64):
            return x.v
        if isinstance(x, bool) or not isinstance(x, int):
            raise TypeError(f"int64 operation with {type(x).__name__}")
        if not -M63 <= x < M63:
            raise OverflowError("literal outside int64")
        return x

    def __add__(self, o): return I64(self.v + I64._o(o))
    def __radd__(self, o): return I64(I64._o(o) + self.v)
    def __sub__(self, o): return I64(self.v - I64._o(o))
    def __rsub__(self, o): return I64(I64._o(o) - self.v)
    def __neg__(self): return I64(-self.v)
    def __ge__(self, o): return self.v >= I64._o(o)
    def __gt__(self, o): return self.v > I64._o(o)
    def __le__(self, o): return self.v <= I64._o(o)
    def __lt__(self, o): return self.v < I64._o(o)
    def __eq__(self, o): return self.v == I64._o(o)
    def __ne__(self, o): return self.v != I64._o(o)
    def __hash__(self): return hash(self.v)
    def __bool__(self): raise TypeError("int64 used as a condition")


def load_source(path):
    """Build executable Python versions of the Guppy definitions in iter.py."""
    mod = ast.parse(open(path).read())
    fns = {}
    for n in mod.body:
        if isinstance(n, ast.ClassDef) and n.name == "Range":
            fields = [s.target.id for s in n.body if isinstance(s, ast.AnnAssign)]
            for s in n.body:
                if isinstance(s, ast.FunctionDef):
                    fns["Range." + s.name] = s
        if isinstance(n, ast.FunctionDef) and n.name.startswith("_range"):
            fns[n.name] = n

    class Range:
        def __init__(self, *a):
            if len(a) != len(fields):
                raise TypeError("Range arity")
            for k, x in zip(fields, a):
                setattr(self, k, I64(x))   # int fields: a nat argument keeps its bits

    ns = {"Range": Range, "nothing": lambda: None, "some": lambda x: ("some", x), "SizedIter": lambda it: it,
          "__builtins__": {}}
    for name, f in fns.items():
        g = ast.FunctionDef(name=f.name, args=f.args, body=f.body, decorator_list=[], returns=None, type_comment=None, type_params=[])
        for a in g.args.args:
            a.annotation = None
        m = ast.Module(body=[g], type_ignores=[])
        ast.fix_missing_locations(m)
        loc = {}
        exec(compile(m, path, "exec"), ns, loc)
        if name.startswith("Range."):
            setattr(Range, f.name, loc[f.name])
        else:
            ns[name] = loc[name]
    return ns


def drive(rng, k, cap):
    """for-loop protocol: __iter__ once, then __next__ until nothing.  Returns (first k yields,
    total count or None when more than cap iterations)."""
    it = rng.__iter__()
    out, n = [], 0
    while True:
        r = it.__next__()
        if r is None:
            return out, n
        tag, (x, it) = r
        if n < k:
            out.append(x.v if isinstance(x, I64) else x)
        n += 1
        if n > cap:
            return out, None


def run_exec(req):
    ns = load_source(os.path.join(os.environ["VERIF_REPO"], "guppylang/src/guppylang/std/iter.py"))
    res = []
    for c in req["cases"]:
        form, args = c["form"], c["args"]
        try:
            if form == "comptime":
                r = ns["_range_comptime"](args[0])      # a nat value: plain non-negative integer bits
            else:
                r = ns[{"1": "_range1", "2": "_range2", "3": "_range3"}[form]](*[I64(a) for a in args])
            ys, n = drive(r, req["k"], req["cap"])
            res.append(["ok", ys, n])
        except Exception as e:
            res.append(["exc", type(e).__name__, str(e)[:100]])
    return res


PROG_HEADER = """import repo_shim
from guppylang import guppy
from guppylang.std.builtins import nat, comptime, array, range

"""


def program(p):
    i, kind = p["id"], p["kind"]
    if kind == "loop":     # for-loop over range(<args>); `dyn` args are function parameters
        params = ", ".join(f"a{j}: int" for j, a in enumerate(p["args"]) if a == "dyn")
        call = ", ".join(f"a{j}" if a == "dyn" else (f"comptime({a[9:]})" if str(a).startswith("comptime:") else str(a)) for j, a in enumerate(p["args"]))
        main_args = ", ".join(str(3 + j) for j, a in enumerate(p["args"]) if a == "dyn")
        return (f"@guppy\ndef p{i}({params}) -> int:\n    s = 0\n    for i in range({call}):\n        s += i\n    return s\n\n"
                f"@guppy\ndef main{i}() -> int:\n    return p{i}({main_args})\n")
    if kind == "array":    # the SizedIter annotation must equal the array length
        return (f"@guppy\ndef p{i}() -> array[int, {p['size']}]:\n    return array(i for i in range({p['n']}))\n\n"
                f"@guppy\ndef main{i}() -> None:\n    p{i}()\n")
    raise SystemExit(f"unknown program kind {kind}")


def describe(m, node):
    ops, consts, calls = {}, [], []
    for n in m.descendants(node):
        o = m[n].op
        t = type(o).__name__
        if t == "ExtOp":
            nm = o.op_def().name
            ops[nm] = ops.get(nm, 0) + 1
        elif t == "Const":
            consts.append(str(o.val))
        elif t == "Call":
            tgt = list(m.linked_ports(n.inp(len(o.signature.body.input))))
            calls.append(getattr(m[tgt[0].node].op, "f_name", "?") if tgt else "?")
    return {"ops": ops, "consts": sorted(consts), "calls": calls}


def run_hugr(req):
    import repo_shim  # noqa: F401
    import importlib.util
    from guppylang_internals.error import GuppyError
    progs = req["programs"]
    path = os.path.join(os.getcwd(), f"c18_prog_{os.getpid()}.py")
    with open(path, "w") as fh:
        fh.write(PROG_HEADER + "\n".join(program(p) for p in progs))
    spec = importlib.util.spec_from_file_location("c18_prog", path)
    mod = importlib.util.module_from_spec(spec)
    sys.modules["c18_prog"] = mod
    spec.loader.exec_module(mod)
    out = []
    for p in progs:
        try:
            pkg = getattr(mod, f"main{p['id']}").compile()
            m = pkg.modules[0]
            funcs = {}
            for c in m.children(m.module_root if hasattr(m, "module_root") else m.root):
                o = m[c].op
                if type(o).__name__ == "FuncDefn":
                    funcs[o.f_name] = describe(m, c)
            out.append(["ok", funcs])
        except GuppyError as e:
            out.append(["err", type(e.error).__name__])
        except Exception as e:
            out.append(["crash", type(e).__name__, str(e)[:200]])
    return out


if __name__ == "__main__":
    req = json.load(sys.stdin)
    json.dump(run_exec(req) if req["mode"] == "exec" else run_hugr(req), sys.stdout)
