"""Structured generator of rendering cases for C29 (all randomness from the rng passed in).

A case is a JSON-able dict:
  {"src": [line, ...], "level": "Error", "title": str, "span": [l1, c1, l2, c2] | None,
   "label": str | None, "message": str | None, "via_field": bool,
   "children": [{"level": "Note", "span": [...] | None, "label": str | None, "message": str | None}],
   "malformed": bool}
Source lines never contain a line-break character; the last line is never empty (so that
"\n".join(src).splitlines() == src).  Text is ASCII; labels / messages / titles use
printable characters, "\n" and (rarely) "\t".
"""
import string

# Hyphens only where textwrap's default word splitter finds no break point (a "-" is never
# directly followed by a letter, digit or "_"): the modelled domain, see coq/C29/Render.v.
WORDS = ["x", "is", "the", "variable", "expected", "qubit", "`int`", "got", "(a,", "b)", "cannot", "be", "used",
         "here:", "type", "mismatch", "--", "->", "`-`", "pre-", "f(x)", "{k}", "}", "{", "100%",
         "https://doi.org/10.1136%2Fbmj.321.7276.1569", "borrowed", "argument", "^^^", "|", "-", "Note:", "x--"]
TOKENS = ["x", "=", "foo(a,", "b)", "return", "qubit()", "y", "+", "1", "if", "c:", "def", "f(q:", "qubit)", "->",
          "None:", "#", "comment", "'s t r'", "|", "^", "-", "..."]
LEVELS = ["Fatal", "Error", "Warning", "Note", "Help"]
BASE_INDENTS = [0, 0, 4, 8, 12, 13, 14, 16, 17, 20, 24]


def long_word(r):
    """A word longer than (or close to) the wrapping width, without hyphens."""
    n = r.choice([59, 60, 61, 70, 79, 80, 81, 95, 130, 170])
    if r.random() < 0.5:
        return "".join(r.choice(string.ascii_lowercase + "_./") for _ in range(n))
    return "`" + "a" * n + "`"


def text(r, allow_none=True, kind=None, long_words=False):
    """A label / message text.  long_words=False: every word and every whitespace run is
    shorter than the label width (the domain in which C29's wrapping clause holds);
    long_words=True: the known-defect domain (textwrap cuts words longer than the width)."""
    k = kind if kind is not None else r.randrange(12)
    if k == 0 and allow_none:
        return None
    if k == 1:
        return r.choice(["", " ", "  ", "\n", " \n ", "\t", " \n\n"]) if r.random() < 0.5 else r.choice(WORDS)
    nwords = r.choice([1, 2, 3, 5, 8, 12, 20, 30, 45])
    parts = []
    for i in range(nwords):
        x = r.random()
        if x < 0.10 and long_words:
            parts.append(long_word(r))
        elif x < 0.14:
            parts.append("".join(r.choice(WORDS[:12]) for _ in range(r.randint(2, 9)))[:50])
        else:
            parts.append(r.choice(WORDS))
        if i + 1 < nwords:
            y = r.random()
            parts.append(" " if y < 0.86 else "  " if y < 0.91 else "\n" if y < 0.95 else "\n\n" if y < 0.97
                         else "\t" if y < 0.985 else " " * r.randint(3, 70 if long_words else 45))
    t = "".join(parts)
    z = r.random()
    if z < 0.05:
        t = " " + t
    elif z < 0.10:
        t = t + " "
    elif z < 0.13:
        t = t + "\n"
    elif z < 0.15:
        t = "\n" + t
    return t


def source(r):
    big = r.random()
    n = r.randint(95, 108) if big < 0.04 else r.randint(8, 14) if big < 0.3 else r.randint(1, 7)
    base = r.choice(BASE_INDENTS)
    lines = []
    for _ in range(n):
        x = r.random()
        if x < 0.06:
            lines.append("")
        elif x < 0.10:
            lines.append(" " * r.choice([1, 4, 13, 20, 30]))
        else:
            ind = base + r.choice([0, 0, 0, 4, 4, 8, 1])
            if r.random() < 0.04:
                ind = r.randint(0, 24)
            ws = " " * ind
            if r.random() < 0.03 and ind:
                ws = ws[:-1] + "\t"
            body = " ".join(r.choice(TOKENS) for _ in range(r.randint(1, 7)))
            if r.random() < 0.05:
                body += " " * r.randint(1, 3)
            lines.append(ws + body)
    if lines[-1] == "":
        lines[-1] = "pass"
    return lines


def indent_of(line):
    return len(line) - len(line.lstrip())


def span(r, src, mode=None):
    """A span inside the source.  mode: single | multi | empty."""
    n = len(src)
    mode = mode or r.choice(["single"] * 6 + ["multi"] * 3 + ["empty"])
    l1 = r.randint(1, n)
    if mode == "multi" and n >= 2:
        l1 = r.randint(1, n - 1)
        l2 = min(n, l1 + r.choice([1, 1, 1, 2, 3, r.randint(1, n)]))
    else:
        l2 = l1

    def col(line, lo=0):
        ln = len(src[line - 1])
        x = r.random()
        if x < 0.45:
            c = indent_of(src[line - 1])
        elif x < 0.55:
            c = ln
        elif x < 0.62:
            c = 0
        else:
            c = r.randint(0, ln)
        return max(lo, min(c, ln)) if lo <= ln else ln
    c1 = col(l1)
    if l1 == l2:
        if mode == "empty":
            c2 = c1
        else:
            ln = len(src[l1 - 1])
            c2 = r.randint(c1, ln) if r.random() < 0.7 else ln
    else:
        c2 = col(l2)
    return [l1, c1, l2, c2]


def bad_span(r, src):
    n = len(src)
    k = r.randrange(4)
    if k == 0:  # end line beyond the file
        l1 = r.randint(1, n)
        return [l1, 0, n + r.randint(1, 3), 0]
    if k == 1:  # start beyond the file
        return [n + 1, 0, n + 1, 2]
    l1 = r.randint(1, n)
    ln = len(src[l1 - 1])
    if k == 2:  # columns beyond the line
        return [l1, ln + r.randint(1, 5), l1, ln + r.randint(5, 9)]
    return [l1, r.randint(0, ln), l1, ln + r.randint(1, 30)]


def case(r):
    src = source(r)
    malformed = r.random() < 0.05
    lw = r.random() < 0.12
    def text_(r_, allow_none=True, kind=None):
        return text(r_, allow_none, kind, long_words=lw)
    c = {"src": src, "level": r.choice(["Error"] * 5 + LEVELS), "title": text(r, False, kind=r.choice([1, 2, 3])) or "T",
         "via_field": r.random() < 0.3, "children": [], "malformed": malformed, "defect_domain": lw}
    c["title"] = " ".join(c["title"].split()) or "Title"      # titles are single-line
    if r.random() < 0.08:
        c.update(span=None, label=None, message=text_(r))
        if r.random() < 0.5:                                   # message-only children
            for _ in range(r.randint(1, 2)):
                c["children"].append({"level": r.choice(["Note", "Help"]), "span": None, "label": None,
                                      "message": text_(r)})
        return c
    c["span"] = bad_span(r, src) if malformed and r.random() < 0.5 else span(r, src)
    c["label"] = text_(r)
    c["message"] = text_(r) if r.random() < 0.5 else None
    for _ in range(r.choice([0, 0, 0, 1, 1, 2, 3])):
        if r.random() < 0.75:
            sp = bad_span(r, src) if malformed and r.random() < 0.5 else span(r, src)
            ch = {"level": r.choice(["Note", "Help", "Note", "Warning"]), "span": sp, "label": text_(r),
                  "message": text_(r) if r.random() < 0.25 else None}
        else:
            ch = {"level": r.choice(["Note", "Help"]), "span": None, "label": None, "message": text_(r)}
        c["children"].append(ch)
    return c


def cases(r, n):
    return [case(r) for _ in range(n)]
