(* C29 correspondence driver: reads cases (line-based, strings hex-encoded) on stdin, runs the
   model extracted from coq/C29/Render.v (render_model.ml, ExtrOcamlBasic + ExtrOcamlString
   only) and prints the rendered buffer.  No rendering logic lives here: only decoding of
   the input and encoding of the output.

   input, per case:   nlines / hex-line* / level / hex-title / span / optstr(label) /
                      optstr(message) / nchildren / (level / span / optstr / optstr)*
   span   = "N" | "S l1 c1 l2 c2";  optstr = "N" | "S <hex>" ("S" alone = empty string)
   output, per case:  "R" | "O <n>" followed by n hex lines *)
open Render_model

let rec pos_of_int n = if n = 1 then XH else if n land 1 = 0 then XO (pos_of_int (n lsr 1)) else XI (pos_of_int (n lsr 1))
let z_of_int n = if n = 0 then Z0 else if n > 0 then Zpos (pos_of_int n) else Zneg (pos_of_int (-n))

let unhex h =
  let n = String.length h / 2 in
  List.init n (fun i -> Char.chr (int_of_string ("0x" ^ String.sub h (2 * i) 2)))
let hex (l : char list) = String.concat "" (List.map (fun c -> Printf.sprintf "%02x" (Char.code c)) l)

let line () = input_line stdin
let words s = List.filter (fun x -> x <> "") (String.split_on_char ' ' s)
let optstr () = match words (line ()) with
  | ["N"] -> None | ["S"] -> Some [] | ["S"; h] -> Some (unhex h) | _ -> failwith "optstr"
let span () = match words (line ()) with
  | ["N"] -> None
  | ["S"; a; b; c; d] ->
    let i x = z_of_int (int_of_string x) in
    Some { s_start = { l_line = i a; l_col = i b }; s_end = { l_line = i c; l_col = i d } }
  | _ -> failwith "span"
let level () = match line () with
  | "Fatal" -> Fatal | "Error" -> Error | "Warning" -> Warning | "Note" -> Note | "Help" -> Help
  | _ -> failwith "level"
let with_label sp lbl = match sp with None -> None | Some s -> Some (s, lbl)

let () =
  try
    while true do
      let n = int_of_string (line ()) in
      let src = List.init n (fun _ -> unhex (line ())) in
      let lvl = level () in
      let title = unhex (line ()) in
      let sp = span () in
      let lbl = optstr () in
      let msg = optstr () in
      let k = int_of_string (line ()) in
      let kids = List.init k (fun _ ->
        let l = level () in let s = span () in let lb = optstr () in let m = optstr () in
        { sd_level = l; sd_span = with_label s lb; sd_message = m }) in
      let d = { d_level = lvl; d_title = title; d_file = ['f'; '.'; 'p'; 'y'];
                d_span = with_label sp lbl; d_message = msg; d_children = kids } in
      (match render_diagnostic src d with
       | Raise _ -> print_endline "R"
       | Ok ls -> Printf.printf "O %d\n" (List.length ls); List.iter (fun l -> print_endline (hex l)) ls)
    done
  with End_of_file -> ()
