"""Specification-side oracle for C29, written from the property text (not from the code):
given a case and the buffer produced by a renderer, decide whether the output is faithful.

  render_total     a diagnostic whose spans lie inside the source renders without raising
  title            first line names level, title and start location
  lines_shown      the numbered rows are exactly the spanned lines (first line, last line and
                   up to 2 lines of context before a primary span), each with its true line
                   number, minus the same number `remove` of leading columns, all whitespace;
                   remove = 0 unless every considered line is indented by more than 12 columns,
                   and at least 4 columns of the common indentation are kept
  markers_exact    in the row under a spanned line, display column k carries the marker
                   character iff source column k + remove belongs to the span
  words_preserved / wrap_at_space
                   the whitespace-separated words of the rows that carry a label (or message)
                   are exactly the words of that label (message), in order: no word lost,
                   none broken; a wrapped line is longer than the limit only if it is one word
Returns a list of (property, explanation); empty = faithful."""
import re

LABEL_W, MSG_W = 60, 80


def indent(line):
    return re.match(r"[\t\n\x0b\x0c\r\x1c-\x1f ]*", line).end()


def in_source(src, sp):
    if sp is None:
        return True
    l1, c1, l2, c2 = sp
    n = len(src)
    if not (1 <= l1 <= l2 <= n) or (l1, c1) > (l2, c2):
        return False
    return 0 <= c1 <= len(src[l1 - 1]) and 0 <= c2 <= len(src[l2 - 1])


def well_formed(case):
    spans = [case.get("span")] + [ch.get("span") for ch in case.get("children", [])]
    if case.get("span") is None and any(s is not None for s in spans):
        return False
    return all(in_source(case["src"], s) for s in spans)


def words(t):
    return t.split()


def check_wrapped(lines, text, width, what, errs, enabled=True):
    if not enabled:
        return
    if [w for l in lines for w in words(l)] != words(text):
        errs.append(("words_preserved/wrap_at_space",
                     f"{what}: words of rendered lines {[w for l in lines for w in words(l)]!r} != words of text {words(text)!r}"))
    for l in lines:
        if len(l.strip()) > width and len(words(l)) > 1:
            errs.append(("wrap_at_space", f"{what}: line longer than {width} that could have been wrapped: {l!r}"))


def check(case, out, wrap_clauses=True):
    """wrap_clauses=False: do not judge the wrapping of label/message text (used for the
    tie-only stream of texts with words longer than the width, a listed known finding)."""
    errs = []
    if not well_formed(case):
        return errs
    if not out.get("ok"):
        return [("render_total", f"raised {out.get('exc')}")]
    buf = out["lines"]
    src = case["src"]
    children = case.get("children", [])
    tail_expect = []          # expected words of everything after the snippets
    i = 0
    if case.get("span") is None:
        shown = case.get("message") or case["title"]
        tail_expect += [case["level"] + ":"] + words(shown)
        for ch in children:
            if ch.get("message"):
                tail_expect += [ch["level"] + ":"] + words(ch["message"])
        got = [w for l in buf for w in words(l)]
        if got != tail_expect and wrap_clauses:
            errs.append(("words_preserved/wrap_at_space", f"span-less diagnostic: words {got!r} != {tail_expect!r}"))
        for l in buf:
            if len(l) > MSG_W and len(words(l)) > 1 and wrap_clauses:
                errs.append(("wrap_at_space", f"message line longer than {MSG_W}: {l!r}"))
        return errs
    l1, c1, l2, c2 = case["span"]
    if not buf or buf[0] != f"{case['level']}: {case['title']} (at f.py:{l1}:{c1})":
        errs.append(("title", f"first line {buf[:1]!r}"))
        return errs
    i = 1
    snippets = [(case["span"], case.get("label"), True)] + \
               [(ch["span"], ch.get("label"), False) for ch in children if ch.get("span") is not None]
    w = len(str(max(sp[2] for sp, _, _ in snippets)))
    blank_gutter = " " * w + " | "

    def row(k):
        """(number | None, content) of buffer line k, or None if it is not a snippet row"""
        if k >= len(buf) or len(buf[k]) < w + 3 or buf[k][w:w + 3] != " | ":
            return None
        g = buf[k][:w]
        if g.strip() == "":
            return (None, buf[k][w + 3:])
        if not re.fullmatch(r" *[0-9]+", g):
            return None
        return (int(g), buf[k][w + 3:])

    for sp, label, primary in snippets:
        a1, b1, a2, b2 = sp
        hc = "^" if primary else "-"
        p = min(2 if primary else 0, a1 - 1)
        considered = src[a1 - 1 - p:a2]
        common = min(indent(l) for l in considered)
        remove = min(common - 4, b1, b2) if common > 12 else 0
        name = f"snippet for span {sp}"
        if row(i) != (None, ""):
            errs.append(("lines_shown", f"{name}: expected an empty gutter row at buffer line {i}, got {buf[i:i+1]!r}"))
            return errs
        i += 1
        numbered = list(range(a1 - p, a1 + 1))
        for n in numbered[:-1]:
            if row(i) != (n, src[n - 1][remove:]):
                errs.append(("lines_shown", f"{name}: context line {n}: got {buf[i:i+1]!r}, want {src[n-1][remove:]!r}"))
                return errs
            i += 1

        def spanned_line(n, cols_lo, cols_hi, tail_allowed):
            nonlocal i
            if row(i) != (n, src[n - 1][remove:]):
                errs.append(("lines_shown", f"{name}: line {n}: got {buf[i:i+1]!r}, want {src[n-1][remove:]!r} (remove={remove})"))
                return None
            i += 1
            r_ = row(i)
            if r_ is None or r_[0] is not None:
                errs.append(("markers_exact", f"{name}: no marker row under line {n}: {buf[i:i+1]!r}"))
                return None
            m = r_[1]
            mlen = max(cols_hi - remove, 0)
            for k in range(max(mlen, len(m) if not tail_allowed else mlen)):
                want = hc if cols_lo <= k + remove < cols_hi else " "
                have = m[k] if k < len(m) else " "
                if have != want:
                    errs.append(("markers_exact", f"{name}: marker row {m!r} under line {n}: display column {k} "
                                                  f"(source column {k+remove}) is {have!r}, want {want!r}"))
                    return None
            i += 1
            return m[mlen:]

        if a1 != a2:
            if spanned_line(a1, b1, len(src[a1 - 1]), False) is None:
                return errs
            if a2 - a1 > 1:
                if row(i) != (None, "..."):
                    errs.append(("lines_shown", f"{name}: expected an ellipsis row, got {buf[i:i+1]!r}"))
                    return errs
                i += 1
            tail = spanned_line(a2, 0, b2, True)
        else:
            tail = spanned_line(a1, b1, b2, True)
        if tail is None:
            return errs
        if tail and not tail.startswith(" "):
            errs.append(("markers_exact", f"{name}: text {tail!r} directly attached to the markers"))
        lab_lines = [tail]
        while i < len(buf) and buf[i].startswith(blank_gutter) and buf[i] != blank_gutter:
            r_ = row(i)
            lab_lines.append(r_[1])
            i += 1
        check_wrapped(lab_lines, label or "", LABEL_W, f"{name} label", errs, wrap_clauses)
        # all rows in the removed columns are whitespace (only indentation is trimmed)
        for l in considered:
            if l[:remove].strip() != "":
                errs.append(("lines_shown", f"{name}: trimmed non-whitespace {l[:remove]!r}"))
        if common > 12 and not (remove <= common - 4):
            errs.append(("lines_shown", f"{name}: trimmed too much"))
    if case.get("message"):
        tail_expect += words(case["message"])
    for ch in children:
        if ch.get("message"):
            tail_expect += [ch["level"] + ":"] + words(ch["message"])
    rest = buf[i:]
    got = [w_ for l in rest for w_ in words(l)]
    if got != tail_expect and wrap_clauses:
        errs.append(("words_preserved/wrap_at_space", f"messages: words {got!r} != {tail_expect!r}"))
    if (case.get("message") or any(ch.get("message") for ch in children)) and (not rest or rest[0] != ""):
        errs.append(("lines_shown", f"no separating empty line before the message: {rest[:1]!r}"))
    for l in rest:
        if len(l) > MSG_W and len(words(l)) > 1 and wrap_clauses:
            errs.append(("wrap_at_space", f"message line longer than {MSG_W}: {l!r}"))
    return errs
