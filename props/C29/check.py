"""C29 — diagnostic rendering is total and faithful.  Tie: X (correspondence).

1. re-check the theorems of coq/C29/Props.v (about the hand-written model coq/C29/Render.v);
2. correspondence: corpus + seeded random cases are rendered by the real
   DiagnosticsRenderer of the repo under test (impl_render.py) and by the model (its OCaml
   extraction for the volume; corpus + a sample also by vm_compute inside Coq, which
   cross-checks the extraction); the buffers are compared line by line;
3. failing-input search (always run, cheap): every implementation output is judged by the
   specification-side oracle (oracle.py, written from the property text); a failing input is
   reported as a counterexample with a replay command;
4. a disagreement model/implementation with no oracle failure is reported as a broken
   correspondence (no failing input found)."""
import collections
import hashlib
import json

import vlib
from vlib import proof_coverage

LEVEL = "proof"
N_QUICK, N_THOROUGH = 1500, 20000


def generate(ctx):      # nothing is generated from source for this property (X tie)
    return None


# ---------------------------------------------------------------------------------------
def coq_str(t):
    if t == "":
        return "[]"
    parts, run = [], ""
    for ch in t:
        o = ord(ch)
        if 32 <= o < 127:
            run += '""' if ch == '"' else ch
        else:
            if run:
                parts.append(f's "{run}"')
                run = ""
            parts.append(f"c {o}")
    if run:
        parts.append(f's "{run}"')
    return "(" + " ++ ".join(parts) + ")"


def coq_opt_str(t):
    return "None" if t is None else f"(Some {coq_str(t)})"


def coq_span_label(sp, label):
    if sp is None:
        return "None"
    return f"(Some (mkSpan (mkLoc {z(sp[0])} {z(sp[1])}) (mkLoc {z(sp[2])} {z(sp[3])}), {coq_opt_str(label)}))"


def z(n):
    return f"({n})" if n < 0 else str(n)


def coq_case(case):
    src = "[" + "; ".join(coq_str(l) for l in case["src"]) + "]"
    kids = "[" + "; ".join(
        f"mkSub {ch['level']} {coq_span_label(ch.get('span'), ch.get('label'))} {coq_opt_str(ch.get('message'))}"
        for ch in case.get("children", [])) + "]"
    return (f"render_diagnostic {src} (mkDiag {case['level']} {coq_str(case['title'])} (s \"f.py\") "
            f"{coq_span_label(case.get('span'), case.get('label'))} {coq_opt_str(case.get('message'))} {kids})")


def coq_expected(out):
    if not out["ok"]:
        return "None"
    return "(Some [" + "; ".join(coq_str(l) for l in out["lines"]) + "])"


HEADER = ("From Coq Require Import String Ascii ZArith List.\nFrom V.Lib Require Import Outcome.\n"
          "From V.C29 Require Import Render Tie.\nImport ListNotations. Open Scope Z_scope.\n")


def agree_file(cases, outs):
    items = [f"agree ({coq_case(c)}) {coq_expected(o)}" for c, o in zip(cases, outs)]
    return HEADER + "Definition results : list bool := [\n" + ";\n".join(items) + "].\nEval vm_compute in results.\n"


def show_file(cases):
    items = [f"show ({coq_case(c)})" for c in cases]
    return HEADER + "Definition results : list (list (list N)) := [\n" + ";\n".join(items) + "].\nEval vm_compute in results.\n"


EXTRACT_V = ("Require Extraction.\nFrom Coq Require Import ExtrOcamlBasic ExtrOcamlString.\n"
             "From V.C29 Require Import Render.\nExtraction \"render_model.ml\" render_diagnostic mkDiag mkSub mkSpan mkLoc.\n")


def build_driver(ctx):
    """Extract coq/C29/Render.v to OCaml (ExtrOcamlBasic/ExtrOcamlString only) and link it with
    driver.ml.  Cached under props/C29/_build/<hash of the inputs>/driver."""
    import shutil
    srcs = [vlib.COQ / "C29" / "Render.v", vlib.COQ / "Lib" / "Outcome.v", ctx.dir / "driver.ml"]
    h = hashlib.sha1(b"".join(p.read_bytes() for p in srcs) + EXTRACT_V.encode()).hexdigest()[:16]
    out = ctx.dir / "_build" / h / "driver"
    if out.exists():
        return out
    ctx.coq_eval("extract", EXTRACT_V)
    d = ctx.scratch / "coq"
    shutil.copy(ctx.dir / "driver.ml", d / "driver.ml")
    rc, log = vlib.sh(["ocamlfind", "ocamlopt", "-w", "-a", "render_model.mli", "render_model.ml", "driver.ml", "-o", "driver"],
                      cwd=d, timeout=600)
    if rc != 0:
        raise RuntimeError("ocaml build failed:\n" + log[-3000:])
    shutil.rmtree(ctx.dir / "_build", ignore_errors=True)
    out.parent.mkdir(parents=True)
    shutil.copy(d / "driver", out)
    return out


def hx(t):
    return t.encode("latin-1").hex()


def driver_input(cases):
    def span(sp):
        return "N" if sp is None else "S " + " ".join(map(str, sp))

    def opt(t):
        return "N" if t is None else ("S " + hx(t)).strip()
    out = []
    for c in cases:
        out.append(str(len(c["src"])))
        out += [hx(l) for l in c["src"]]
        out += [c["level"], hx(c["title"]), span(c.get("span")),
                opt(c.get("label") if c.get("span") is not None else None), opt(c.get("message")),
                str(len(c.get("children", [])))]
        for ch in c.get("children", []):
            out += [ch["level"], span(ch.get("span")), opt(ch.get("label") if ch.get("span") is not None else None),
                    opt(ch.get("message"))]
    return "\n".join(out) + "\n"


def run_driver(driver, cases):
    import subprocess
    p = subprocess.run([str(driver)], input=driver_input(cases), text=True, capture_output=True, timeout=1800)
    if p.returncode != 0:
        raise RuntimeError("driver failed: " + p.stderr[-2000:])
    lines = p.stdout.split("\n")
    res, i = [], 0
    while i < len(lines) and lines[i] != "":
        if lines[i] == "R":
            res.append({"ok": False})
            i += 1
        else:
            n = int(lines[i].split()[1])
            res.append({"ok": True, "lines": [bytes.fromhex(x).decode("latin-1") for x in lines[i + 1:i + 1 + n]]})
            i += 1 + n
    return res


def same(model, impl):
    return model["ok"] == impl["ok"] and (not model["ok"] or model["lines"] == impl["lines"])


def decode_show(v):
    if v[0] == [1]:
        return {"ok": True, "lines": ["".join(map(chr, l)) for l in v[1:]]}
    return {"ok": False, "exc": "".join(map(chr, v[1]))}


def case_key(case):
    return hashlib.sha1(json.dumps(case, sort_keys=True).encode()).hexdigest()[:16]


REPLAY = ("cd /verif/props/C29 && echo '[<case json>]' | PYTHONPATH=<repo>/guppylang-internals/src "
          "/venv/bin/python impl_render.py   (prints the real renderer's buffer for the case)")


def features(case, out):
    import oracle
    f = []
    sp = case.get("span")
    if sp is None:
        f.append("no-span")
    else:
        f.append("multi" if sp[0] != sp[2] else "empty" if sp[1] == sp[3] else "single")
        src = case["src"]
        if oracle.well_formed(case):
            p = min(2, sp[0] - 1)
            ind = min(oracle.indent(l) for l in src[sp[0] - 1 - p:sp[2]])
            f.append("trimmed" if ind > 12 else "untrimmed")
            if ind > 12 and min(sp[1], sp[3]) < ind - 4:
                f.append("span-inside-trimmed-indent")
    kids = case.get("children", [])
    f.append(f"children={len(kids)}")
    for ch in kids:
        csp = ch.get("span")
        f.append("child:" + ("message-only" if csp is None else "multi" if csp[0] != csp[2] else "empty" if csp[1] == csp[3] else "single"))
    texts = [case.get("label"), case.get("message")] + [ch.get(k) for ch in kids for k in ("label", "message")]
    texts = [t for t in texts if t]
    if any(len(w) > 60 for t in texts for w in t.split()):
        f.append("long-word")
    if any("-" in w.strip("-") for t in texts for w in t.split()):
        f.append("hyphenated")
    if any("\n" in t for t in texts):
        f.append("multi-paragraph")
    if any(t.strip() == "" for t in texts):
        f.append("whitespace-only-text")
    if case.get("malformed"):
        f.append("malformed")
    f.append("raised" if not out["ok"] else "rendered")
    return f


def run(ctx):
    import gen_cases
    import oracle
    import time
    t0 = time.time()
    timing = {}

    def lap(name):
        nonlocal t0
        timing[name] = round(time.time() - t0, 1)
        t0 = time.time()
    generate(ctx)
    info = ctx.coq_props()
    tie_build = ctx.coq_make(["C29/Tie.vo"])
    lap("coq build (incl. waiting for the shared build lock)")
    r = vlib.rng(ctx.seed, "C29")
    # ---- cases: corpus first, then fresh ones
    cases, origin = [], []
    for p in sorted((ctx.dir / "corpus").glob("*.json")):
        for k, c in enumerate(json.loads(p.read_text())):
            cases.append(c)
            origin.append(f"corpus:{p.name}#{k}")
    n_fresh = N_QUICK if ctx.quick else N_THOROUGH
    fresh = gen_cases.cases(r, n_fresh)
    cases += fresh
    origin += [f"random:{case_key(c)}" for c in fresh]
    # ---- implementation side
    impl = json.loads(ctx.impl("impl_render.py", cases))
    lap("implementation side")
    # ---- model side: extracted OCaml for the volume, plus the same comparison done inside
    #      Coq (vm_compute) on the corpus and the first fresh cases (validates the extraction)
    agree, model = None, None
    n_corpus = len(cases) - n_fresh
    window = list(range(n_corpus, n_corpus + min(n_fresh, 100 if ctx.quick else 1000)))
    window.sort(key=lambda j: len(json.dumps(cases[j])))     # literals are slow to elaborate: take small cases
    coq_idx = list(range(n_corpus)) + sorted(window[:8 if ctx.quick else 64])
    n_coq = len(coq_idx)
    if tie_build.ok:
        try:
            model = run_driver(build_driver(ctx), cases)
            if len(model) != len(cases):
                raise RuntimeError(f"driver returned {len(model)} results for {len(cases)} cases")
            # corpus cases marked "model": false lie outside the modelled text domain
            agree = [same(m, o) or c.get("model") is False for m, o, c in zip(model, impl, cases)]
            lap("extracted model")
            chunks = [(i, [cases[j] for j in coq_idx[i:i + 8]], [impl[j] for j in coq_idx[i:i + 8]]) for i in range(0, n_coq, 8)]
            outs = ctx.coq_eval_many({f"cases{i}": agree_file(c, o) for i, c, o in chunks})
            coq_agree = []
            for i, _, _ in chunks:
                coq_agree += vlib.parse_coq_values(outs[f"cases{i}"])[0]
            for j, a in zip(coq_idx, coq_agree):
                if a != same(model[j], impl[j]):
                    ctx.notes.append(f"extraction cross-check: Coq vm_compute and extracted OCaml differ on case {origin[j]}")
                    agree[j] = False
        except RuntimeError as e:
            ctx.notes.append(f"model evaluation failed: {str(e)[-1500:]}")
            agree = None
    else:
        ctx.notes.append("coq/C29/Tie.vo did not build; no model evaluation")
    lap("model inside Coq")
    # ---- specification-side judgement of every implementation output (the search)
    #      cases of the defect-domain stream (texts with words longer than the width: known
    #      finding "long word") are judged on every clause except the wrapping of text
    verdicts = [oracle.check(c, o, wrap_clauses=not c.get("defect_domain")) for c, o in zip(cases, impl)]
    spec_fail = [j for j, v in enumerate(verdicts) if v]
    reported_props = set()
    for j in spec_fail:
        prop = verdicts[j][0][0]
        key = origin[j] if origin[j].startswith("corpus:") else f"{origin[j]}:{prop}"
        if prop in reported_props and not origin[j].startswith("corpus:"):
            continue   # one fresh witness per violated clause is enough
        if not origin[j].startswith("corpus:"):
            reported_props.add(prop)
        ctx.report(key, "counterexample", f"C29 clause {prop} fails on the real renderer",
                   {"case": cases[j], "violations": verdicts[j][:4], "implementation_output": impl[j],
                    "replay": REPLAY.replace("<repo>", str(ctx.repo)), "origin": origin[j]})
    # ---- correspondence
    mismatches = [j for j, a in enumerate(agree or []) if not a] if agree is not None and len(agree) == len(cases) else None
    if mismatches:
        shown = mismatches[:5]
        model_out = [model[j] for j in shown]
        pure = [j for j in mismatches if not verdicts[j]]
        ctx.notes.append(f"{len(mismatches)} model/implementation disagreements, {len(pure)} of them on outputs the oracle accepts")
        if pure or not spec_fail:
            j = (pure or mismatches)[0]
            k = shown.index(j) if j in shown else None
            ctx.report(f"correspondence:{origin[j]}", "correspondence", "Render.render_diagnostic vs DiagnosticsRenderer.render_diagnostic",
                       {"case": cases[j], "implementation_output": impl[j],
                        "model_output": model_out[k] if k is not None else "(not printed)",
                        "disagreements": len(mismatches),
                        "meaning": "the Coq model no longer describes the renderer; the theorems say nothing about this code until the model is updated",
                        "replay": REPLAY.replace("<repo>", str(ctx.repo))},
                       found_input=False)
    elif mismatches is None:
        ctx.report("correspondence:not-evaluated", "correspondence", "model evaluation failed",
                   {"notes": ctx.notes[-2:]}, found_input=False)
    if not info["ok"]:
        ctx.report("proof-broken:" + str(info["failed"]), "proof-broken", str(info["failed"]),
                   {"coq_error": vlib.CoqResult(False, info["log"]).error_excerpt(), "searched_cases": len(cases),
                    "oracle_failures": len(spec_fail)}, found_input=False)
    # ---- evidence
    hist = collections.Counter()
    for c, o in zip(cases, impl):
        hist.update(features(c, o))
    indents = collections.Counter()
    for c in cases:
        if c.get("span") and oracle.well_formed(c):
            sp = c["span"]
            indents[min(oracle.indent(l) for l in c["src"][sp[0] - 1:sp[2]])] += 1
    nontrivial = len({case_key(c) for c, o in zip(cases, impl) if c.get("span") and oracle.well_formed(c)})
    cov = proof_coverage(
        info, "make C29/Props.vo && coqc C29/Props.v (Print Assumptions)",
        ["Coq 8.16.1 kernel; vm_compute used for Examples / witnesses and for model evaluation in the tie",
         "hand-written model coq/C29/Render.v of diagnostic.py (render_diagnostic, render_snippet, wrap), span.py (shift_left, Span guard) and CPython (textwrap.wrap with break_long_words=False/break_on_hyphens=False, splitlines on \\n, lstrip, str(int), slicing), tied by differential testing only",
         "props/C29/impl_render.py (builds Diagnostic classes; format placeholders bypassed by escaping or a field), gen_cases.py, oracle.py",
         "text domain of the wrap theorems: printable ASCII and \\n; str.format placeholder expansion, to_span(ast) and MietteRenderer are not modelled"],
        evaluations=len(cases), distinct_nontrivial=nontrivial,
        rule="cases = corpus + seeded random diagnostics (sources 1-108 lines, indentation 0-32, single/multi/empty spans, 0-3 children, texts with long words/hyphens/newlines/tabs, 5% malformed); non-trivial = distinct well-formed case with a primary span (a snippet is rendered)",
        traces_validated_against_impl=len(agree) if agree else 0, evaluated_inside_coq=n_coq if agree else 0,
        model_impl_disagreements=len(mismatches) if mismatches is not None else "not evaluated",
        oracle_failures=len(spec_fail), corpus_cases=len(cases) - n_fresh,
        feature_histogram=dict(sorted(hist.items())),
        span_indentation_histogram={str(k): v for k, v in sorted(indents.items())},
        timing_s=timing, samples=[{"case": cases[j], "impl": impl[j]} for j in (0, len(cases) // 2, len(cases) - 1)],
        notes=ctx.notes)
    return ctx.finish(LEVEL, cov, [
        "rendered title/label/message strings are inputs (str.format placeholder expansion not modelled)",
        "all spans of one diagnostic are in one file (add_sub_diagnostic enforces it); spans are Span objects, not AST nodes",
        "source lines contain no line-break characters (SourceMap.add_file splits on them)"])
