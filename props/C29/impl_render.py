"""Implementation side of the C29 correspondence: build real Diagnostic objects for each
case (JSON list on stdin) and run the real DiagnosticsRenderer of the repo under test.
Output: JSON list of {"ok": true, "lines": [...]} | {"ok": false, "exc": "Type: msg"}."""
import json
import sys
from dataclasses import dataclass
from typing import ClassVar

from guppylang_internals import diagnostic as D
from guppylang_internals.span import Loc, SourceMap, Span

FILE = "f.py"
BASES = {"Fatal": D.Fatal, "Error": D.Error, "Note": D.Note, "Help": D.Help}


def base_for(level, main):
    if level in BASES and (not main or level in ("Fatal", "Error")):
        return BASES[level], None
    if level in ("Note", "Help") and not main:
        return BASES[level], None
    # any other level: subclass the protocol directly and set `level`
    return (D.Diagnostic if main else D.SubDiagnostic), D.DiagnosticLevel[level.upper()]


def esc(t):
    return t.replace("{", "{{").replace("}", "}}")


def mk_class(level, main, title, label, message, via_field):
    """A concrete diagnostic class.  Texts are either escaped format strings (ClassVar) or
    passed through a placeholder field, both ways the rendered text equals the given text."""
    base, lvl = base_for(level, main)
    ns, ann = {}, {}
    fields = {}

    def put(attr, val):
        if val is None:
            return
        ann[attr] = ClassVar[str]
        if via_field and val != "":
            ns[attr] = "{f_" + attr + "}"
            fields["f_" + attr] = val
        else:
            ns[attr] = esc(val)
    if main:
        put("title", title)
    put("span_label", label)
    put("message", message)
    if lvl is not None:
        ann["level"] = ClassVar[D.DiagnosticLevel]
        ns["level"] = lvl
    for f in fields:
        ann[f] = str
    # dataclass field order: span first (inherited), then our fields
    ns["__annotations__"] = ann
    cls = dataclass(frozen=True)(type("GenDiag", (base,), ns))
    return cls, fields


def to_span(sp):
    return None if sp is None else Span(Loc(FILE, sp[0], sp[1]), Loc(FILE, sp[2], sp[3]))


def build(case):
    cls, fields = mk_class(case["level"], True, case["title"], case.get("label"), case.get("message"), case.get("via_field"))
    d = cls(to_span(case.get("span")), **fields)
    for ch in case.get("children", []):
        ccls, cf = mk_class(ch["level"], False, None, ch.get("label"), ch.get("message"), case.get("via_field"))
        d.add_sub_diagnostic(ccls(to_span(ch.get("span")), **cf))
    return d


def run(case):
    sm = SourceMap()
    sm.add_file(FILE, "\n".join(case["src"]))
    assert sm.sources[FILE] == case["src"], "generator contract: source lines round-trip through add_file"
    d = build(case)
    r = D.DiagnosticsRenderer(sm)
    try:
        r.render_diagnostic(d)
    except Exception as e:  # noqa: BLE001
        return {"ok": False, "exc": f"{type(e).__name__}: {e}"}
    return {"ok": True, "lines": list(r.buffer)}


if __name__ == "__main__":
    cases = json.load(sys.stdin)
    json.dump([run(c) for c in cases], sys.stdout)
