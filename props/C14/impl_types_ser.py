"""HUGR type serialiser shared by the C14 harnesses (same integer encoding as Model.v `ser`)."""
from hugr import tys as ht
from guppylang_internals.compiler import core as C


def bcode(b):
    return {ht.TypeBound.Copyable: 0, ht.TypeBound.Linear: 1}[b]


QNAMES = ["tket.bool.bool", "prelude.string", "arithmetic.int.types.int", "arithmetic.float.types.float64",
          "collections.list.List", "collections.borrow_arr.borrow_array", "collections.array.array",
          "collections.static_array.static_array"]


def ser(h):
    if isinstance(h, ht.ExtType):
        q = C.qualified_name(h.type_def)
        out = [1, QNAMES.index(q) if q in QNAMES else -1, len(h.args)]
        for a in h.args:
            if isinstance(a, ht.TypeTypeArg):
                out += [10] + ser(a.ty)
            elif isinstance(a, ht.BoundedNatArg):
                out += [11, a.n]
            elif isinstance(a, ht.VariableArg):
                out += [12, a.idx]
            else:
                out += [19]
        return out
    if isinstance(h, ht.Sum):
        out = [2, len(h.variant_rows)]
        for r in h.variant_rows:
            out += [len(r)]
            for x in r:
                out += ser(x)
        return out
    if isinstance(h, ht.Variable):
        return [3, h.idx, bcode(h.bound)]
    if isinstance(h, ht.FunctionType):
        return [4]
    if h == ht.Qubit:
        return [5]
    return [99]
