"""Implementation side for C14 (drops): compile real Guppy programs with /repo and read the
`drop` nodes and any dangling value ports from the generated HUGR.

stdin JSON: {"programs": [{"name": str, "src": python source defining @guppy functions, "funcs": [names]}]}
stdout JSON: [{"name", "func", "err" | ("drops": [ser(type)...] sorted, "drop_srcs_ok": bool,
               "dangling": [str(type)...], "n_nodes": int)}]
Checks done here on the real HUGR (independent of the model):
  dangling   = value out-ports of non-FuncDefn nodes with no link whose type satisfies the
               real requires_drop  (must be empty after insert_drops)
  drop_srcs_ok = every drop node consumes a port whose type equals the drop's type argument and
               that port has exactly one link."""
import importlib.util
import json
import os
import sys

import repo_shim  # noqa: F401
import guppylang
from hugr import ops, tys as ht
from guppylang_internals.compiler import core as C

sys.path.insert(0, os.path.dirname(os.path.abspath(__file__)))
from impl_types_ser import ser  # noqa: E402

guppylang.enable_experimental_features()
inp = json.load(sys.stdin)
out = []
for k, prog in enumerate(inp["programs"]):
    path = os.path.join(os.getcwd(), f"c14prog_{k}.py")
    with open(path, "w") as f:
        f.write(prog["src"])
    try:
        spec = importlib.util.spec_from_file_location(f"c14prog_{k}", path)
        mod = importlib.util.module_from_spec(spec)
        sys.modules[f"c14prog_{k}"] = mod
        spec.loader.exec_module(mod)
    except Exception as e:  # noqa: BLE001
        out.append({"name": prog["name"], "func": None, "err": f"import: {type(e).__name__}: {str(e)[:300]}"})
        continue
    for fn in prog["funcs"]:
        rec = {"name": prog["name"], "func": fn, "err": None}
        try:
            g = getattr(mod, fn)
            pkg = g.compile_function() if hasattr(g, "compile_function") else g.compile()
            h = pkg.modules[0]
            drops, ok, dangling, unlinked = [], True, [], []
            for node in h:
                op = h[node].op
                if isinstance(op, ops.ExtOp) and op._op_def.name == "drop":
                    ty = op.args[0].ty
                    drops.append(ser(ty))
                    srcs = list(h.linked_ports(node.inp(0)))
                    if len(srcs) != 1:
                        ok = False
                    else:
                        kind = h.port_kind(srcs[0])
                        if not isinstance(kind, ht.ValueKind) or kind.ty != ty or len(list(h.linked_ports(srcs[0]))) != 1:
                            ok = False
                if isinstance(op, ops.FuncDefn):
                    continue
                for i in range(h.num_out_ports(node)):
                    port = node.out(i)
                    kind = h.port_kind(port)
                    if isinstance(kind, ht.ValueKind) and next(iter(h.linked_ports(port)), None) is None:
                        # every unlinked value port, judged by the caller independently of the real requires_drop
                        unlinked.append({"op": type(op).__name__, "port": i, "ty": str(kind.ty), "ser": ser(kind.ty)})
                        if C.requires_drop(kind.ty):
                            dangling.append(str(kind.ty))
            rec.update(drops=sorted(drops), drop_srcs_ok=ok, dangling=dangling, unlinked=unlinked, n_nodes=sum(1 for _ in h))
        except Exception as e:  # noqa: BLE001
            rec["err"] = f"{type(e).__name__}: {str(e)[:400]}"
        out.append(rec)
json.dump(out, sys.stdout)
