"""C14 translator: regenerate coq/C14/GenTyTable.v from /repo's current sources.

Reads (Python `ast`, fail-closed: any unknown shape raises TranslatorError)
  tys/ty.py        the `Type` union; for every concrete type class the *resolved* (MRO)
                   definition of copyable / droppable / hugr_bound and the helper properties
                   they use (linear, affine, intrinsically_copyable/droppable), translated
                   expression by expression; shape assertions on the to_hugr methods
  tys/var.py       BoundVar / ExistentialVar do not define any classification attribute
  tys/common.py, compiler/core.py   a bound type variable becomes ht.Variable(idx, var.hugr_bound)
  tys/param.py     TypeParam.to_hugr (bound of the HUGR type parameter)
  tys/builtin.py   every module-level OpaqueTypeDef(...) with name, params, never_copyable,
                   never_droppable, bound and the body of its to_hugr function
  decorator.py + guppylang/std/quantum/__init__.py   custom_type(...) -> the qubit definition
  compiler/core.py AFFINE_EXTENSION_TYS, the arms of requires_drop, the loop of insert_drops
                   and its call site at the end of CompilerContext.compile

Trusted readings: see coq/C14/Base.v header; hugr-py constructor names -> qualified HUGR
type names (CTOR table below; validated on every run by comparing the rendered HUGR type
of real objects with the model's)."""
from __future__ import annotations

import ast

from tr_common import ExprTr, HEADER, TranslatorError, find_class, find_func, parse_file, strip_doc, BOOL_OPS, STR_OPS, Z_OPS

ATTRS = ["copyable", "droppable", "hugr_bound"]
HELPERS = ["linear", "affine", "intrinsically_copyable", "intrinsically_droppable"]
ATTR_TY = {"copyable": "bool", "droppable": "bool", "linear": "bool", "affine": "bool",
           "intrinsically_copyable": "bool", "intrinsically_droppable": "bool", "hugr_bound": "bound"}
VIEW = {
    "NoneType": [], "NumericType": [], "FunctionType": [],
    "BoundTypeVar": [("copyable", "bool"), ("droppable", "bool")],
    "TupleType": [("args", "list argview")],
    "OpaqueType": [("defn", "odef"), ("args", "list argview")],
    "StructType": [("fields", "list tinfo"), ("args", "list argview")],
}
TY_CLASSES = ["TypeBase", "ParametrizedTypeBase", "BoundTypeVar", "ExistentialTypeVar", "NoneType",
              "NumericType", "FunctionType", "TupleType", "OpaqueType", "StructType"]
BOUND_OPS = {"eq": ("bound_eqb {a} {b}", "bool"), "ne": ("negb (bound_eqb {a} {b})", "bool")}


def u(n):
    return ast.unparse(n)


def fail(msg):
    raise TranslatorError(msg)


# ------------------------------------------------------------------------------------------
# class members


def member(cls: ast.ClassDef, name: str):
    """('prop', FunctionDef) | ('abstract', _) | ('field', None) | ('const', expr) | None"""
    found = None
    for n in cls.body:
        if isinstance(n, ast.FunctionDef) and n.name == name:
            decs = [u(d) for d in n.decorator_list]
            if any(d.endswith("abstractmethod") for d in decs):
                found = ("abstract", n)
            elif any(d in ("property", "cached_property") for d in decs):
                found = ("prop", n)
            else:
                fail(f"{cls.name}.{name} is a plain method, expected a property")
        elif isinstance(n, ast.AnnAssign) and isinstance(n.target, ast.Name) and n.target.id == name:
            if n.value is None:
                found = ("field", None)
            elif isinstance(n.value, ast.Call) and u(n.value.func) == "field":
                kw = {k.arg: k.value for k in n.value.keywords}
                if "default" not in kw:
                    fail(f"{cls.name}.{name}: field() without default")
                found = ("const", kw["default"])
            else:
                found = ("const", n.value)
        elif isinstance(n, ast.Assign) and any(isinstance(t, ast.Name) and t.id == name for t in n.targets):
            found = ("const", n.value)
    return found


class TyTr:
    def __init__(self, mod: ast.Module):
        self.mod = mod
        self.cls = {}
        for n in mod.body:
            if isinstance(n, ast.ClassDef):
                self.cls[n.name] = n
        for c in TY_CLASSES:
            if c not in self.cls:
                fail(f"class {c} missing from tys/ty.py")
        self.out: dict[str, str] = {}   # name -> definition text (insertion-ordered)

    def mro(self, c: str) -> list[str]:
        res = [c]
        for b in self.cls[c].bases:
            bn = u(b).split("[")[0]
            if bn in self.cls:
                for x in self.mro(bn):
                    if x not in res:
                        res.append(x)
        return res

    def resolve(self, c: str, attr: str, after: str | None = None):
        chain = self.mro(c)
        if after is not None:
            chain = chain[chain.index(after) + 1:]
        for d in chain:
            m = member(self.cls[d], attr)
            if m is not None:
                if m[0] == "abstract":
                    fail(f"{c}.{attr} resolves to the abstract declaration in {d}")
                return d, m
        fail(f"{c}.{attr} not found along {chain}")

    def params(self, c):
        return " ".join(f"({n} : {t})" for n, t in VIEW[c])

    def pargs(self, c):
        return " ".join(n for n, _ in VIEW[c])

    def ref(self, c: str, attr: str, after: str | None = None) -> str:
        """Emit (once) the definition of attr as seen from concrete class c; return its call."""
        d, (kind, node) = self.resolve(c, attr, after)
        name = f"gen_{c}_{attr}" + (f"__{d}" if after is not None else "")
        call = (f"({name} {self.pargs(c)})" if VIEW[c] else name)
        if name in self.out:
            return call
        self.out[name] = ""  # reserve (recursion guard)
        ty = ATTR_TY[attr]
        if kind == "field":
            if (attr, ty) not in VIEW[c]:
                fail(f"{c}.{attr} is an instance field but not part of the modelled view of {c}")
            body = attr
        elif kind == "const":
            body = self.const(node, ty, f"{d}.{attr}")
        else:
            body = self.prop_body(c, d, node, ty)
        del self.out[name]   # re-insert after its dependencies
        self.out[name] = f"Definition {name} {self.params(c)} : {ty} := {body}."
        return call

    def const(self, node, ty, where):
        s = u(node)
        tab = {"True": ("true", "bool"), "False": ("false", "bool"),
               "ht.TypeBound.Copyable": ("Copyable", "bound"), "ht.TypeBound.Linear": ("Linear", "bound")}
        if s not in tab or tab[s][1] != ty:
            fail(f"{where}: constant `{s}` not understood as {ty}")
        return tab[s][0]

    def prop_body(self, c, d, fn: ast.FunctionDef, ty):
        tr = self.mk_tr(c, d)
        stmts = strip_doc(fn.body)

        def ret(term, t):
            if t != ty:
                fail(f"{d}.{fn.name} returns {t}, expected {ty}")
            return term

        def raise_(node):
            fail(f"{d}.{fn.name}: raise in a classification property")

        return self.body(tr, stmts, ret, raise_)

    def body(self, tr, stmts, ret, raise_):
        # `if X is not None: return X` ; rest      ->  match X with Some b => b | None => rest end
        if stmts and isinstance(stmts[0], ast.If) and isinstance(stmts[0].test, ast.Compare) \
                and len(stmts[0].test.ops) == 1 and isinstance(stmts[0].test.ops[0], ast.IsNot) \
                and u(stmts[0].test.comparators[0]) == "None" and not stmts[0].orelse \
                and len(stmts[0].body) == 1 and isinstance(stmts[0].body[0], ast.Return) \
                and u(stmts[0].body[0].value) == u(stmts[0].test.left):
            x, tx = tr.expr(stmts[0].test.left)
            if not tx.startswith("option "):
                fail(f"`{u(stmts[0].test)}` on non-optional {tx}")
            rest = self.body(tr, stmts[1:], ret, raise_)
            ret("b", tx[len("option "):])
            return f"match {x} with Some b => b | None => {rest} end"
        return tr.body(stmts, ret, raise_)

    def mk_tr(self, c, d):
        outer = self
        env = {"ht.TypeBound.Linear": ("Linear", "bound"), "ht.TypeBound.Copyable": ("Copyable", "bound")}
        names = dict(VIEW[c])
        if "args" in names:
            env["self.args"] = ("args", "list argview")
        if "defn" in names:
            env["self.defn.never_copyable"] = ("od_never_copyable defn", "bool")
            env["self.defn.never_droppable"] = ("od_never_droppable defn", "bool")
            env["self.defn.bound"] = ("od_bound defn", "option bound")
        if "fields" in names:
            env["self.fields"] = ("fields", "list tinfo")

        class T(ExprTr):
            def expr(self, e):
                if isinstance(e, ast.Attribute):
                    s = u(e)
                    if s in self.env:
                        t, ty = self.env[s]
                        return (f"({t})" if " " in t else t), ty
                    if isinstance(e.value, ast.Name) and e.value.id == "self" and e.attr in ATTR_TY:
                        return outer.ref(c, e.attr), ATTR_TY[e.attr]
                    if u(e.value) == "super()" and e.attr in ATTR_TY:
                        return outer.ref(c, e.attr, after=d), ATTR_TY[e.attr]
                    # arg.ty.<P> / f.ty.<P>
                    if isinstance(e.value, ast.Attribute) and e.value.attr == "ty" and isinstance(e.value.value, ast.Name) \
                            and e.attr in ATTRS:
                        v = e.value.value.id
                        if v in self.env and self.env[v][1] == "argview":
                            return f"(av_{e.attr} {v})", ATTR_TY[e.attr]
                        if v in self.env and self.env[v][1] == "tinfo":
                            return f"(ti_{e.attr} {v})", ATTR_TY[e.attr]
                    self.fail(e, "attribute not understood")
                if isinstance(e, ast.Call):
                    f = u(e.func)
                    if f == "isinstance" and len(e.args) == 2 and isinstance(e.args[0], ast.Name) \
                            and self.env.get(e.args[0].id, (None, None))[1] == "argview" and u(e.args[1]) == "TypeArg":
                        return f"(av_is_type {e.args[0].id})", "bool"
                    if f in ("all", "any") and len(e.args) == 1 and isinstance(e.args[0], ast.GeneratorExp) and not e.keywords:
                        lst, (elt, ety) = self.gen(e.args[0])
                        if ety != "bool":
                            self.fail(e, f"all/any over {ety}")
                        return f"({'forallb' if f == 'all' else 'existsb'} (fun {elt[0]} => {elt[1]}) {lst})", "bool"
                    if f == "ht.TypeBound.join" and not e.keywords:
                        items, tail = [], None
                        for a in e.args:
                            if isinstance(a, ast.Starred):
                                if tail is not None or not isinstance(a.value, ast.GeneratorExp):
                                    self.fail(e, "join with several / non-generator starred arguments")
                                lst, (elt, ety) = self.gen(a.value)
                                if ety != "bound":
                                    self.fail(e, "join over non-bounds")
                                tail = f"map (fun {elt[0]} => {elt[1]}) {lst}"
                            else:
                                if tail is not None:
                                    self.fail(e, "positional argument after starred")
                                t, ty = self.expr(a)
                                if ty != "bound":
                                    self.fail(e, "join over non-bounds")
                                items.append(t)
                        return "(bound_join (" + " :: ".join(items + [tail or "nil"]) + "))", "bound"
                return super().expr(e)

            def gen(self, g: ast.GeneratorExp):
                if len(g.generators) != 1 or g.generators[0].is_async or not isinstance(g.generators[0].target, ast.Name):
                    self.fail(g, "generator shape")
                comp = g.generators[0]
                it, ity = self.expr(comp.iter)
                if not ity.startswith("list "):
                    self.fail(g, f"iteration over {ity}")
                v = comp.target.id
                saved = self.env.get(v)
                self.env[v] = (v, ity[len("list "):])
                try:
                    lst = it
                    for cond in comp.ifs:
                        ct, cty = self.expr(cond)
                        if cty != "bool":
                            self.fail(cond, "filter of non-bool type")
                        lst = f"(filter (fun {v} => {ct}) {lst})"
                    elt = self.expr(g.elt)
                finally:
                    if saved is None:
                        del self.env[v]
                    else:
                        self.env[v] = saved
                return lst, ((v, elt[0]), elt[1])

        return T(env=env, ops={"Z": Z_OPS, "bool": BOOL_OPS, "string": STR_OPS, "bound": BOUND_OPS})


# ------------------------------------------------------------------------------------------
# to_hugr bodies of opaque type definitions

CTOR = {  # hugr-py constructor -> (qualified HUGR type name, argument template)
    "hugr.std.collections.list.List": ("collections.list.List", "T"),
    "hugr.std.collections.borrow_array.BorrowArray": ("collections.borrow_arr.borrow_array", "TN"),
    "hugr.std.collections.static_array.StaticArray": ("collections.static_array.static_array", "T"),
}
CONST_HTY = {
    "OpaqueBool": 'HExt "tket.bool.bool" []',
    "hugr.std.PRELUDE.get_type('string').instantiate([])": 'HExt "prelude.string" []',
    "ht.Qubit": "HQubit",
}
EXT_NAMES = {"ARRAY_EXTENSION": ("hugr.std.collections.array", "collections.array"),
             "BORROW_ARRAY_EXTENSION": ("hugr.std.collections.borrow_array", "collections.borrow_arr")}


def to_hugr_fn(name: str, fn) -> str:
    """fn: ast.Lambda | ast.FunctionDef taking (args, ctx).  Emits gen_to_hugr_<name>."""
    head = f"Definition gen_to_hugr_{name} (args : list carg) : option hty :="
    if isinstance(fn, ast.Lambda):
        if [a.arg for a in fn.args.args] != ["args", "ctx"]:
            fail(f"to_hugr lambda of {name}: parameters")
        s = u(fn.body)
        if s not in CONST_HTY:
            fail(f"to_hugr lambda of {name}: body `{s}` not understood")
        return f"{head} Some ({CONST_HTY[s]})."
    if [a.arg for a in fn.args.args] != ["args", "ctx"]:
        fail(f"{fn.name}: parameters")
    stmts = strip_doc(fn.body)
    if not stmts or not isinstance(stmts[0], ast.Assign) or u(stmts[0].value) != "args" \
            or not isinstance(stmts[0].targets[0], ast.List) \
            or not all(isinstance(e, ast.Name) for e in stmts[0].targets[0].elts):
        fail(f"{fn.name}: expected `[a, ...] = args` first")
    names = [e.id for e in stmts[0].targets[0].elts]
    kinds: dict[str, str] = {}
    lets = []
    env: dict[str, str] = {}   # local python name -> 'hty' | 'harg'
    ret = None

    def ex(e) -> tuple[str, str]:
        s = u(e)
        if isinstance(e, ast.Name) and e.id in env:
            return e.id, env[e.id]
        if isinstance(e, ast.Call) and isinstance(e.func, ast.Attribute) and e.func.attr == "to_hugr" and u(e.args[0]) == "ctx" and len(e.args) == 1:
            tgt = e.func.value
            if isinstance(tgt, ast.Attribute) and tgt.attr == "ty" and isinstance(tgt.value, ast.Name) and kinds.get(tgt.value.id) == "T":
                return f"{tgt.value.id}_h", "hty"
            if isinstance(tgt, ast.Name) and kinds.get(tgt.id) == "C":
                return f"{tgt.id}_h", "harg"
            fail(f"{fn.name}: `{s}` on an argument whose kind was not asserted")
        if isinstance(e, ast.Call) and s.startswith("ht.Option(") and len(e.args) == 1:
            t, ty = ex(e.args[0])
            if ty != "hty":
                fail(f"{fn.name}: Option of non-type")
            return f"(h_option {t})", "hty"
        if isinstance(e, ast.Call) and u(e.func) in CTOR:
            q, tmpl = CTOR[u(e.func)]
            a = [ex(x) for x in e.args]
            if [t for _, t in a] != {"T": ["hty"], "TN": ["hty", "harg"]}[tmpl] or e.keywords:
                fail(f"{fn.name}: arguments of {u(e.func)}")
            # hugr-py argument order: BorrowArray(ty, size) -> [size, Type(ty)]
            hargs = [f"HTy {a[0][0]}"] if tmpl == "T" else [a[1][0], f"HTy {a[0][0]}"]
            return f'(HExt "{q}" [{"; ".join(hargs)}])', "hty"
        if isinstance(e, ast.IfExp):
            c = e.test
            if isinstance(c, ast.Attribute) and c.attr == "linear" and isinstance(c.value, ast.Attribute) and c.value.attr == "ty" \
                    and isinstance(c.value.value, ast.Name) and kinds.get(c.value.value.id) == "T":
                a, ta = ex(e.body)
                b, tb = ex(e.orelse)
                if ta != tb:
                    fail(f"{fn.name}: conditional branches differ")
                return f"(if {c.value.value.id}_lin then {a} else {b})", ta
        fail(f"{fn.name}: expression `{s}` not understood")

    for st in stmts[1:]:
        if isinstance(st, ast.Assert) and isinstance(st.test, ast.Call) and u(st.test.func) == "isinstance" \
                and isinstance(st.test.args[0], ast.Name) and st.test.args[0].id in names:
            k = {"TypeArg": "T", "ConstArg": "C"}.get(u(st.test.args[1]))
            if k is None:
                fail(f"{fn.name}: assert `{u(st.test)}`")
            kinds[st.test.args[0].id] = k
        elif isinstance(st, ast.Assign) and len(st.targets) == 1 and isinstance(st.targets[0], ast.Name):
            t, ty = ex(st.value)
            env[st.targets[0].id] = ty
            lets.append(f"let {st.targets[0].id} := {t} in ")
        elif isinstance(st, ast.Return) and st is stmts[-1]:
            t, ty = ex(st.value)
            if ty != "hty":
                fail(f"{fn.name}: returns {ty}")
            ret = t
        else:
            fail(f"{fn.name}: statement `{u(st)[:60]}`")
    if ret is None:
        fail(f"{fn.name}: no return")
    pats = []
    for n in names:
        if n not in kinds:
            fail(f"{fn.name}: kind of `{n}` never asserted")
        pats.append(f"CTy {n}_h {n}_lin" if kinds[n] == "T" else f"CConst {n}_h")
    return f"{head}\n  match args with [{'; '.join(pats)}] => Some ({''.join(lets)}{ret}) | _ => None end."


def parse_params(node, where) -> str:
    if not isinstance(node, ast.List):
        fail(f"{where}: params is not a list literal")
    out = []
    for i, p in enumerate(node.elts):
        if not isinstance(p, ast.Call):
            fail(f"{where}: param {u(p)}")
        f = u(p.func)
        if f == "TypeParam":
            kw = {k.arg: k.value for k in p.keywords}
            if len(p.args) != 2 or u(p.args[0]) != str(i) or set(kw) != {"must_be_copyable", "must_be_droppable"}:
                fail(f"{where}: TypeParam shape `{u(p)}`")
            mc, md = (ast.literal_eval(kw["must_be_copyable"]), ast.literal_eval(kw["must_be_droppable"]))
            if not isinstance(mc, bool) or not isinstance(md, bool):
                fail(f"{where}: TypeParam flags")
            out.append(f"PType {str(mc).lower()} {str(md).lower()}")
        elif f == "ConstParam":
            if len(p.args) != 3 or u(p.args[0]) != str(i) or u(p.args[2]) != "NumericType(NumericType.Kind.Nat)" or p.keywords:
                fail(f"{where}: ConstParam shape `{u(p)}`")
            out.append("PConst")
        else:
            fail(f"{where}: parameter `{u(p)}`")
    return "[" + "; ".join(out) + "]"


def coq_bool(node, where) -> str:
    v = ast.literal_eval(node)
    if not isinstance(v, bool):
        fail(f"{where}: expected a bool literal, got {u(node)}")
    return "true" if v else "false"


def coq_bound_opt(node, where) -> str:
    s = "None" if node is None else u(node)
    tab = {"None": "None", "ht.TypeBound.Copyable": "(Some Copyable)", "ht.TypeBound.Linear": "(Some Linear)",
           "tys.TypeBound.Copyable": "(Some Copyable)", "tys.TypeBound.Linear": "(Some Linear)"}
    if s not in tab:
        fail(f"{where}: bound `{s}`")
    return tab[s]


NON_OPAQUE_DEFS = {"CallableTypeDef", "SelfTypeDef", "_TupleTypeDef", "_NoneTypeDef", "_NumericTypeDef"}


def builtin_defs(mod: ast.Module):
    funcs = {n.name: n for n in mod.body if isinstance(n, ast.FunctionDef)}
    classes = {n.name: n for n in mod.body if isinstance(n, ast.ClassDef)}
    opaque_ctors = {"OpaqueTypeDef"}
    for cn, c in classes.items():
        if any(u(b) == "OpaqueTypeDef" for b in c.bases):
            overridden = [m.name for m in c.body if isinstance(m, ast.FunctionDef)]
            if cn == "WasmModuleTypeDef":
                continue  # instantiated per wasm module by the decorator, not a builtin; out of scope
            if set(overridden) - {"check_instantiate"}:
                fail(f"{cn} overrides {overridden}")
            opaque_ctors.add(cn)
    defs, fns = [], []
    for n in mod.body:
        if not (isinstance(n, ast.Assign) and isinstance(n.value, ast.Call)):
            continue
        f = u(n.value.func)
        if not f.endswith("TypeDef"):
            continue
        if f in NON_OPAQUE_DEFS:
            continue
        if f not in opaque_ctors:
            fail(f"builtin.py: unknown type-definition constructor {f}")
        call = n.value
        if call.args:
            fail(f"builtin.py: {u(n.targets[0])} uses positional arguments")
        kw = {k.arg: k.value for k in call.keywords}
        need = {"id", "name", "defined_at", "params", "never_copyable", "never_droppable", "to_hugr"}
        if not need <= set(kw) or set(kw) - need - {"bound"}:
            fail(f"builtin.py: {u(n.targets[0])} keywords {sorted(kw)}")
        name = ast.literal_eval(kw["name"])
        where = f"builtin.py:{name}"
        th = kw["to_hugr"]
        if isinstance(th, ast.Name):
            if th.id not in funcs:
                fail(f"{where}: to_hugr function {th.id} not found")
            th = funcs[th.id]
        elif not isinstance(th, ast.Lambda):
            fail(f"{where}: to_hugr is neither a lambda nor a module function")
        fns.append(to_hugr_fn(name, th))
        defs.append(f'mkOdef "{name}" {parse_params(kw["params"], where)} {coq_bool(kw["never_copyable"], where)} '
                    f'{coq_bool(kw["never_droppable"], where)} {coq_bound_opt(kw.get("bound"), where)} gen_to_hugr_{name}')
    return defs, fns


def custom_type_def(dec_mod: ast.Module, cls_mod: ast.Module, cls_name: str):
    """The OpaqueTypeDef that @custom_type(...) on class `cls_name` creates."""
    ct = find_func(dec_mod, "custom_type")
    pos = [a.arg for a in ct.args.args]
    if pos != ["hugr_ty", "name", "copyable", "droppable", "bound", "params"]:
        fail(f"custom_type signature changed: {pos}")
    defaults = dict(zip(pos[-len(ct.args.defaults):], ct.args.defaults))
    calls = [n for n in ast.walk(ct) if isinstance(n, ast.Call) and u(n.func) == "OpaqueTypeDef"]
    if len(calls) != 1 or [u(a) for a in calls[0].args] != ["DefId.fresh()", "name or c.__name__", "None", "params or []",
                                                            "not copyable", "not droppable", "mk_hugr_ty", "bound"] or calls[0].keywords:
        fail("custom_type no longer builds OpaqueTypeDef(DefId.fresh(), name or c.__name__, None, params or [], not copyable, not droppable, mk_hugr_ty, bound)")
    mk = [n for n in ast.walk(ct) if isinstance(n, ast.Assign) and u(n.targets[0]) == "mk_hugr_ty"]
    if len(mk) != 1 or u(mk[0].value) != "(lambda args, ctx: hugr_ty) if isinstance(hugr_ty, ht.Type) else hugr_ty":
        fail("custom_type: mk_hugr_ty shape changed")
    c = find_class(cls_mod, cls_name)
    decs = [d for d in c.decorator_list if isinstance(d, ast.Call) and u(d.func) == "custom_type"]
    if len(decs) != 1:
        fail(f"class {cls_name} is not decorated with custom_type(...)")
    d = decs[0]
    vals = dict(defaults)
    for k, a in zip(pos, d.args):
        vals[k] = a
    for k in d.keywords:
        vals[k.arg] = k.value
    where = f"custom_type on {cls_name}"
    if u(vals["name"]) != "''" or u(vals["params"]) != "None":
        fail(f"{where}: name/params given")
    hty = u(vals["hugr_ty"])
    if hty not in CONST_HTY:
        fail(f"{where}: hugr type `{hty}`")
    nc = "false" if ast.literal_eval(vals["copyable"]) is True else "true"
    nd = "false" if ast.literal_eval(vals["droppable"]) is True else "true"
    fn = f"Definition gen_to_hugr_{cls_name} (args : list carg) : option hty := Some ({CONST_HTY[hty]})."
    return f'mkOdef "{cls_name}" [] {nc} {nd} {coq_bound_opt(None if u(vals["bound"]) == "None" else vals["bound"], where)} gen_to_hugr_{cls_name}', fn


# ------------------------------------------------------------------------------------------
# compiler/core.py


def norm(stmts) -> str:
    return "\n".join(u(s) for s in strip_doc(stmts))


def core_defs(mod: ast.Module) -> list[str]:
    out = []
    # imports of the extensions named in AFFINE_EXTENSION_TYS
    imported = {}
    for n in mod.body:
        if isinstance(n, ast.ImportFrom):
            for a in n.names:
                if a.asname in EXT_NAMES:
                    imported[a.asname] = (n.module, a.name)
    aff = None
    for n in mod.body:
        if isinstance(n, ast.AnnAssign) and u(n.target) == "AFFINE_EXTENSION_TYS":
            aff = n.value
        if isinstance(n, ast.Assign) and u(n.targets[0]) == "AFFINE_EXTENSION_TYS":
            aff = n.value
    if not isinstance(aff, ast.List):
        fail("AFFINE_EXTENSION_TYS is not a list literal")
    names = []
    for e in aff.elts:
        ok = isinstance(e, ast.Call) and u(e.func) == "qualified_name" and len(e.args) == 1 and isinstance(e.args[0], ast.Call) \
            and isinstance(e.args[0].func, ast.Attribute) and e.args[0].func.attr == "get_type" \
            and isinstance(e.args[0].func.value, ast.Name) and len(e.args[0].args) == 1 and isinstance(e.args[0].args[0], ast.Constant)
        if not ok:
            fail(f"AFFINE_EXTENSION_TYS entry `{u(e)}`")
        ext = e.args[0].func.value.id
        if ext not in EXT_NAMES or imported.get(ext) != (EXT_NAMES[ext][0], "EXTENSION"):
            fail(f"AFFINE_EXTENSION_TYS: extension `{ext}` unknown or imported from elsewhere")
        names.append(f'"{EXT_NAMES[ext][1]}.{e.args[0].args[0].value}"')
    out.append(f"Definition gen_AFFINE_EXTENSION_TYS : list string := [{'; '.join(names)}].")
    qn = find_func(mod, "qualified_name")
    if norm(qn.body) != "if type_def._extension is not None:\n    return f'{type_def._extension.name}.{type_def.name}'\nreturn type_def.name":
        fail("qualified_name body changed")
    # requires_drop
    rd = find_func(mod, "requires_drop")
    body = strip_doc(rd.body)
    if len(body) != 1 or not isinstance(body[0], ast.Match) or u(body[0].subject) != "ty":
        fail("requires_drop is not a single `match ty`")
    ANY = "any((requires_drop(arg.ty) for arg in args if isinstance(arg, ht.TypeTypeArg)))"
    ANY_COQ = "existsb (fun arg => hav_requires_drop arg) (filter (fun arg => hav_is_type arg) args)"
    seen = []
    for case in body[0].cases:
        pat, st = u(case.pattern), case.body
        if case.guard is not None:
            fail("requires_drop: guarded case")
        if pat == "ht.ExtType(type_def=type_def, args=args)":
            if norm(st) != f"return qualified_name(type_def) in AFFINE_EXTENSION_TYS or {ANY}":
                fail(f"requires_drop ExtType arm: `{norm(st)}`")
            out.append("Definition gen_requires_drop_ExtType (qualified : string) (args : list hargview) : bool :=\n"
                       f"  (str_in qualified gen_AFFINE_EXTENSION_TYS || {ANY_COQ}).")
        elif pat == "ht.Opaque(id=name, extension=extension, args=args)":
            if norm(st) != "qualified = f'{extension}.{name}' if extension else name\n" + f"return qualified in AFFINE_EXTENSION_TYS or {ANY}":
                fail(f"requires_drop Opaque arm: `{norm(st)}`")
            out.append("Definition gen_requires_drop_Opaque (qualified : string) (args : list hargview) : bool :=\n"
                       f"  (str_in qualified gen_AFFINE_EXTENSION_TYS || {ANY_COQ}).")
        elif pat == "ht.Sum(variant_rows=rows)":
            if norm(st) != "return any((requires_drop(ty) for row in rows for ty in row))":
                fail(f"requires_drop Sum arm: `{norm(st)}`")
            out.append("Definition gen_requires_drop_Sum (rows : list (list bool)) : bool :=\n  existsb (fun ty => ty) (List.concat rows).")
        elif pat == "ht.Variable(bound=bound)":
            tr = ExprTr(env={"bound": ("b", "bound"), "ht.TypeBound.Linear": ("Linear", "bound"), "ht.TypeBound.Copyable": ("Copyable", "bound")},
                        ops={"bound": BOUND_OPS, "bool": BOOL_OPS})
            t = tr.body(st, lambda term, ty: term if ty == "bool" else fail("Variable arm type"), lambda n: fail("Variable arm raises"))
            out.append(f"Definition gen_requires_drop_Variable (b : bound) : bool := {t}.")
        elif pat == "ht.FunctionType()":
            out.append(f"Definition gen_requires_drop_FunctionType : bool := {coq_bool(st[0].value, 'FunctionType arm') if len(st) == 1 and isinstance(st[0], ast.Return) else fail('FunctionType arm')}.")
        elif pat == "ht.Alias()":
            if not (len(st) == 1 and isinstance(st[0], ast.Raise)):
                fail("requires_drop Alias arm no longer raises")
        elif pat == "_":
            out.append(f"Definition gen_requires_drop_default : bool := {coq_bool(st[0].value, 'default arm') if len(st) == 1 and isinstance(st[0], ast.Return) else fail('default arm')}.")
        else:
            fail(f"requires_drop: unknown case `{pat}`")
        seen.append(pat)
    expected = ["ht.ExtType(type_def=type_def, args=args)", "ht.Opaque(id=name, extension=extension, args=args)", "ht.Sum(variant_rows=rows)",
                "ht.Variable(bound=bound)", "ht.FunctionType()", "ht.Alias()", "_"]
    if seen != expected:
        fail(f"requires_drop cases changed: {seen}")
    # insert_drops
    f = find_func(mod, "insert_drops")
    b = strip_doc(f.body)
    ok = len(b) == 1 and isinstance(b[0], ast.For) and u(b[0].target) == "node" and u(b[0].iter) == "hugr" and not b[0].orelse
    if not ok:
        fail("insert_drops: outer loop shape")
    lb = b[0].body
    if len(lb) != 3 or u(lb[0]) != "data = hugr[node]" or u(lb[1]) != "if isinstance(data.op, ops.FuncDefn):\n    continue" \
            or not isinstance(lb[2], ast.For) or u(lb[2].target) != "i" or u(lb[2].iter) != "range(hugr.num_out_ports(node))":
        fail("insert_drops: node loop body shape")
    out.append("Definition gen_insert_drops_skip_node (is_FuncDefn : bool) : bool := is_FuncDefn.")
    pb = lb[2].body
    if len(pb) != 3 or u(pb[0]) != "port = node.out(i)" or u(pb[1]) != "kind = hugr.port_kind(port)" or not isinstance(pb[2], ast.If) or pb[2].orelse:
        fail("insert_drops: port loop body shape")
    if norm(pb[2].body) != "drop = hugr.add_node(drop_op(kind.ty), parent=data.parent)\nhugr.add_link(port, drop.inp(0))":
        fail("insert_drops: action shape")
    cond = pb[2].test
    atoms = {"next(iter(hugr.linked_ports(port)), None) is None": "unlinked",
             "isinstance(kind, ht.ValueKind)": "is_value_kind", "requires_drop(kind.ty)": "requires_drop_ty"}
    if not isinstance(cond, ast.BoolOp) or not isinstance(cond.op, ast.And) or sorted(u(v) for v in cond.values) != sorted(atoms):
        fail(f"insert_drops: condition `{u(cond)}`")
    out.append("Definition gen_insert_drops_cond (unlinked is_value_kind requires_drop_ty : bool) : bool :=\n  ("
               + " && ".join(atoms[u(v)] for v in cond.values) + ").")
    dop = find_func(mod, "drop_op")
    if norm(dop.body) != "return GUPPY_EXTENSION.get_op('drop').instantiate([ht.TypeTypeArg(ty)], ht.FunctionType([ty], []))":
        fail("drop_op body changed")
    # call site: after the worklist loop of CompilerContext.compile
    cc = find_class(mod, "CompilerContext")
    site = None
    for m in cc.body:
        if isinstance(m, ast.FunctionDef):
            for i, s in enumerate(m.body):
                if isinstance(s, ast.While) and u(s.test) == "self.worklist":
                    site = [u(x) for x in m.body[i + 1:]]
    if site is None or "insert_drops(self.module.hugr)" not in site:
        fail("insert_drops(self.module.hugr) is no longer called after the worklist loop of CompilerContext.compile")
    # bound type variables (outside monomorphization)
    tv = find_func(cc, "type_var_to_hugr")
    first = strip_doc(tv.body)[0]
    if u(first) != "if self.current_mono_args is None:\n    return ht.Variable(var.idx, var.hugr_bound)":
        fail("CompilerContext.type_var_to_hugr: non-monomorphized branch changed")
    return out


# ------------------------------------------------------------------------------------------


def shape(cls, fn_name, expected, what):
    f = find_func(cls, fn_name)
    if norm(f.body) != expected:
        raise TranslatorError(f"{what}: body changed to `{norm(f.body)}`")


def translate(ctx) -> str:
    ty_mod = parse_file(ctx.int_src("tys/ty.py"))
    T = TyTr(ty_mod)
    # the Type union
    aliases = {u(n.target): u(n.value) for n in ty_mod.body if isinstance(n, ast.AnnAssign) and n.value is not None}
    if aliases.get("ParametrizedType") != "FunctionType | TupleType | OpaqueType | StructType" or \
            aliases.get("Type") != "BoundTypeVar | ExistentialTypeVar | NumericType | NoneType | ParametrizedType":
        fail(f"the Type union changed: {aliases.get('Type')} / {aliases.get('ParametrizedType')}")
    # external bases must not define classification attributes
    var_mod = parse_file(ctx.int_src("tys/var.py"))
    for n in ast.walk(var_mod):
        if isinstance(n, (ast.FunctionDef, ast.AnnAssign, ast.Assign)):
            nm = n.name if isinstance(n, ast.FunctionDef) else u(n.target if isinstance(n, ast.AnnAssign) else n.targets[0])
            if nm in ATTR_TY:
                fail(f"tys/var.py defines {nm}")
    # instance construction facts the resolution relies on
    fi = find_func(T.cls["FunctionType"], "__init__")
    sets = sorted(ast.literal_eval(c.args[1]) for c in ast.walk(fi) if isinstance(c, ast.Call) and u(c.func) == "object.__setattr__")
    if sets != ["args", "comptime_args", "inputs", "output", "params", "unitary_flags"]:
        fail(f"FunctionType.__init__ sets {sets}")
    ti = find_func(T.cls["TupleType"], "__init__")
    if "args = [TypeArg(ty) for ty in element_types]" not in [u(s) for s in ti.body]:
        fail("TupleType.__init__ no longer sets args = [TypeArg(ty) for ty in element_types]")
    for c in ("FunctionType", "TupleType"):
        decs = [u(d) for d in T.cls[c].decorator_list]
        if "dataclass(frozen=True, init=False)" not in decs:
            fail(f"{c} dataclass decorator: {decs}")
    # NoneType() is only ever built with its defaults (copyable / droppable are init fields)
    import pathlib
    root = ctx.int_src("tys/ty.py").parent.parent
    for p in sorted(root.rglob("*.py")):
        try:
            m = ast.parse(p.read_text())
        except SyntaxError:
            continue
        for n in ast.walk(m):
            if isinstance(n, ast.Call) and u(n.func) == "NoneType" and (n.args or any(k.arg != "preserve" for k in n.keywords)):
                fail(f"{p.name}: NoneType constructed with classification arguments: {u(n)}")
    sf = find_func(T.cls["StructType"], "fields")
    if norm(sf.body) != ("from guppylang_internals.definition.struct import StructField\nfrom guppylang_internals.tys.subst import Instantiator\n"
                         "inst = Instantiator(self.args)\nreturn [StructField(f.name, f.ty.transform(inst)) for f in self.defn.fields]"):
        fail("StructType.fields body changed")
    for c in ("NoneType", "NumericType", "FunctionType", "BoundTypeVar", "TupleType", "OpaqueType", "StructType"):
        for a in ATTRS:
            T.ref(c, a)
    # ExistentialTypeVar is not modelled: its hugr_bound / to_hugr must still raise
    for a in ("hugr_bound", "to_hugr"):
        f = find_func(T.cls["ExistentialTypeVar"], a)
        if not all(isinstance(s, ast.Raise) for s in strip_doc(f.body)):
            fail(f"ExistentialTypeVar.{a} no longer raises")
    out = [HEADER.format(src="tys/ty.py, tys/builtin.py, tys/param.py, decorator.py, std/quantum/__init__.py, compiler/core.py",
                         tool="props/C14/tr_tytable.py"),
           "From Coq Require Import List Bool String NArith.\nFrom V.C14 Require Import Base.\nImport ListNotations.\n"
           "Open Scope string_scope.\nOpen Scope list_scope.\n",
           "(* ---- tys/ty.py: classification properties as resolved for each concrete type class ---- *)"]
    out += [T.out[k] for k in T.out]
    # to_hugr shapes
    shape(T.cls["NoneType"], "to_hugr", "return ht.Tuple()", "NoneType.to_hugr")
    shape(T.cls["TupleType"], "to_hugr", "return ht.Tuple(*row_to_hugr(self.element_types, ctx))", "TupleType.to_hugr")
    shape(T.cls["StructType"], "to_hugr", "return ht.Tuple(*(f.ty.to_hugr(ctx) for f in self.fields))", "StructType.to_hugr")
    shape(T.cls["OpaqueType"], "to_hugr", "return self.defn.to_hugr(self.args, ctx)", "OpaqueType.to_hugr")
    shape(T.cls["BoundTypeVar"], "to_hugr", "return ctx.type_var_to_hugr(self)", "BoundTypeVar.to_hugr")
    shape(ty_mod, "row_to_hugr", "return [ty.to_hugr(ctx) for ty in row]", "row_to_hugr")
    f = find_func(T.cls["FunctionType"], "_to_hugr_function_type")
    if u(strip_doc(f.body)[-1]) != "return ht.FunctionType(input=ins, output=outs)":
        fail("FunctionType._to_hugr_function_type no longer returns ht.FunctionType(input=ins, output=outs)")
    out.append("Definition gen_NoneType_to_hugr : hty := h_tuple [].")
    nt = find_func(T.cls["NumericType"], "to_hugr")
    if norm(nt.body) != ("match self.kind:\n    case NumericType.Kind.Nat | NumericType.Kind.Int:\n        return hugr.std.int.int_t(NumericType.INT_WIDTH)\n"
                         "    case NumericType.Kind.Float:\n        return hugr.std.float.FLOAT_T"):
        fail("NumericType.to_hugr body changed")
    w = [n for n in T.cls["NumericType"].body if isinstance(n, ast.AnnAssign) and u(n.target) == "INT_WIDTH"]
    if len(w) != 1 or not isinstance(w[0].value, ast.Constant) or not isinstance(w[0].value.value, int):
        fail("NumericType.INT_WIDTH")
    for k in ("Nat", "Int"):
        out.append(f'Definition gen_NumericType_to_hugr_{k} : hty := HExt "arithmetic.int.types.int" [HNat {w[0].value.value}].')
    out.append('Definition gen_NumericType_to_hugr_Float : hty := HExt "arithmetic.float.types.float64" [].')
    cm = parse_file(ctx.int_src("tys/common.py"))
    shape(find_class(cm, "QuantifiedToHugrContext"), "type_var_to_hugr", "return ht.Variable(var.idx, var.hugr_bound)", "QuantifiedToHugrContext.type_var_to_hugr")
    # TypeParam.to_hugr
    pm = parse_file(ctx.int_src("tys/param.py"))
    shape(find_class(pm, "TypeParam"), "to_hugr",
          "return ht.TypeTypeParam(bound=ht.TypeBound.Copyable if self.must_be_copyable else ht.TypeBound.Linear)", "TypeParam.to_hugr")
    out.append("Definition gen_TypeParam_hugr_bound (must_be_copyable must_be_droppable : bool) : bound :=\n  (if must_be_copyable then Copyable else Linear).")
    # opaque definitions
    out.append("\n(* ---- tys/builtin.py + custom_type(qubit): opaque type definitions ---- *)")
    defs, fns = builtin_defs(parse_file(ctx.int_src("tys/builtin.py")))
    qd, qf = custom_type_def(parse_file(ctx.int_src("decorator.py")), parse_file(ctx.pub_src("std/quantum/__init__.py")), "qubit")
    out += fns + [qf]
    out.append("Definition gen_opaque_defs : list odef := [\n  " + ";\n  ".join(defs + [qd]) + " ].")
    out.append("\n(* ---- compiler/core.py ---- *)")
    out += core_defs(parse_file(ctx.int_src("compiler/core.py")))
    return "\n".join(out) + "\n"
