"""Implementation side for C14 (types): build real /repo type objects and measure them.

stdin JSON: {"structs": {sid: {"name": str, "params": [["T", cop, drop] | ["C"]], "fields": [ty]}}, "types": [ty]}
  ty  := ["none"] | ["num", "nat"|"int"|"float"] | ["var", idx, cop, drop] | ["fun", [ty], ty]
       | ["tuple", [ty]] | ["op", name, [arg]] | ["struct", sid, [arg]]
  arg := ["T", ty] | ["C", n] | ["CV", idx]
stdout JSON: {"tables": {...live facts about the dependency and the compiler tables...},
              "results": [ {enc, str, cop, drop, hb, wf, hugr: null | {tb, rd, ser, str}, err} ]}
`enc` is the type re-encoded from the REAL object in the model's shape: struct types carry
the instantiated field types read from StructType.fields."""
import json
import sys

import os
import repo_shim  # noqa: F401
sys.path.insert(0, os.path.dirname(os.path.abspath(__file__)))
from hugr import tys as ht
import hugr.ext as he

from guppylang_internals.definition.common import DefId
from guppylang_internals.definition.struct import CheckedStructDef, StructField
from guppylang_internals.error import GuppyError
from guppylang_internals.tys import builtin as B
from guppylang_internals.tys.arg import ConstArg, TypeArg
from guppylang_internals.tys.common import QuantifiedToHugrContext
from guppylang_internals.tys.const import BoundConstVar, ConstValue
from guppylang_internals.tys.param import ConstParam, TypeParam, check_all_args
from guppylang_internals.tys.ty import (BoundTypeVar, FuncInput, FunctionType, InputFlags, NoneType, NumericType,
                                          OpaqueType, StructType, TupleType)
from guppylang_internals.compiler import core as C
from guppylang.std.quantum import qubit as _qubit

OPAQUE = {"bool": B.bool_type_def, "str": B.string_type_def, "list": B.list_type_def, "array": B.array_type_def,
          "frozenarray": B.frozenarray_type_def, "SizedIter": B.sized_iter_type_def, "Option": B.option_type_def,
          "qubit": _qubit.wrapped}
KIND = {"nat": NumericType.Kind.Nat, "int": NumericType.Kind.Int, "float": NumericType.Kind.Float}
RKIND = {v: k for k, v in KIND.items()}
inp = json.load(sys.stdin)
STRUCTS = {}


def struct_def(sid):
    if sid not in STRUCTS:
        d = inp["structs"][sid]
        params = [TypeParam(i, f"P{i}", p[1], p[2]) if p[0] == "T" else ConstParam(i, f"n{i}", B.nat_type())
                  for i, p in enumerate(d["params"])]
        fields = [StructField(f"f{i}", build(f)) for i, f in enumerate(d["fields"])]
        STRUCTS[sid] = CheckedStructDef(DefId.fresh(), d["name"], None, params, fields)
        STRUCTS[sid].__dict__["_sid"] = sid if False else None
    return STRUCTS[sid]


def build_arg(a):
    if a[0] == "T":
        return TypeArg(build(a[1]))
    if a[0] == "C":
        return ConstArg(ConstValue(B.nat_type(), a[1]))
    return ConstArg(BoundConstVar(B.nat_type(), f"n{a[1]}", a[1]))


def build(t):
    k = t[0]
    if k == "none":
        return NoneType()
    if k == "num":
        return NumericType(KIND[t[1]])
    if k == "var":
        return BoundTypeVar(f"T{t[1]}", t[1], t[2], t[3])
    if k == "fun":
        return FunctionType([FuncInput(build(x), InputFlags.Owned if not build(x).copyable else InputFlags.NoFlags) for x in t[1]], build(t[2]))
    if k == "tuple":
        return TupleType([build(x) for x in t[1]])
    if k == "op":
        return OpaqueType([build_arg(a) for a in t[2]], OPAQUE[t[1]])
    if k == "struct":
        return StructType([build_arg(a) for a in t[2]], struct_def(t[1]))
    raise ValueError(t)


SID_OF = {}


def enc_arg(a):
    if isinstance(a, TypeArg):
        return ["T", enc(a.ty)]
    c = a.const
    if isinstance(c, ConstValue):
        return ["C", c.value]
    return ["CV", c.idx]


def enc(ty):
    if isinstance(ty, NoneType):
        return ["none"]
    if isinstance(ty, NumericType):
        return ["num", RKIND[ty.kind]]
    if isinstance(ty, BoundTypeVar):
        return ["var", ty.idx, ty.copyable, ty.droppable]
    if isinstance(ty, FunctionType):
        return ["fun", [enc(i.ty) for i in ty.inputs], enc(ty.output)]
    if isinstance(ty, TupleType):
        return ["tuple", [enc(x) for x in ty.element_types]]
    if isinstance(ty, OpaqueType):
        return ["op", ty.defn.name, [enc_arg(a) for a in ty.args]]
    if isinstance(ty, StructType):
        sid = [s for s, d in STRUCTS.items() if d is ty.defn][0]
        return ["struct", sid, [enc_arg(a) for a in ty.args], [enc(f.ty) for f in ty.fields]]
    raise ValueError(ty)


def wf(ty):
    """What check_instantiate enforces, applied hereditarily."""
    try:
        if isinstance(ty, TupleType):
            return all(wf(x) for x in ty.element_types)
        if isinstance(ty, (OpaqueType, StructType)):
            check_all_args(ty.defn.params, ty.args, ty.defn.name)
            ok = all(wf(a.ty) for a in ty.args if isinstance(a, TypeArg))
            if isinstance(ty, StructType):
                ok = ok and all(wf(f.ty) for f in ty.fields)
            return ok
        return True
    except Exception:  # noqa: BLE001  (GuppyError; span-less diagnostics raise InternalGuppyError)
        return False


from impl_types_ser import bcode, ser, QNAMES  # noqa: E402,F401

ctx = QuantifiedToHugrContext([ConstParam(i, f"n{i}", B.nat_type()) for i in range(16)])
results = []
for t in inp["types"]:
    r = {"err": None}
    try:
        ty = build(t)
        r.update(enc=enc(ty), str=str(ty), cop=bool(ty.copyable), drop=bool(ty.droppable), hb=bcode(ty.hugr_bound), wf=wf(ty), hugr=None)
        try:
            h = ty.to_hugr(ctx)
            r["hugr"] = {"tb": bcode(h.type_bound()), "rd": bool(C.requires_drop(h)), "ser": ser(h), "str": str(h)}
        except Exception as e:  # noqa: BLE001
            r["hugr_err"] = f"{type(e).__name__}: {e}"
    except Exception as e:  # noqa: BLE001
        r["err"] = f"{type(e).__name__}: {e}"
    results.append(r)

# live facts: the dependency's type definitions and the compiler's tables
import hugr.std
import hugr.std.collections.array
import hugr.std.collections.borrow_array
import hugr.std.collections.list
import hugr.std.collections.static_array
import hugr.std.float
import hugr.std.int
from guppylang_internals.std._internal.compiler.tket_bool import OpaqueBool


def td(t):
    b = t.type_def.bound
    return [C.qualified_name(t.type_def), ["E", bcode(b.bound)] if isinstance(b, he.ExplicitBound) else ["P", list(b.indices)]]


tables = {
    "typedefs": [td(x) for x in [OpaqueBool, hugr.std.PRELUDE.get_type("string").instantiate([]), hugr.std.int.int_t(6),
                                  hugr.std.float.FLOAT_T, hugr.std.collections.list.List(ht.Unit),
                                  hugr.std.collections.borrow_array.BorrowArray(ht.Unit, 1),
                                  hugr.std.collections.array.Array(ht.Unit, 1),
                                  hugr.std.collections.static_array.StaticArray(ht.Unit)]],
    "qubit_bound": bcode(ht.Qubit.type_bound()),
    "fun_bound": bcode(ht.FunctionType([ht.Qubit], []).type_bound()),
    "affine": list(C.AFFINE_EXTENSION_TYS),
    "opaque": {n: [bool(d.never_copyable), bool(d.never_droppable), None if d.bound is None else bcode(d.bound),
                   [["T", p.must_be_copyable, p.must_be_droppable] if isinstance(p, TypeParam) else ["C"] for p in d.params]]
               for n, d in OPAQUE.items()},
    "guppylang": __import__("guppylang").__file__,
}
json.dump({"tables": tables, "results": results}, sys.stdout)
