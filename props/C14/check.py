"""C14 — copy/drop classification is structural and matches HUGR bounds.

Tie T: coq/C14/GenTyTable.v is regenerated from /repo (tr_tytable.py, fail-closed); the
theorems of coq/C14/Props.v are re-checked against it.
Tie X (translator validation + model correspondence):
  * random nested types are built as real /repo objects (impl_types.py); `.copyable`,
    `.droppable`, `.hugr_bound`, `to_hugr(ctx)` (structure), `.type_bound()` and
    `requires_drop(...)` are compared with the model evaluated in Coq (`verdict`);
  * live tables (OpaqueTypeDef flags, AFFINE_EXTENSION_TYS, the dependency's HUGR type
    definition bounds) are compared with the generated / trusted tables;
  * real programs that leave affine values unused are compiled (impl_drops.py); the drop
    nodes of the HUGR are compared with the model's expected drops and the HUGR is checked
    for dangling affine ports.
Failing-input search (always run): every real type is also judged against the property
text re-implemented here in Python (spec_*), independently of model and code."""
import json

import vlib
from vlib import proof_coverage

LEVEL = "proof"
NUMS = ["nat", "int", "float"]
QUBIT = ["op", "qubit", []]
BOOL = ["op", "bool", []]


def generate(ctx):
    import tr_tytable
    ctx.gen("GenTyTable.v", tr_tytable.translate(ctx))


# --------------------------------------------------------------------------------------
# the property text, on the model-shaped encoding returned by the harness

def components(t):
    k = t[0]
    if k == "tuple":
        return list(t[1])
    if k == "op":
        return [a[1] for a in t[2] if a[0] == "T"]
    if k == "struct":
        return list(t[3]) + [a[1] for a in t[2] if a[0] == "T"]
    return []


def spec_cop(t):
    if t[0] == "var":
        head = t[2]
    elif t[0] == "op":
        head = t[1] not in ("qubit", "array")
    else:
        head = True
    return bool(head and all(spec_cop(c) for c in components(t)))


def spec_drop(t):
    if t[0] == "var":
        head = t[3]
    elif t[0] == "op":
        head = t[1] != "qubit"
    else:
        head = True
    return bool(head and all(spec_drop(c) for c in components(t)))


def occurs(s, t):
    return s == t or any(occurs(s, c) for c in components(t))


def phantom_free(t):
    """every type argument of every struct occurs in one of its instantiated fields"""
    if t[0] == "struct":
        for a in t[2]:
            if a[0] == "T" and not any(occurs(a[1], f) for f in t[3]):
                return False
    return all(phantom_free(c) for c in components(t))


# --------------------------------------------------------------------------------------
# generator (abstract types; struct types refer to a table of definitions)

def inst(t, args):
    k = t[0]
    if k == "var":
        return args[t[1]][1] if t[1] < len(args) and args[t[1]][0] == "T" else t
    if k == "tuple":
        return ["tuple", [inst(x, args) for x in t[1]]]
    if k == "fun":
        return ["fun", [inst(x, args) for x in t[1]], inst(t[2], args)]
    if k in ("op", "struct"):
        na = []
        for a in t[2]:
            if a[0] == "T":
                na.append(["T", inst(a[1], args)])
            elif a[0] == "CV":
                na.append(args[a[1]] if a[1] < len(args) else a)
            else:
                na.append(a)
        return [k, t[1], na]
    return t


class Gen:
    def __init__(self, r, n_structs):
        self.r = r
        self.structs = {}
        for i in range(n_structs):
            self.structs[str(i)] = self.gen_struct(i)

    def full(self, t):
        """abstract type -> model-shaped (struct types get their instantiated fields)"""
        k = t[0]
        if k == "tuple":
            return ["tuple", [self.full(x) for x in t[1]]]
        if k == "fun":
            return ["fun", [self.full(x) for x in t[1]], self.full(t[2])]
        if k == "op":
            return ["op", t[1], [["T", self.full(a[1])] if a[0] == "T" else a for a in t[2]]]
        if k == "struct":
            return ["struct", t[1], [["T", self.full(a[1])] if a[0] == "T" else a for a in t[2]],
                    [self.full(inst(f, t[2])) for f in self.structs[t[1]]["fields"]]]
        return t

    def cop(self, t):
        return spec_cop(self.full(t))

    def drp(self, t):
        return spec_drop(self.full(t))

    def gen_struct(self, i):
        r = self.r
        params = []
        for _ in range(r.choice([0, 0, 1, 1, 2])):
            params.append(["T", r.random() < 0.3, r.random() < 0.4])
        if r.random() < 0.25:
            params.append(["C"])
        tvars = [["var", j, p[1], p[2]] for j, p in enumerate(params) if p[0] == "T"]
        cvars = [j for j, p in enumerate(params) if p[0] == "C"]
        fields = []
        for v in tvars:   # every type parameter is used outside function types (no phantom)
            w = r.random()
            if w < 0.5:
                fields.append(v)
            elif w < 0.7:
                fields.append(["op", "Option", [["T", v]]])
            elif w < 0.85:
                fields.append(["tuple", [v, ["num", "int"]]])
            else:
                fields.append(["op", "array", [["T", v], ["CV", cvars[0]] if cvars else ["C", 2]]])
        friendly = r.random() < 0.5   # half of the structs only use types expressible in program templates
        for _ in range(r.randint(0 if fields else 1, 2)):
            fields.append(self._pty(1) if friendly else self.ty(2, tvars, cvars, structs_below=i))
        r.shuffle(fields)
        return {"name": f"St{i}", "params": params, "fields": fields}

    def const_arg(self, cvars):
        if cvars and self.r.random() < 0.4:
            return ["CV", self.r.choice(cvars)]
        return ["C", self.r.choice([0, 1, 2, 3, 5])]

    def ty(self, depth, tvars=(), cvars=(), structs_below=None, need_cop=False, need_drop=False):
        """random type; need_cop / need_drop force the result to be copyable / droppable"""
        r = self.r
        for _ in range(40):
            t = self._ty(depth, tvars, cvars, structs_below)
            if (not need_cop or self.cop(t)) and (not need_drop or self.drp(t)):
                return t
        return ["num", "int"]

    def _ty(self, depth, tvars, cvars, sb):
        r = self.r
        leafs = [["none"], ["num", r.choice(NUMS)], BOOL, ["op", "str", []], QUBIT, ["num", "int"], BOOL]
        if tvars:
            leafs += [r.choice(list(tvars))] * 2
        if depth <= 0 or r.random() < 0.22:
            return r.choice(leafs)
        k = r.choice(["tuple", "tuple", "array", "array", "Option", "Option", "struct", "struct", "fun", "list", "frozenarray", "SizedIter"])
        sub = lambda **kw: self.ty(depth - 1, tvars, cvars, sb, **kw)  # noqa: E731
        if k == "tuple":
            return ["tuple", [sub() for _ in range(r.choice([0, 1, 2, 2, 3]))]]
        if k == "fun":
            return ["fun", [sub() for _ in range(r.choice([0, 1, 2]))], sub()]
        if k in ("array", "SizedIter"):
            return ["op", k, [["T", sub()], self.const_arg(cvars)]]
        if k == "frozenarray":
            return ["op", k, [["T", sub(need_cop=True, need_drop=True)], self.const_arg(cvars)]]
        if k in ("Option", "list"):
            return ["op", k, [["T", sub()]]]
        ids = [s for s in self.structs if sb is None or int(s) < sb]
        if not ids:
            return ["tuple", [sub(), sub()]]
        sid = r.choice(ids)
        args = []
        for p in self.structs[sid]["params"]:
            args.append(["T", sub(need_cop=p[1], need_drop=p[2])] if p[0] == "T" else self.const_arg(cvars))
        return ["struct", sid, args]


def _prog_ty(self, depth):
    """droppable types expressible in the program templates (no qubits, variables, functions, lists)"""
    r = self.r
    for _ in range(60):
        t = self._pty(depth)
        if self.drp(t) and src_ty(t, self.structs) is not None and all(
                struct_src(s, self.structs[s], self.structs) is not None for s in structs_used(t, self.structs)):
            return t
    return ["op", "array", [["T", ["num", "int"]], ["C", 2]]]


def _pty(self, depth):
    r = self.r
    if depth <= 0 or r.random() < 0.15:
        return r.choice([["num", "int"], ["num", "float"], ["num", "nat"], BOOL, ["op", "array", [["T", BOOL], ["C", r.choice([1, 2, 3])]]]])
    k = r.choice(["tuple", "array", "array", "Option", "struct", "struct"])
    if k == "tuple":
        return ["tuple", [self._pty(depth - 1) for _ in range(r.choice([1, 2, 2, 3]))]]
    if k == "array":
        return ["op", "array", [["T", self._pty(depth - 1)], ["C", r.choice([0, 1, 2, 4])]]]
    if k == "Option":
        return ["op", "Option", [["T", self._pty(depth - 1)]]]
    sid = r.choice(list(self.structs))
    args = []
    for p in self.structs[sid]["params"]:
        if p[0] == "T":
            a = self._pty(depth - 1)
            if (p[1] and not self.cop(a)) or (p[2] and not self.drp(a)):
                a = ["num", "int"]
            args.append(["T", a])
        else:
            args.append(["C", r.choice([1, 2, 3])])
    return ["struct", sid, args]


Gen.prog_ty = _prog_ty
Gen._pty = _pty


def depth_of(t):
    cs = components(t) + (t[1] + [t[2]] if t[0] == "fun" else [])
    return 1 + max([depth_of(c) for c in cs], default=0)


# --------------------------------------------------------------------------------------
# Coq rendering of the model-shaped encoding

def coq_ty(t):
    k = t[0]
    if k == "none":
        return "TNone"
    if k == "num":
        return "(TNum K%s)" % t[1].capitalize()
    if k == "var":
        return "(TVar %d %s %s)" % (t[1], str(bool(t[2])).lower(), str(bool(t[3])).lower())
    if k == "fun":
        return "(TFun [%s] %s)" % ("; ".join(coq_ty(x) for x in t[1]), coq_ty(t[2]))
    if k == "tuple":
        return "(TTuple [%s])" % "; ".join(coq_ty(x) for x in t[1])
    args = "; ".join("ATy " + coq_ty(a[1]) if a[0] == "T" else ("AConst %d" % a[1] if a[0] == "C" else "AConstVar %d" % a[1]) for a in t[2])
    if k == "op":
        return '(TOpaque "%s" [%s])' % (t[1], args)
    return "(TStruct %d [%s] [%s])" % (int(t[1]), args, "; ".join(coq_ty(f) for f in t[3]))


def coq_file(encs, what):
    return "\n".join([
        "From Coq Require Import List String NArith ZArith.", "From V.C14 Require Import Base GenTyTable Model.",
        "Import ListNotations. Open Scope string_scope. Open Scope N_scope.",
        "Definition cases : list ty := [", ";\n".join(coq_ty(e) for e in encs) + "].",
        f"Eval vm_compute in (map {what} cases)."])


def model_eval(ctx, encs, what, tag):
    chunks = [encs[i:i + 300] for i in range(0, len(encs), 300)]
    outs = ctx.coq_eval_many({f"{tag}{i}": coq_file(c, what) for i, c in enumerate(chunks)})
    res = []
    for i in range(len(chunks)):
        res += vlib.parse_coq_values(outs[f"{tag}{i}"])[0]
    return res


# --------------------------------------------------------------------------------------
# programs

def src_ty(t, structs):
    """Guppy source annotation, or None when not expressible in the program templates"""
    k = t[0]
    if k == "none":
        return "None"
    if k == "num":
        return t[1]
    if k == "op" and t[1] == "bool":
        return "bool"
    if k == "op" and t[1] in ("array", "Option"):
        inner = src_ty(t[2][0][1], structs)
        if inner is None or (t[1] == "array" and t[2][1][0] != "C"):
            return None
        return f"array[{inner}, {t[2][1][1]}]" if t[1] == "array" else f"Option[{inner}]"
    if k == "tuple":
        parts = [src_ty(x, structs) for x in t[1]]
        if not parts or None in parts:
            return None
        return "tuple[" + ", ".join(parts) + "]"
    if k == "struct":
        parts = []
        for a in t[2]:
            s = src_ty(a[1], structs) if a[0] == "T" else (str(a[1]) if a[0] == "C" else None)
            if s is None:
                return None
            parts.append(s)
        return structs[t[1]]["name"] + ("[" + ", ".join(parts) + "]" if parts else "")
    return None


def struct_src(sid, d, structs):
    lines = []
    gen = []
    for j, p in enumerate(d["params"]):
        if p[0] == "T":
            lines.append(f"{d['name']}_P{j} = guppy.type_var('{d['name']}_P{j}', copyable={p[1]}, droppable={p[2]})")
        else:
            lines.append(f"{d['name']}_P{j} = guppy.nat_var('{d['name']}_P{j}')")
        gen.append(f"{d['name']}_P{j}")

    def fsrc(t):
        if t[0] == "var":
            return f"{d['name']}_P{t[1]}"
        k = t[0]
        if k == "op" and t[1] in ("array", "Option"):
            inner = fsrc(t[2][0][1])
            if inner is None:
                return None
            if t[1] == "Option":
                return f"Option[{inner}]"
            n = t[2][1]
            return f"array[{inner}, {n[1] if n[0] == 'C' else d['name'] + '_P' + str(n[1])}]"
        if k == "tuple":
            parts = [fsrc(x) for x in t[1]]
            return None if (not parts or None in parts) else "tuple[" + ", ".join(parts) + "]"
        if k == "struct":
            parts = []
            for a in t[2]:
                s = fsrc(a[1]) if a[0] == "T" else (str(a[1]) if a[0] == "C" else f"{d['name']}_P{a[1]}")
                if s is None:
                    return None
                parts.append(s)
            return structs[t[1]]["name"] + ("[" + ", ".join(parts) + "]" if parts else "")
        return src_ty(t, structs)

    fl = [fsrc(f) for f in d["fields"]]
    if None in fl:
        return None
    lines.append("@guppy.struct")
    lines.append(f"class {d['name']}" + (f"(Generic[{', '.join(gen)}])" if gen else "") + ":")
    lines += [f"    f{i}: {s}" for i, s in enumerate(fl)] or ["    pass"]
    return "\n".join(lines)


PRELUDE = ("from typing import Generic\nfrom guppylang import guppy\nfrom guppylang.std.builtins import array, owned, nat\n"
           "from guppylang.std.option import Option, some\nfrom guppylang.std.quantum import qubit\n\n")

FIXED_PROGRAM = PRELUDE + '''
FT = guppy.type_var('FT', copyable=False, droppable=False)

@guppy.struct
class Ph(Generic[FT]):
    x: int

@guppy.struct
class Pair:
    a: array[int, 2]
    b: int

@guppy
def unused_phantom(p: Ph[array[int, 2]] @ owned) -> None:
    pass

@guppy
def field_used(s: Pair @ owned) -> int:
    return s.b

@guppy
def local_unused(b: bool) -> int:
    xs = array(1, 2, 3)
    if b:
        ys = array(xs, array(4, 5, 6))
        return 2
    return 1

@guppy
def overwritten(b: bool) -> int:
    xs = array(1, 2)
    xs = array(3, 4, 5)
    o = some(array(7, 8, 9))
    return 0
'''


# --------------------------------------------------------------------------------------
# the "sibling" program family: for every kind of node with several outputs, unused affine
# outputs next to copyable siblings that are used 0, 1, 2, 3 times (fan-out), and several
# unused affine outputs on one node.  Judged against the property text only: every unused
# value whose type requires a drop has exactly one drop op; no such port is left dangling.

SIB_PRELUDE = PRELUDE + '''
@guppy.struct
class SPair:
    n: int
    xs: array[int, 3]

@guppy.struct
class STriple:
    n: int
    xs: array[int, 3]
    ys: array[bool, 2]

@guppy.struct
class SNest:
    n: int
    p: SPair

@guppy.declare
def mk1() -> tuple[int, array[int, 3]]: ...

@guppy.declare
def mk2() -> tuple[int, array[int, 3], array[bool, 2]]: ...

@guppy.declare
def mkopt() -> tuple[int, Option[array[int, 3]]]: ...

@guppy.declare
def borrow(xs: array[int, 3]) -> int: ...

'''


def sibling_programs():
    """-> (program dict, {func: (expected number of drop leaves, source)})"""
    funcs, exp = [], {}

    def use(v, u):
        return "0" if u == 0 else " + ".join([v] * u)

    def add(name, src, k):
        funcs.append(src)
        exp[name] = (k, src)

    for u in (0, 1, 2, 3):
        e = use("n", u)
        # function Input node
        add(f"sib_in1_u{u}", f"@guppy\ndef sib_in1_u{u}(n: int, xs: array[int, 3] @ owned) -> int:\n    return {e}\n", 1)
        add(f"sib_in2_u{u}", f"@guppy\ndef sib_in2_u{u}(n: int, xs: array[int, 3] @ owned, ys: array[bool, 2] @ owned) -> int:\n    return {e}\n", 2)
        add(f"sib_inopt_u{u}", f"@guppy\ndef sib_inopt_u{u}(xs: Option[array[int, 3]] @ owned, n: int, m: int) -> int:\n    return {e} + m\n", 1)
        # unpacking the results of a call (multi-output call / UnpackTuple)
        add(f"sib_call1_u{u}", f"@guppy\ndef sib_call1_u{u}() -> int:\n    n, xs = mk1()\n    return {e}\n", 1)
        add(f"sib_call2_u{u}", f"@guppy\ndef sib_call2_u{u}() -> int:\n    n, xs, ys = mk2()\n    return {e}\n", 2)
        add(f"sib_callopt_u{u}", f"@guppy\ndef sib_callopt_u{u}() -> int:\n    n, o = mkopt()\n    return {e}\n", 1)
        # unpacking a tuple parameter / a local tuple
        add(f"sib_tup_u{u}", f"@guppy\ndef sib_tup_u{u}(t: tuple[int, array[int, 3]] @ owned) -> int:\n    n, xs = t\n    return {e}\n", 1)
        add(f"sib_tup2_u{u}", f"@guppy\ndef sib_tup2_u{u}(t: tuple[array[bool, 2], int, array[int, 3]] @ owned) -> int:\n    ys, n, xs = t\n    return {e}\n", 2)
        add(f"sib_ltup_u{u}", f"@guppy\ndef sib_ltup_u{u}(k: int) -> int:\n    t = (k, array(1, 2, 3))\n    n, xs = t\n    return {e}\n", 1)
        add(f"sib_tupparam_u{u}", f"@guppy\ndef sib_tupparam_u{u}(n: int, t: tuple[array[int, 3], int] @ owned) -> int:\n    return {e}\n", 1)
        # struct fields
        ep = use("p.n", u)
        add(f"sib_st_u{u}", f"@guppy\ndef sib_st_u{u}(p: SPair @ owned) -> int:\n    return {ep}\n", 1)
        add(f"sib_st3_u{u}", f"@guppy\ndef sib_st3_u{u}(p: STriple @ owned) -> int:\n    return {ep}\n", 2)
        add(f"sib_nest_u{u}", f"@guppy\ndef sib_nest_u{u}(q: SNest @ owned) -> int:\n    return {use('q.p.n', u)} + {use('q.n', u)}\n", 1)
        add(f"sib_stloc_u{u}", f"@guppy\ndef sib_stloc_u{u}(k: int) -> int:\n    p = SPair(k, array(1, 2, 3))\n    return {ep}\n", 1)
        # borrowed argument returned by a call next to its result
        add(f"sib_borrow_u{u}", f"@guppy\ndef sib_borrow_u{u}() -> int:\n    xs = array(1, 2, 3)\n    n = borrow(xs)\n    return {e}\n", 1)
        # conditional: both branches define n and an affine value, only n is used afterwards
        add(f"sib_if_u{u}", f"@guppy\ndef sib_if_u{u}(b: bool) -> int:\n    if b:\n        n, xs = mk1()\n    else:\n        n = 7\n        xs = array(4, 5, 6)\n    return {e}\n", 2)
        add(f"sib_if2_u{u}", f"@guppy\ndef sib_if2_u{u}(b: bool, n: int, xs: array[int, 3] @ owned) -> int:\n    if b:\n        return {e}\n    return {e} + 1\n", 1)
        # loops: affine value defined before / inside a loop whose body only uses the copyable sibling
        add(f"sib_loop_u{u}", f"@guppy\ndef sib_loop_u{u}(k: int) -> int:\n    n, xs = mk1()\n    i = 0\n    while i < k:\n        i = i + {e} + 1\n    return i\n", 1)
        add(f"sib_loopin_u{u}", f"@guppy\ndef sib_loopin_u{u}(k: int) -> int:\n    i = 0\n    while i < k:\n        n, xs = mk1()\n        i = i + {e} + 1\n    return i\n", 1)
        add(f"sib_for_u{u}", f"@guppy\ndef sib_for_u{u}(n: int, xs: array[int, 3] @ owned) -> int:\n    s = 0\n    for j in range(3):\n        s = s + {e}\n    return s\n", 1)
    return {"name": "siblings", "src": SIB_PRELUDE + "\n".join(funcs), "funcs": list(exp)}, exp


def ser_needs_drop(s):
    """the property's reading on a serialised HUGR type: contains an array / borrow_array or a Linear variable"""
    t, _ = parse_ser(s, 0)

    def needs(x):
        if x[0] == "ext":
            return x[1] in (5, 6) or any(needs(a) for a in x[2] if isinstance(a, tuple))
        if x[0] == "sum":
            return any(needs(y) for row in x[1] for y in row)
        if x[0] == "var":
            return x[2] == 1
        return False
    return needs(t)


# --------------------------------------------------------------------------------------

def run(ctx):
    import time
    T = {"t": time.time()}
    timing = {}

    def lap(name):
        now = time.time()
        timing[name] = round(now - T["t"], 1)
        T["t"] = now

    translator_error = None
    try:
        generate(ctx)
        lap("translate")
        info = ctx.coq_props()
    except vlib.TranslatorError as e:
        # fail-closed translator: the tie is broken.  Still search the real implementation
        # for a concrete input violating the property text before reporting.
        translator_error = str(e)
        info = {"ok": False, "obligations": 1, "discharged": 0, "axioms": [], "theorems": [],
                "failed": f"translator failed closed: {e}", "log": f"Error: translator failed closed: {e}"}
    lap("coq_props")
    r = vlib.rng(ctx.seed, "C14")
    n_types = 1500 if ctx.quick else 8000
    n_prog_funcs = 90 if ctx.quick else 480
    G = Gen(r, 10 if ctx.quick else 24)
    # ---- corpus first
    corpus = json.loads((ctx.dir / "corpus" / "types.json").read_text())
    types = [c["type"] for c in corpus["types"]]
    n_corpus = len(types)
    for i in range(n_types):
        d = r.choice([1, 2, 2, 3, 3, 4])
        vs = [["var", j, c, dr] for j, (c, dr) in enumerate(r.sample([(True, True), (True, False), (False, True), (False, False)], 2))] if r.random() < 0.35 else []
        types.append(G.ty(d, vs, [1] if r.random() < 0.1 else []))
    prog_types = [G.prog_ty(r.choice([1, 2, 2, 3])) for _ in range(int(n_prog_funcs * 2.2))]
    prog_keys = {json.dumps(t) for t in prog_types}
    types += prog_types
    structs = dict(G.structs)
    for sid, d in corpus["structs"].items():
        structs[sid] = d
    G.structs = structs
    res = json.loads(ctx.impl("impl_types.py", {"structs": structs, "types": types}))
    tables, results = res["tables"], res["results"]
    lap("impl_types")
    if not tables["guppylang"].startswith(str(ctx.repo)):
        raise RuntimeError(f"harness imported guppylang from {tables['guppylang']}")
    built = [(t, x) for t, x in zip(types, results) if x["err"] is None]
    for t, x in zip(types, results):
        if x["err"] is not None:
            ctx.report(f"build:{json.dumps(t)}", "correspondence", "real type construction failed",
                       {"type": t, "error": x["err"]})
    encs = [x["enc"] for _, x in built]
    # ---- live tables vs generated / trusted tables
    table_notes = check_tables(ctx, tables) if translator_error is None else {"skipped": "translator failed closed; generated table is stale"}
    # ---- model evaluation
    model = None
    have_model = translator_error is None and (vlib.COQ / "C14" / "Model.vo").exists()
    if translator_error is None and not have_model:
        mk = ctx.coq_make(["C14/Model.vo"])
        have_model = mk.ok
    if have_model:
        try:
            model = model_eval(ctx, encs, "verdict", "v")
        except RuntimeError as e:
            ctx.notes.append(f"model evaluation failed: {str(e)[-600:]}")
    lap("model_eval")
    disagreements = 0
    compared = 0
    if model is not None and len(model) == len(encs):
        for (t, x), m in zip(built, model):
            real = [int(x["cop"]), int(x["drop"]), x["hb"], int(x["wf"])]
            mod = m[:4]
            why = None
            if real != mod:
                why = "copyable/droppable/hugr_bound/well-formedness"
            elif x["wf"]:
                if x["hugr"] is None:
                    why = f"real to_hugr raised: {x.get('hugr_err')}"
                elif m[6] != 1:
                    why = "model to_hugr fails"
                elif [x["hugr"]["tb"], int(x["hugr"]["rd"])] + x["hugr"]["ser"] != m[7:]:
                    why = "to_hugr structure / type_bound / requires_drop"
            compared += 1
            if why:
                disagreements += 1
                if disagreements <= 3:
                    ctx.report(f"model-vs-impl:{x['str']}", "correspondence", "Coq model (generated rules) vs real type object",
                               {"type": x["str"], "encoding": x["enc"], "differs_in": why,
                                "real": {"copyable": x["cop"], "droppable": x["drop"], "hugr_bound": x["hb"], "wf": x["wf"], "hugr": x["hugr"]},
                                "model_verdict": m,
                                "verdict_layout": "[copyable, droppable, hugr_bound(0=Copyable), wf, witnessed, nophantom, to_hugr ok, type_bound, requires_drop, ser...]"})
    # ---- the property text against the real objects (failing-input search; always)
    spec_viol = []
    for t, x in built:
        e = x["enc"]
        rep = ("PYTHONPATH=/verif/tools:/repo/guppylang/src:/repo/guppylang-internals/src /venv/bin/python /verif/props/C14/impl_types.py "
               "<<< '" + json.dumps({"structs": structs_used(t, structs), "types": [t]}) + "'")
        if x["cop"] != spec_cop(e) or x["drop"] != spec_drop(e):
            spec_viol.append((f"classification:{x['str']}", "copyable/droppable differ from the structural rule",
                              {"type": x["str"], "real_copyable": x["cop"], "rule_copyable": spec_cop(e), "real_droppable": x["drop"],
                               "rule_droppable": spec_drop(e), "replay": rep}))
        if not x["wf"]:
            continue
        if (x["hb"] == 0) != x["cop"]:
            spec_viol.append((f"hugr_bound:{x['str']}", "Type.hugr_bound is Copyable iff copyable fails",
                              {"type": x["str"], "hugr_bound": x["hb"], "copyable": x["cop"], "replay": rep}))
        if x["hugr"] is None:
            spec_viol.append((f"to_hugr:{x['str']}", "to_hugr raises on a well-formed type", {"type": x["str"], "error": x.get("hugr_err"), "replay": rep}))
            continue
        if (x["hugr"]["tb"] == 0) != x["cop"]:
            spec_viol.append((f"tb-vs-copyable:{x['str']}", "HUGR type is copyable iff Guppy type is copyable fails",
                              {"type": x["str"], "hugr_type": x["hugr"]["str"], "hugr_type_bound": "Copyable" if x["hugr"]["tb"] == 0 else "Linear",
                               "guppy_copyable": x["cop"], "phantom_free": phantom_free(e), "replay": rep}))
        if (not x["cop"]) and x["drop"] and not x["hugr"]["rd"]:
            spec_viol.append((f"affine-no-drop:{x['str']}", "affine Guppy type whose HUGR type does not satisfy requires_drop",
                              {"type": x["str"], "hugr_type": x["hugr"]["str"], "phantom_free": phantom_free(e), "replay": rep}))
    # ---- programs
    prog_stats = run_programs(ctx, r, G, structs, [b for b in built if json.dumps(b[0]) in prog_keys], n_prog_funcs, spec_viol, model is not None)
    lap("programs")
    # ---- decide
    def report_spec(extra=None):
        shown = 0
        for key, name, detail in spec_viol:
            known = ctx.is_known(key) is not None
            if known or shown < 3:
                if not known:
                    shown += 1
                    detail = dict(detail, **(extra or {}))
                ctx.report(key, "counterexample", name, detail)
        return shown

    if not info["ok"]:
        err = vlib.CoqResult(False, info["log"]).error_excerpt(25)
        if report_spec({"broken_obligation": str(info["failed"]), "coq_error": err}) == 0:
            ctx.report("proof-broken:" + str(info["failed"]), "proof-broken", str(info["failed"]),
                       {"coq_error": err, "searched_types": len(built), "searched_program_functions": prog_stats["functions"]},
                       found_input=False)
    else:
        report_spec()
    # ---- evidence
    hist = {"head": {}, "depth": {}, "class": {}}
    for t, x in built:
        e = x["enc"]
        hist["head"][e[0] if e[0] != "op" else e[1]] = hist["head"].get(e[0] if e[0] != "op" else e[1], 0) + 1
        dd = str(depth_of(e))
        hist["depth"][dd] = hist["depth"].get(dd, 0) + 1
        cl = {(True, True): "copyable", (False, True): "affine", (False, False): "linear", (True, False): "copyable-not-droppable"}[(x["cop"], x["drop"])]
        hist["class"][cl] = hist["class"].get(cl, 0) + 1
    distinct = {json.dumps(x["enc"]) for _, x in built if depth_of(x["enc"]) >= 2}
    samples = [{"type": built[j][1]["str"], "copyable": built[j][1]["cop"], "droppable": built[j][1]["drop"],
                "hugr": (built[j][1]["hugr"] or {}).get("str")} for j in (0, len(built) // 3, len(built) // 2, len(built) - 1)] if built else []
    cov = proof_coverage(
        info, "make -f Makefile.C14 C14/Props.vo && coqc C14/Props.v (Print Assumptions)",
        ["Coq 8.16.1 kernel; vm_compute only in Examples, the *_refuted witnesses and the finite table check table_matches_rules",
         "props/C14/tr_tytable.py + tools/tr_common.py: reading of property bodies (and/or/not, all/any over generators, TypeBound.join, `is not None` guards), "
         "MRO resolution over the classes of tys/ty.py, dataclass field defaults as class attributes, hugr-py constructor names -> qualified HUGR type names",
         "coq/C14/Model.v: the recursion scheme (which generated rule applies to which constructor), hugr-py Type.type_bound() and TypeBound.join as specified in Model.type_bound "
         "(table of HUGR type-definition bounds compared with the live hugr objects on every run), to_hugr outside monomorphization only, function signatures not modelled on the HUGR side",
         "tools/repo_shim.py (stand-in tket.bool extension) for running /repo on the sandbox's hugr 0.18",
         "not modelled: ExistentialTypeVar (hugr_bound raises), WasmModuleTypeDef, user custom_type definitions other than qubit, parametrized FunctionType, monomorphized type variables"],
        evaluations=len(built) + prog_stats["functions"], distinct_nontrivial=len(distinct),
        rule="distinct by canonical encoding; non-trivial = nesting depth >= 2 (at least one constructor applied to a component)",
        traces_validated_against_impl=compared, model_disagreements=disagreements, corpus_types=n_corpus,
        struct_definitions=len(structs), histograms=hist, programs=prog_stats["programs"], program_stats=prog_stats, tables_checked=table_notes,
        spec_violations_found=len(spec_viol), samples=samples, timing_s=timing, notes=ctx.notes)
    return ctx.finish(LEVEL, cov, [
        "types are built as check_instantiate builds them (wfb); the HUGR-bound and drop theorems additionally assume struct type arguments are witnessed by fields (no phantom parameters) — the phantom case is refuted in Coq and listed as a known finding",
        "to_hugr is modelled outside a monomorphization context (bound variables become ht.Variable)",
        "hugr-py's type_bound()/TypeBound.join and the HUGR type-definition bounds are a trusted specification of the dependency, compared with the live objects each run"])


def structs_used(t, structs):
    used = {}

    def walk(x):
        if x[0] == "struct":
            if x[1] not in used:
                used[x[1]] = structs[x[1]]
                for f in structs[x[1]]["fields"]:
                    walk(f)
            for a in x[2]:
                if a[0] == "T":
                    walk(a[1])
        elif x[0] == "tuple":
            for y in x[1]:
                walk(y)
        elif x[0] == "fun":
            for y in x[1] + [x[2]]:
                walk(y)
        elif x[0] == "op":
            for a in x[2]:
                if a[0] == "T":
                    walk(a[1])
    walk(t)
    return used


def check_tables(ctx, tables):
    """Live facts of the running implementation vs the generated table and the trusted HUGR spec."""
    import re
    notes = {}
    gen = (vlib.COQ / "C14" / "GenTyTable.v").read_text()
    model = (vlib.COQ / "C14" / "Model.v").read_text()
    # AFFINE_EXTENSION_TYS
    m = re.search(r"gen_AFFINE_EXTENSION_TYS : list string := \[(.*?)\]\.", gen)
    gen_aff = re.findall(r'"([^"]+)"', m.group(1)) if m else None
    if gen_aff != tables["affine"]:
        ctx.report("table:affine", "correspondence", "AFFINE_EXTENSION_TYS: generated vs live", {"generated": gen_aff, "live": tables["affine"]})
    notes["affine_extension_tys"] = tables["affine"]
    # opaque defs
    gdefs = {}
    for m in re.finditer(r'mkOdef "(\w+)" \[(.*?)\] (true|false) (true|false) (None|\(Some \w+\)) gen_to_hugr_\w+', gen):
        ps = [["T", a == "true", b == "true"] for a, b in re.findall(r"PType (true|false) (true|false)", m.group(2))]
        order = re.findall(r"PType|PConst", m.group(2))
        it = iter(ps)
        plist = [next(it) if o == "PType" else ["C"] for o in order]
        gdefs[m.group(1)] = [m.group(3) == "true", m.group(4) == "true",
                             None if m.group(5) == "None" else (0 if "Copyable" in m.group(5) else 1), plist]
    if gdefs != tables["opaque"]:
        ctx.report("table:opaque", "correspondence", "OpaqueTypeDef table: generated vs live objects",
                   {"generated": gdefs, "live": tables["opaque"]})
    notes["opaque_defs"] = sorted(gdefs)
    # HUGR type definition bounds (trusted spec in Model.v)
    spec = {}
    for m in re.finditer(r'\("([\w.]+)", (Explicit (Copyable|Linear)|FromParams \[([^\]]*)\])\)', model):
        spec[m.group(1)] = ["E", 0 if m.group(3) == "Copyable" else 1] if m.group(3) else ["P", [int(x.replace("%nat", "")) for x in m.group(4).split(";") if x.strip()]]
    live = {k: v for k, v in tables["typedefs"]}
    if spec != live or tables["qubit_bound"] != 1 or tables["fun_bound"] != 0:
        ctx.report("table:hugr-typedefs", "correspondence", "HUGR type definition bounds: Model.hugr_typedefs vs live hugr-py objects",
                   {"model": spec, "live": live, "qubit_bound": tables["qubit_bound"], "function_bound": tables["fun_bound"]})
    notes["hugr_typedefs"] = len(live)
    return notes


def run_programs(ctx, r, G, structs, built, n_funcs, spec_viol, have_model=True):
    """Compile programs whose parameters of droppable types are left unused; compare the drop
    nodes with the model's expectation (flattened to the leaves requiring a drop)."""
    cand = []
    for t, x in built:
        if x["wf"] and x["drop"] and t[0] != "none":
            s = src_ty(t, structs)
            if s is not None and "Ph" not in s:
                cand.append((t, x, s))
    # prefer affine, keep some copyable ones
    aff = [c for c in cand if not c[1]["cop"]]
    cpy = [c for c in cand if c[1]["cop"]]
    r.shuffle(aff)
    r.shuffle(cpy)
    progs, expect = [], {}
    # struct sources (only expressible ones)
    ssrc = {}
    for sid in sorted(structs, key=lambda s: (len(s), s)):
        if sid.isdigit():
            s = struct_src(sid, structs[sid], structs)
            if s is not None:
                ssrc[sid] = s
    pool = (aff[: int(n_funcs * 2.2)] + cpy[: n_funcs // 2])
    r.shuffle(pool)
    per_prog = 6
    k = 0
    i = 0
    while i < len(pool) and k * per_prog < n_funcs:
        funcs, names = [], []
        need = {}
        for j in range(per_prog):
            nparams = r.choice([1, 1, 2, 3])
            ps = pool[i:i + nparams]
            i += nparams
            if not ps:
                break
            ok = True
            for t, x, s in ps:
                for sid in structs_used(t, structs):
                    if sid not in ssrc:
                        ok = False
                    need[sid] = True
            if not ok:
                continue
            fname = f"g{k}_{j}"
            sig = ", ".join(f"p{q}: {s}" + ("" if x["cop"] else " @ owned") for q, (t, x, s) in enumerate(ps))
            funcs.append(f"@guppy\ndef {fname}({sig}) -> None:\n    pass\n")
            names.append(fname)
            expect[(f"prog{k}", fname)] = ps
        # close the struct set under field references, emit in id order
        closed = {}
        for sid in need:
            for s2 in structs_used(["struct", sid, []], structs):
                closed[s2] = True
        if any(s not in ssrc for s in closed):
            k += 1
            continue
        src = PRELUDE + "\n\n".join(ssrc[s] for s in sorted(closed, key=int)) + "\n\n" + "\n".join(funcs)
        if names:
            progs.append({"name": f"prog{k}", "src": src, "funcs": names})
        k += 1
    progs.append({"name": "fixed", "src": FIXED_PROGRAM, "funcs": ["unused_phantom", "field_used", "local_unused", "overwritten"]})
    sib_prog, sib_exp = sibling_programs()
    progs.append(sib_prog)
    out = json.loads(ctx.impl("impl_drops.py", {"programs": progs}))
    # model expectation
    flat = [p for key in expect for p in expect[key]]
    exp_leaves = {}
    if have_model and flat:
        try:
            leaves = model_eval(ctx, [x["enc"] for _, x, _ in flat], "leaves", "l")
            it = iter(leaves)
            exp_leaves = {key: sorted(l for _ in expect[key] for l in next(it)) for key in expect}
        except RuntimeError as e:
            ctx.notes.append(f"model evaluation (leaves) failed: {str(e)[-400:]}")
    stats = {"programs": len(progs), "functions": 0, "compiled": 0, "compile_errors": 0, "drops_seen": 0,
             "functions_with_affine_unused": 0, "mismatches": 0, "sibling_functions": len(sib_exp), "sibling_compiled": 0,
             "sibling_violations": 0}
    srcs = {p["name"]: p["src"] for p in progs}
    for rec in out:
        stats["functions"] += 1
        key = (rec["name"], rec["func"])
        if rec["err"] is not None:
            stats["compile_errors"] += 1
            if stats["compile_errors"] <= 2:
                ctx.notes.append(f"program {key} did not compile: {rec['err'][:200]}")
            continue
        stats["compiled"] += 1
        stats["drops_seen"] += len(rec["drops"])
        replay = {"program": srcs[rec["name"]], "function": rec["func"],
                  "how": "save as a file, `import repo_shim` first (PYTHONPATH=/verif/tools:/repo/guppylang/src:/repo/guppylang-internals/src), "
                         "then <function>.compile_function().modules[0] and list the ExtOp nodes named `drop`"}
        ind = [u for u in rec.get("unlinked", []) if ser_needs_drop(u["ser"])]
        if rec["name"] != "siblings" and ind and not rec["dangling"]:
            spec_viol.append((f"dangling:{rec['name']}:{rec['func']}", "a value port of a drop-requiring type is left unconnected in the compiled HUGR",
                              dict(replay, dangling_ports=[{"op": u["op"], "port": u["port"], "type": u["ty"]} for u in ind])))
        if (rec["dangling"] or not rec["drop_srcs_ok"]) and rec["name"] != "siblings" and stats.setdefault("dangling_reported", 0) < 3:
            stats["dangling_reported"] += 1
            ctx.report(f"dangling:{rec['func']}:{rec['dangling']}", "counterexample",
                       "compiled HUGR has an unconnected value port whose type requires a drop (or a malformed drop)",
                       dict(replay, dangling=rec["dangling"], drop_srcs_ok=rec["drop_srcs_ok"]))
        if key in expect:
            n_aff = sum(1 for _, x, _ in expect[key] if not x["cop"])
            if len([l for d in rec["drops"] for l in py_leaves(d)]) < n_aff:
                spec_viol.append((f"program-affine-no-drop:{[s for _, _, s in expect[key]]}",
                                  "fewer drops in the compiled HUGR than unused affine parameters",
                                  dict(replay, parameter_types=[s for _, _, s in expect[key]], drops=rec["drops"])))
        if key in exp_leaves:
            real_leaves = sorted(l for d in rec["drops"] for l in py_leaves(d))
            if any(not x["cop"] for _, x, _ in expect[key]):
                stats["functions_with_affine_unused"] += 1
            if real_leaves != exp_leaves[key]:
                stats["mismatches"] += 1
                if stats["mismatches"] <= 3:
                    ctx.report(f"drops:{[s for _, _, s in expect[key]]}", "counterexample",
                               "drop nodes of the compiled HUGR differ from the model's expected drops for the unused parameters",
                               dict(replay, parameter_types=[s for _, _, s in expect[key]], expected_leaves=exp_leaves[key], real_leaves=real_leaves))
        elif rec["name"] == "siblings":
            stats["sibling_compiled"] += 1
            k, fsrc = sib_exp[rec["func"]]
            leaves = [l for d in rec["drops"] for l in py_leaves(d)]
            dang = [u for u in rec.get("unlinked", []) if ser_needs_drop(u["ser"])]
            if len(leaves) != k or dang:
                stats["sibling_violations"] += 1
                spec_viol.append((f"sibling-drop:{rec['func']}",
                                  "an unused affine value does not receive exactly one drop op / a port of a drop-requiring type is left unconnected",
                                  {"function": fsrc, "prelude": SIB_PRELUDE, "unused_affine_values": k, "drop_leaves_in_hugr": len(leaves),
                                   "dangling_ports": [{"op": u["op"], "port": u["port"], "type": u["ty"]} for u in dang],
                                   "how": "save prelude + function as a file, `import repo_shim` first (PYTHONPATH=/verif/tools:/repo/guppylang/src:/repo/guppylang-internals/src), "
                                          "then <function>.compile_function().modules[0]; count ExtOp nodes named `drop` and value out-ports without links"}))
        elif rec["name"] == "fixed":
            want = {"unused_phantom": None, "field_used": 1, "local_unused": 2, "overwritten": 3}[rec["func"]]
            if rec["func"] == "unused_phantom":
                if not rec["drops"]:
                    spec_viol.append(("program-affine-no-drop:Ph[array[int, 2]]", "unused affine parameter receives no drop in the compiled HUGR",
                                      dict(replay, parameter_type="Ph[array[int, 2]] (struct Ph(Generic[T]): x: int)", drops=rec["drops"])))
            elif len(rec["drops"]) != want:
                ctx.report(f"fixed:{rec['func']}", "counterexample", "fixed program: number of drop nodes",
                           dict(replay, expected_drops=want, real=rec["drops"]))
    if stats["compiled"] == 0:
        ctx.report("programs:none-compiled", "correspondence", "no generated program compiled", {"first": out[:2]}, found_input=False)
    return stats


def py_leaves(s):
    """flatten a serialised HUGR type to its drop leaves: split single-row sums (tuples); keep leaves that need a drop.
    Needs-drop is recomputed on the serialisation: a borrow_array / array ext type, a Linear variable, or a container of one."""
    t, _ = parse_ser(s, 0)
    out = []

    def needs(x):
        if x[0] == "ext":
            return x[1] in (5, 6) or any(needs(a) for a in x[2] if isinstance(a, tuple))
        if x[0] == "sum":
            return any(needs(y) for row in x[1] for y in row)
        if x[0] == "var":
            return x[2] == 1
        return False

    def go(x):
        if not needs(x):
            return
        if x[0] == "sum" and len(x[1]) == 1:
            for y in x[1][0]:
                go(y)
        else:
            out.append(unparse_ser(x))
    go(t)
    return out


def parse_ser(s, i):
    tag = s[i]
    if tag == 1:
        q, n = s[i + 1], s[i + 2]
        i += 3
        args = []
        for _ in range(n):
            if s[i] == 10:
                a, i = parse_ser(s, i + 1)
                args.append(a)
            else:
                args.append([s[i], s[i + 1]])
                i += 2
        return ("ext", q, args), i
    if tag == 2:
        n = s[i + 1]
        i += 2
        rows = []
        for _ in range(n):
            m = s[i]
            i += 1
            row = []
            for _ in range(m):
                a, i = parse_ser(s, i)
                row.append(a)
            rows.append(row)
        return ("sum", rows), i
    if tag == 3:
        return ("var", s[i + 1], s[i + 2]), i + 3
    return ("atom", tag), i + 1


def unparse_ser(x):
    if x[0] == "ext":
        out = [1, x[1], len(x[2])]
        for a in x[2]:
            out += ([10] + unparse_ser(a)) if isinstance(a, tuple) else list(a)
        return out
    if x[0] == "sum":
        out = [2, len(x[1])]
        for row in x[1]:
            out.append(len(row))
            for y in row:
                out += unparse_ser(y)
        return out
    if x[0] == "var":
        return [3, x[1], x[2]]
    return [x[1]]
