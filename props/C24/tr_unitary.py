"""Translator for C24: reads checker/unitary_checker.py, tys/ty.py (UnitaryFlags),
cfg/bb.py (BB fields), nodes.py (AnyCall, ModifiedBlock.flags), ast_util.py (loop_in_ast),
definition/function.py (add_unitarity_metadata + call site), compiler/modifier_compiler.py
and guppylang/decorator.py (_parse_kwargs) and emits coq/C24/GenUnitary.v.

Fail-closed: every method of BBUnitaryChecker must have one of the shapes known below;
anything else raises TranslatorError.  Shapes are compared on `ast.unparse` text, so
comments / formatting / docstrings do not matter, renamed locals do (accepted cost).
Where the source admits more than one known shape (the unfixed and the repaired form of
`check`, `_check_classical_args`, `_check_assign`, `visit_PlaceNode`) the generated Coq
text differs accordingly and the proofs decide."""
import ast

from tr_common import HEADER, TranslatorError, find_class, find_func, find_assign, parse_file, strip_doc

INT = "guppylang-internals/src/guppylang_internals"


def U(n):
    return ast.unparse(n)


def body_src(f):
    return [U(s) for s in strip_doc(f.body)]


# ------------------------------------------------------------------------------- flags enum
def flags_enum(ty_mod):
    cls = find_class(ty_mod, "UnitaryFlags")
    if [U(b) for b in cls.bases] != ["Flag"]:
        raise TranslatorError(f"UnitaryFlags bases changed: {[U(b) for b in cls.bases]}")
    members, auto = {}, 1
    order = []
    for s in strip_doc(cls.body):
        if not (isinstance(s, ast.Assign) and len(s.targets) == 1 and isinstance(s.targets[0], ast.Name)):
            raise TranslatorError(f"UnitaryFlags body statement: {U(s)}")
        name, v = s.targets[0].id, s.value
        if isinstance(v, ast.Constant) and isinstance(v.value, int):
            members[name] = v.value
        elif U(v) == "auto()":
            members[name] = auto
            auto *= 2
        else:
            def ev(e):
                if isinstance(e, ast.Name) and e.id in members:
                    return members[e.id]
                if isinstance(e, ast.BinOp) and isinstance(e.op, ast.BitOr):
                    return ev(e.left) | ev(e.right)
                raise TranslatorError(f"UnitaryFlags member expression: {U(e)}")
            members[name] = ev(v)
        order.append(name)
    return order, members


class FlagExpr:
    """Tiny typed translator for expressions over flag sets and booleans."""

    def __init__(self, env, members):
        self.env, self.members = env, members

    def tr(self, e):
        s = U(e)
        if s in self.env:
            return self.env[s]
        if isinstance(e, ast.Attribute) and isinstance(e.value, ast.Name) and e.value.id == "UnitaryFlags":
            if e.attr not in self.members:
                raise TranslatorError(f"unknown flag {s}")
            return f"F_{e.attr}", "flags"
        if isinstance(e, ast.Compare) and len(e.ops) == 1 and isinstance(e.ops[0], (ast.In, ast.NotIn)):
            (a, ta), (b, tb) = self.tr(e.left), self.tr(e.comparators[0])
            if ta != "flags" or tb != "flags":
                raise TranslatorError(f"`in` on non-flags: {s}")
            t = f"(flag_in {a} {b})"
            return (t if isinstance(e.ops[0], ast.In) else f"(negb {t})"), "bool"
        if isinstance(e, ast.UnaryOp) and isinstance(e.op, ast.Not):
            a, ta = self.tr(e.operand)
            if ta != "bool":
                raise TranslatorError(f"not on {ta}: {s}")
            return f"(negb {a})", "bool"
        if isinstance(e, ast.UnaryOp) and isinstance(e.op, ast.Invert):
            a, ta = self.tr(e.operand)
            if ta != "flags":
                raise TranslatorError(f"~ on {ta}: {s}")
            return f"(flag_not {a})", "flags"
        if isinstance(e, ast.BoolOp):
            parts = [self.tr(v) for v in e.values]
            if any(t != "bool" for _, t in parts):
                raise TranslatorError(f"and/or on non-bool: {s}")
            return "(" + (" && " if isinstance(e.op, ast.And) else " || ").join(p for p, _ in parts) + ")", "bool"
        if isinstance(e, ast.BinOp) and isinstance(e.op, (ast.BitAnd, ast.BitOr)):
            (a, ta), (b, tb) = self.tr(e.left), self.tr(e.right)
            if ta != "flags" or tb != "flags":
                raise TranslatorError(f"&/| on non-flags: {s}")
            return f"(Z.{'land' if isinstance(e.op, ast.BitAnd) else 'lor'} {a} {b})", "flags"
        raise TranslatorError(f"cannot translate flag expression `{s}`")


# --------------------------------------------------------------------------------- pieces
def tr_check_call(cls, members):
    f = find_func(cls, "_check_call")
    if [a.arg for a in f.args.args] != ["self", "node", "ty"]:
        raise TranslatorError("_check_call signature")
    b = strip_doc(f.body)
    if len(b) != 3 or U(b[0]) != "classic = self._check_classical_args(node.args)":
        raise TranslatorError(f"_check_call body: {body_src(f)}")
    env = {"classic": ("classic", "bool"), "self.flags": ("fl", "flags"), "ty.unitary_flags": ("cf", "flags")}
    fx = FlagExpr(env, members)
    if not (isinstance(b[1], ast.Assign) and U(b[1].targets[0]) == "flag_ok"):
        raise TranslatorError(f"_check_call: expected `flag_ok = ...`, found {U(b[1])}")
    ok, t = fx.tr(b[1].value)
    if t != "bool":
        raise TranslatorError("flag_ok type")
    env["flag_ok"] = ("flag_ok", "bool")
    s = b[2]
    if not (isinstance(s, ast.If) and not s.orelse and len(s.body) == 1 and isinstance(s.body[0], ast.Raise)):
        raise TranslatorError(f"_check_call: expected `if ...: raise ...`, found {U(s)}")
    cond, t = fx.tr(s.test)
    exc = s.body[0].exc
    if not (isinstance(exc, ast.Call) and U(exc.func) == "GuppyTypeError" and len(exc.args) == 1
            and isinstance(exc.args[0], ast.Call) and U(exc.args[0].func) == "UnitaryCallError"
            and len(exc.args[0].args) == 2 and U(exc.args[0].args[0]) == "node"):
        raise TranslatorError(f"_check_call raise shape: {U(exc)}")
    miss, t2 = fx.tr(exc.args[0].args[1])
    if t2 != "flags":
        raise TranslatorError("UnitaryCallError flags argument type")
    return (f"Definition check_call (fl cf : Z) (classic : bool) : option err :=\n"
            f"  let flag_ok := {ok} in\n  if {cond} then Some (ECallFlags {miss}) else None.\n")


ARGS_EARLY = ["for arg in args:\n    self.visit(arg)\n    if contain_qubit_ty(get_type(arg)):\n        return False", "return True"]
ARGS_ALL = ["classical = True",
            "for arg in args:\n    self.visit(arg)\n    if contain_qubit_ty(get_type(arg)):\n        classical = False",
            "return classical"]


def args_mode(cls):
    f = find_func(cls, "_check_classical_args")
    src = body_src(f)
    if src == ARGS_EARLY:
        return "early"
    if src == ARGS_ALL:
        return "all"
    raise TranslatorError(f"_check_classical_args has an unknown shape: {src}")


def check_fields(cls):
    """`check`: which block fields are visited, in order."""
    f = find_func(cls, "check")
    if [a.arg for a in f.args.args] != ["self", "bb", "unitary_flags"]:
        raise TranslatorError("check signature")
    b = body_src(f)
    if not b or b[0] != "self.flags = unitary_flags":
        raise TranslatorError(f"check does not start with `self.flags = unitary_flags`: {b}")
    out = []
    for s in b[1:]:
        if s == "for stmt in bb.statements:\n    self.visit(stmt)":
            out.append("FStatements")
        elif s == "if bb.branch_pred is not None:\n    self.visit(bb.branch_pred)":
            out.append("FBranchPred")
        else:
            raise TranslatorError(f"check: unknown statement `{s}`")
    return out


def bb_ast_fields(bb_mod):
    cls = find_class(bb_mod, "BB")
    out = []
    for n in cls.body:
        if isinstance(n, ast.AnnAssign) and isinstance(n.target, ast.Name):
            ann = U(n.annotation)
            if "BBStatement" in ann or "ast." in ann or "AstNode" in ann:
                if (n.target.id, ann) == ("statements", "list[BBStatement]"):
                    out.append("FStatements")
                elif (n.target.id, ann) == ("branch_pred", "ast.expr | None"):
                    out.append("FBranchPred")
                else:
                    raise TranslatorError(f"BB has an AST-bearing field the model does not know: {n.target.id}: {ann}")
    if not out:
        raise TranslatorError("BB: no AST-bearing fields found")
    return out


ASSIGN_HEAD = "if UnitaryFlags.Dagger in self.flags:\n    raise GuppyError(InvalidUnderDagger(node, 'Assignment'))"
ASSIGN_VALUE = "if node.value is not None:\n    self.visit(node.value)"
ASSIGN_TARGETS = ["targets = node.targets if isinstance(node, ast.Assign) else [node.target]",
                  "for target in targets:\n    self.visit(target)"]


def assign_visits(cls):
    b = body_src(find_func(cls, "_check_assign"))
    if not b or b[0] != ASSIGN_HEAD:
        raise TranslatorError(f"_check_assign: unknown head {b[:1]}")
    rest, out = b[1:], []
    while rest:
        if rest[0] == ASSIGN_VALUE:
            out.append("value"); rest = rest[1:]
        elif rest[:2] == ASSIGN_TARGETS:
            out.append("targets"); rest = rest[2:]
        else:
            raise TranslatorError(f"_check_assign: unknown statement `{rest[0]}`")
    for m in ("visit_AnnAssign", "visit_Assign", "visit_AugAssign"):
        if body_src(find_func(cls, m)) != ["self._check_assign(node)"]:
            raise TranslatorError(f"{m} body changed")
    return out


PLACE_HEAD = ("if UnitaryFlags.Dagger in self.flags and contains_subscript(node.place):\n"
              "    raise GuppyError(UnsupportedError(node, 'index access', True, 'dagger context'))")
PLACE_IDX = ["place = node.place",
             "while not isinstance(place, Variable):\n    if isinstance(place, SubscriptAccess):\n"
             "        self.visit(place.item_expr)\n    place = place.parent"]


def place_visits_idx(cls):
    b = body_src(find_func(cls, "visit_PlaceNode"))
    if b == [PLACE_HEAD]:
        return False
    if b == [PLACE_HEAD] + PLACE_IDX:
        return True
    raise TranslatorError(f"visit_PlaceNode: unknown shape {b}")


CALL_VISITORS = {
    "visit_GlobalCall": ["func = ENGINE.get_parsed(node.def_id)", "assert isinstance(func, CallableDef)", "self._check_call(node, func.ty)"],
    "visit_LocalCall": ["func = get_type(node.func)", "assert isinstance(func, FunctionType)", "self._check_call(node, func)"],
    "visit_TensorCall": ["self._check_call(node, node.tensor_ty)"],
}
HELPERS = {"check", "_check_classical_args", "_check_call", "_check_assign"}


def visitor_table(cls):
    if [U(b) for b in cls.bases] != ["ast.NodeVisitor"]:
        raise TranslatorError("BBUnitaryChecker is no longer a plain ast.NodeVisitor")
    table = []
    for m in cls.body:
        if not isinstance(m, ast.FunctionDef):
            continue
        if m.name in HELPERS:
            continue
        if not m.name.startswith("visit_"):
            raise TranslatorError(f"BBUnitaryChecker has an unknown method {m.name}")
        c = m.name[len("visit_"):]
        src = body_src(m)
        if m.name in CALL_VISITORS:
            if src != CALL_VISITORS[m.name]:
                raise TranslatorError(f"{m.name} body changed: {src}")
            table.append((c, "BCall"))
        elif c in ("BarrierExpr", "StateResultExpr"):
            if src != ["pass"]:
                raise TranslatorError(f"{m.name} is no longer `pass`: {src}")
            table.append((c, "BExempt"))
        elif c in ("AnnAssign", "Assign", "AugAssign"):
            table.append((c, "BAssign"))
        elif c == "PlaceNode":
            table.append((c, "BPlace"))
        else:
            raise TranslatorError(f"BBUnitaryChecker has a visitor for an unmodelled node class: {m.name}")
    return table


def isinstance_classes(lam, what):
    """`lambda n: isinstance(n, ast.A | ast.B)` -> ['A','B']"""
    if not (isinstance(lam, ast.Lambda) and isinstance(lam.body, ast.Call) and U(lam.body.func) == "isinstance"
            and len(lam.body.args) == 2 and U(lam.body.args[0]) == lam.args.args[0].arg):
        raise TranslatorError(f"{what}: matcher shape {U(lam)}")
    out = []
    for part in U(lam.body.args[1]).split("|"):
        part = part.strip()
        if not part.startswith("ast."):
            raise TranslatorError(f"{what}: class {part}")
        out.append(part[4:])
    return out


def precheck(mod, ast_util_mod):
    f = find_func(mod, "check_invalid_under_dagger")
    if [a.arg for a in f.args.args] != ["fn_def", "unitary_flags"]:
        raise TranslatorError("check_invalid_under_dagger signature")
    b = strip_doc(f.body)
    if len(b) != 2 or U(b[0]) != "if UnitaryFlags.Dagger not in unitary_flags:\n    return":
        raise TranslatorError(f"check_invalid_under_dagger head: {[U(s) for s in b]}")
    loop = b[1]
    if not (isinstance(loop, ast.For) and U(loop.target) == "stmt" and U(loop.iter) == "fn_def.body" and not loop.orelse):
        raise TranslatorError("check_invalid_under_dagger loop")
    steps, i, lb = [], 0, loop.body
    assign_classes = None
    while i < len(lb):
        if U(lb[i]) == "loops = loop_in_ast(stmt)" and i + 1 < len(lb) and isinstance(lb[i + 1], ast.If) \
                and U(lb[i + 1].test) == "len(loops) != 0" and "InvalidUnderDagger(loop, 'Loop')" in U(lb[i + 1]) \
                and isinstance(lb[i + 1].body[-1], ast.Raise):
            steps.append("loop"); i += 2
        elif isinstance(lb[i], ast.Assign) and U(lb[i].targets[0]) == "found" and isinstance(lb[i].value, ast.Call) \
                and U(lb[i].value.func) == "find_nodes" and i + 1 < len(lb) and isinstance(lb[i + 1], ast.If) \
                and U(lb[i + 1].test) == "len(found) != 0" and "InvalidUnderDagger(assign, 'Assignment')" in U(lb[i + 1]) \
                and isinstance(lb[i + 1].body[-1], ast.Raise):
            call = lb[i].value
            if len(call.args) != 3 or U(call.args[1]) != "stmt" or U(call.args[2]) != "{ast.FunctionDef}":
                raise TranslatorError(f"find_nodes call: {U(call)}")
            assign_classes = isinstance_classes(call.args[0], "assignment matcher")
            steps.append("assign"); i += 2
        else:
            raise TranslatorError(f"check_invalid_under_dagger: unknown statement `{U(lb[i])}`")
    lf = find_func(ast_util_mod, "loop_in_ast")
    lb2 = strip_doc(lf.body)
    if not (len(lb2) == 2 and isinstance(lb2[0], ast.Assign) and U(lb2[0].value.func) == "find_nodes"
            and U(lb2[0].value.args[2]) == "{ast.FunctionDef}"):
        raise TranslatorError("loop_in_ast shape")
    loop_classes = isinstance_classes(lb2[0].value.args[0], "loop matcher")
    return steps, assign_classes or [], loop_classes


def kwargs_flags(dec_mod, members):
    f = find_func(dec_mod, "_parse_kwargs")
    b = strip_doc(f.body)
    if U(b[0]) != "flags = UnitaryFlags.NoFlags" or U(b[-1]) != "return flags":
        raise TranslatorError("_parse_kwargs head/tail")
    out = []
    for s in b[1:-1]:
        if isinstance(s, ast.If) and isinstance(s.test, ast.Call) and U(s.test.func) == "kwargs.pop" \
                and len(s.test.args) == 2 and U(s.test.args[1]) == "False" and len(s.body) == 1 and not s.orelse \
                and isinstance(s.body[0], ast.AugAssign) and isinstance(s.body[0].op, ast.BitOr) and U(s.body[0].target) == "flags":
            kw = s.test.args[0].value
            fl = s.body[0].value
            if not (isinstance(fl, ast.Attribute) and U(fl.value) == "UnitaryFlags" and fl.attr in members):
                raise TranslatorError(f"_parse_kwargs flag {U(fl)}")
            out.append((kw, fl.attr))
        elif isinstance(s, ast.If) and "Unknown keyword argument" in U(s):
            continue
        else:
            raise TranslatorError(f"_parse_kwargs: unknown statement `{U(s)}`")
    return out


def modifier_flags(nodes_mod, members):
    cls = find_class(nodes_mod, "ModifiedBlock")
    f = find_func(cls, "flags")
    b = strip_doc(f.body)
    if U(b[0]) != "flags = UnitaryFlags.NoFlags" or U(b[-1]) != "return flags":
        raise TranslatorError("ModifiedBlock.flags head/tail")
    out = []
    for s in b[1:-1]:
        if isinstance(s, ast.If) and U(s.test) in ("self.is_dagger()", "self.is_control()", "self.is_power()") \
                and len(s.body) == 1 and isinstance(s.body[0], ast.AugAssign) and isinstance(s.body[0].op, ast.BitOr):
            out.append((U(s.test)[len("self.is_"):-2], s.body[0].value.attr))
        else:
            raise TranslatorError(f"ModifiedBlock.flags: unknown statement `{U(s)}`")
    tests = {}
    for k in ("dagger", "control", "power"):
        g = body_src(find_func(cls, f"is_{k}"))
        if g == [f"return len(self.{k}) > 0"]:
            tests[k] = f"(0 <? n_{k})"
        elif g == [f"return len(self.{k}) % 2 == 1"]:
            tests[k] = f"(Z.modulo n_{k} 2 =? 1)"
        else:
            raise TranslatorError(f"ModifiedBlock.is_{k} has an unknown shape: {g}")
    return out, tests


def metadata(fn_mod, modc_mod):
    f = find_func(fn_mod, "add_unitarity_metadata")
    b = body_src(f)
    if [a.arg for a in f.args.args] != ["func", "flags"] or len(b) != 1:
        raise TranslatorError("add_unitarity_metadata shape")
    s = strip_doc(f.body)[0]
    if not (isinstance(s, ast.Assign) and isinstance(s.targets[0], ast.Subscript) and U(s.targets[0].value) == "func.metadata"
            and isinstance(s.targets[0].slice, ast.Constant) and U(s.value) == "flags.value"):
        raise TranslatorError(f"add_unitarity_metadata body: {b}")
    key = s.targets[0].slice.value
    sites = []
    for name, mod in (("definition/function.py", fn_mod), ("compiler/modifier_compiler.py", modc_mod)):
        for n in ast.walk(mod):
            if isinstance(n, ast.Call) and U(n.func) == "add_unitarity_metadata":
                if len(n.args) != 2:
                    raise TranslatorError("add_unitarity_metadata call shape")
                sites.append((name, U(n.args[1])))
    return key, sites


def anycall(nodes_mod):
    v = find_assign(nodes_mod, "AnyCall")
    return [p.strip() for p in U(v).split("|")]


def cfg_loop(mod):
    f = find_func(mod, "check_cfg_unitary")
    if body_src(f) != ["bb_checker = BBUnitaryChecker()", "for bb in cfg.bbs:\n    bb_checker.check(bb, unitary_flags)"]:
        raise TranslatorError(f"check_cfg_unitary changed: {body_src(f)}")



# ------------------------------------------------------------------ contain_qubit_ty (tys/qubit.py)
def _method(cls, name):
    for m in cls.body:
        if isinstance(m, ast.FunctionDef) and m.name == name:
            return m
    return None


def qubit_finder(root):
    """Reads QubitFinder / contain_qubit_ty and the `visit` protocol of the type classes; returns
    (Coq text defining ty_visit / contains_qubit, info)."""
    q = parse_file(root / "tys/qubit.py")
    t = parse_file(root / "tys/ty.py")
    cls = find_class(q, "QubitFinder")
    if [U(b) for b in cls.bases] != ["Visitor"]:
        raise TranslatorError("QubitFinder bases changed")
    members = {}
    for m in strip_doc(cls.body):
        if isinstance(m, ast.ClassDef) and m.name == "FoundFlag" and [U(b) for b in m.bases] == ["Exception"]:
            continue
        if not isinstance(m, ast.FunctionDef):
            raise TranslatorError(f"QubitFinder: unknown member `{U(m)[:80]}`")
        ann = U(m.args.args[1].annotation) if len(m.args.args) == 2 and m.args.args[1].annotation else None
        members[m.name] = ([U(d) for d in m.decorator_list], ann, body_src(m))
    want = {
        "visit": (["functools.singledispatchmethod"], "Any", ["return False"]),
        "_visit_OpaqueType": (["visit.register"], "OpaqueType", ["if is_qubit_ty(ty):\n    raise self.FoundFlag", "return False"]),
        "_visit_TypeArg": (["visit.register"], "TypeArg", ["arg.ty.visit(self)", "return True"]),
    }
    struct = (["visit.register"], "StructType", ["for field in ty.fields:\n    field.ty.visit(self)", "return False"])
    for k, v in want.items():
        if members.get(k) != v:
            raise TranslatorError(f"QubitFinder.{k} has an unknown shape: {members.get(k)}")
    extra = set(members) - set(want)
    has_struct = False
    if extra == {"_visit_StructType"} and members["_visit_StructType"] == struct:
        has_struct = True
    elif extra:
        raise TranslatorError(f"QubitFinder has unknown methods / shapes: {[(k, members[k]) for k in sorted(extra)]}")
    f = find_func(q, "contain_qubit_ty")
    if body_src(f) != ["finder = QubitFinder()",
                       "try:\n    ty.visit(finder)\nexcept QubitFinder.FoundFlag:\n    return True\nelse:\n    return False"]:
        raise TranslatorError(f"contain_qubit_ty has an unknown shape: {body_src(f)}")
    if body_src(find_func(q, "is_qubit_ty")) != ["return ty == qubit_ty()"]:
        raise TranslatorError("is_qubit_ty changed")
    # the accept side of the protocol in tys/ty.py
    ptb = find_class(t, "ParametrizedTypeBase")
    v = _method(ptb, "visit")
    if v is None or body_src(v) != ["if not visitor.visit(self):\n    for arg in self.args:\n        visitor.visit(arg)"]:
        raise TranslatorError("ParametrizedTypeBase.visit has an unknown shape")
    for name in ("TupleType", "OpaqueType", "StructType"):
        c = find_class(t, name)
        if [U(b) for b in c.bases] != ["ParametrizedTypeBase"] or _method(c, "visit") is not None:
            raise TranslatorError(f"{name}: bases changed or it now overrides visit")
    for name in ("NumericType", "NoneType", "BoundTypeVar", "ExistentialTypeVar"):
        v = _method(find_class(t, name), "visit")
        if v is None or body_src(v) != ["visitor.visit(self)"]:
            raise TranslatorError(f"{name}.visit has an unknown shape")
    init = _method(find_class(t, "TupleType"), "__init__")
    if init is None or "args = [TypeArg(ty) for ty in element_types]" not in body_src(init):
        raise TranslatorError("TupleType.__init__ no longer sets args to its element types")
    args = "(fix go (l : list (option gty)) {struct l} : bool := match l with [] => false | a :: r => (match a with Some u => ty_visit u | None => false end) || go r end)"
    flds = "(fix gof (l : list gty) {struct l} : bool := match l with [] => false | u :: r => ty_visit u || gof r end)"
    text = ("(* tys/qubit.py QubitFinder + the accept methods of tys/ty.py.  true = QubitFinder.FoundFlag was raised;\n"
            "   `||` is the exception cutting the traversal short.  Struct fields visited: %s *)\n" % has_struct
            + "Fixpoint ty_visit (t : gty) {struct t} : bool :=\n  match t with\n"
            "  | GQubit => true\n  | GLeaf => false\n"
            f"  | GOpaque args => {args} args\n  | GTuple args => {args} args\n"
            + (f"  | GStruct args fields => {flds} fields || {args} args\n" if has_struct else f"  | GStruct args fields => {args} args\n")
            + "  end.\n(* contain_qubit_ty: try: ty.visit(finder) except FoundFlag: return True else: return False *)\n"
            "Definition contains_qubit (t : gty) : bool := ty_visit t.\n")
    return text, {"qubit_finder_struct_fields": has_struct}

def functiontype_eq_fields(root):
    """FunctionType is a generated-__eq__ dataclass: the fields that take part in equality (compare != False).
    Fails closed on a hand-written __eq__/__hash__ in FunctionType or its bases, or eq=False."""
    t = parse_file(root / "tys/ty.py")
    cls = find_class(t, "FunctionType")
    deco = [U(d) for d in cls.decorator_list]
    if deco != ["dataclass(frozen=True, init=False)"]:
        raise TranslatorError(f"FunctionType decorators changed: {deco}")
    for cname in ("FunctionType", "ParametrizedTypeBase", "TypeBase"):
        c = find_class(t, cname)
        for m in c.body:
            if isinstance(m, ast.FunctionDef) and m.name in ("__eq__", "__hash__", "__ne__"):
                raise TranslatorError(f"{cname} defines {m.name}: function-type equality is no longer the dataclass one")
    out = []
    for n in cls.body:
        if isinstance(n, ast.AnnAssign) and isinstance(n.target, ast.Name):
            cmp_ = True
            v = n.value
            if v is not None:
                if not (isinstance(v, ast.Call) and U(v.func) == "field"):
                    raise TranslatorError(f"FunctionType.{n.target.id}: default is not a field(...) call: {U(v)}")
                for k in v.keywords:
                    if k.arg == "compare":
                        if not isinstance(k.value, ast.Constant) or not isinstance(k.value.value, bool):
                            raise TranslatorError(f"FunctionType.{n.target.id}: compare= is not a literal")
                        cmp_ = k.value.value
                    elif k.arg is None:
                        raise TranslatorError(f"FunctionType.{n.target.id}: field(**...)")
            if cmp_:
                out.append(n.target.id)
    init = _method(cls, "__init__")
    if init is None or "object.__setattr__(self, 'unitary_flags', unitary_flags)" not in body_src(init):
        raise TranslatorError("FunctionType.__init__ no longer stores unitary_flags")
    return out


def coq_list(xs):
    return "[" + "; ".join(xs) + "]"


def coq_strs(xs):
    return coq_list([f'"{x}"%string' for x in xs])


# ------------------------------------------------------------------------------ emit
def translate(repo):
    root = repo / INT
    mod = parse_file(root / "checker/unitary_checker.py")
    ty_mod = parse_file(root / "tys/ty.py")
    bb_mod = parse_file(root / "cfg/bb.py")
    nodes_mod = parse_file(root / "nodes.py")
    au_mod = parse_file(root / "ast_util.py")
    fn_mod = parse_file(root / "definition/function.py")
    modc_mod = parse_file(root / "compiler/modifier_compiler.py")
    dec_mod = parse_file(repo / "guppylang/src/guppylang/decorator.py")
    cls = find_class(mod, "BBUnitaryChecker")
    order, members = flags_enum(ty_mod)
    table = visitor_table(cls)
    mode = args_mode(cls)
    fields = check_fields(cls)
    bbf = bb_ast_fields(bb_mod)
    av = assign_visits(cls)
    pidx = place_visits_idx(cls)
    steps, assign_classes, loop_classes = precheck(mod, au_mod)
    kws = kwargs_flags(dec_mod, members)
    mfl = modifier_flags(nodes_mod, members)
    key, sites = metadata(fn_mod, modc_mod)
    cfg_loop(mod)
    bits = 0
    for n in order:
        bits |= members[n]
    o = [HEADER.format(src="checker/unitary_checker.py, tys/ty.py, cfg/bb.py, nodes.py, ast_util.py, definition/function.py, compiler/modifier_compiler.py, guppylang/decorator.py",
                       tool="props/C24/tr_unitary.py"),
         "From Coq Require Import ZArith List Bool String.\nFrom V.C24 Require Import ModelBase.\nImport ListNotations.\nOpen Scope Z_scope.\n",
         "(* tys/ty.py  class UnitaryFlags(Flag) *)"]
    for n in order:
        o.append(f"Definition F_{n} : Z := {members[n]}.")
    o.append("Definition flag_members : list (string * Z) := " + coq_list([f'("{n}"%string, F_{n})' for n in order]) + ".")
    o.append(f"Definition flag_bits : Z := {bits}.   (* union of all members *)")
    o.append("(* Python enum.Flag:  a in b  <->  a & b == a;   ~a  =  complement within the defined bits *)")
    o.append("Definition flag_in (a b : Z) : bool := Z.land a b =? a.")
    o.append("Definition flag_not (a : Z) : Z := Z.lxor flag_bits (Z.land a flag_bits).\n")
    o.append("(* BBUnitaryChecker._check_call *)")
    o.append(tr_check_call(cls, members))
    # ---- visit
    o.append(f"(* BBUnitaryChecker.visit (ast.NodeVisitor dispatch on the visit_* methods); _check_classical_args shape: {mode};")
    o.append(f"   _check_assign visits {av}; visit_PlaceNode visits index expressions: {pidx} *)")
    if mode == "all":
        call = ("      let r := (fix go (l : list (node * bool)) (classical : bool) {struct l} : option err * bool :=\n"
                "                  match l with\n                  | [] => (None, classical)\n"
                "                  | p :: r => match visit fl (fst p) with\n"
                "                              | Some e => (Some e, classical)\n"
                "                              | None => go r (if snd p then false else classical)\n"
                "                              end\n                  end) args true in\n"
                "      orelse (fst r) (check_call fl cf (snd r))")
    else:
        call = ("      let r := (fix go (l : list (node * bool)) {struct l} : option err * bool :=\n"
                "                  match l with\n                  | [] => (None, true)\n"
                "                  | p :: r => match visit fl (fst p) with\n"
                "                              | Some e => (Some e, true)\n"
                "                              | None => if snd p then (None, false) else go r\n"
                "                              end\n                  end) args in\n"
                "      orelse (fst r) (check_call fl cf (snd r))")
    lst = "(fix go (l : list node) {struct l} : option err := match l with [] => None | a :: r => orelse (visit fl a) (go r) end)"
    parts = {"value": "match v with Some x => visit fl x | None => None end", "targets": f"{lst} ts"}
    assign_rest = "None"
    for a in reversed(av):
        assign_rest = f"orelse ({parts[a]}) ({assign_rest})"
    place_rest = f"{lst} idx" if pidx else "None"
    o.append("Fixpoint visit (fl : Z) (n : node) {struct n} : option err :=\n  match n with\n"
             f"  | NCall cf args =>\n{call}\n"
             "  | NExempt => None\n"
             f"  | NPlace s idx =>\n      if flag_in F_Dagger fl && s then Some EDaggerSubscript else {place_rest}\n"
             f"  | NAssign ts v =>\n      if flag_in F_Dagger fl then Some EDaggerAssign else {assign_rest}\n"
             f"  | NGeneric cs => {lst} cs\n  end.\n")
    o.append("Definition visit_list (fl : Z) (l : list node) : option err := fold_right (fun n acc => orelse (visit fl n) acc) None l.\n")
    o.append("(* BBUnitaryChecker.check: the block fields it visits, in order *)")
    o.append(f"Definition checked_bb_fields : list bbfield := {coq_list(fields)}.")
    o.append("(* cfg/bb.py class BB: the fields that hold AST nodes *)")
    o.append(f"Definition bb_ast_fields : list bbfield := {coq_list(bbf)}.")
    o.append("Definition check_block (fl : Z) (b : block) : option err := visit_list fl (block_nodes checked_bb_fields b).")
    o.append("(* check_cfg_unitary: for bb in cfg.bbs: bb_checker.check(bb, unitary_flags) *)")
    o.append("Definition check_cfg (fl : Z) (bbs : list block) : option err := fold_right (fun b acc => orelse (check_block fl b) acc) None bbs.\n")
    o.append("(* visit_* methods of BBUnitaryChecker; nodes.py AnyCall *)")
    o.append("Definition visitor_table : list (string * behaviour) := " + coq_list([f'("{c}"%string, {b})' for c, b in table]) + ".")
    o.append(f"Definition anycall_members : list string := {coq_strs(anycall(nodes_mod))}.\n")
    o.append("(* check_invalid_under_dagger(fn_def, flags): per top-level statement (contains a loop, contains an assignment) *)")
    step_t = {"loop": "if fst p then Some EDaggerLoop else", "assign": "if snd p then Some EDaggerAssign else"}
    o.append("Fixpoint precheck_stmts (l : list (bool * bool)) : option err :=\n  match l with\n  | [] => None\n  | p :: r => "
             + " ".join(step_t[s] for s in steps) + " precheck_stmts r\n  end.")
    o.append("Definition precheck (fl : Z) (l : list (bool * bool)) : option err := if negb (flag_in F_Dagger fl) then None else precheck_stmts l.")
    o.append(f"Definition precheck_assign_classes : list string := {coq_strs(assign_classes)}.")
    o.append(f"Definition precheck_loop_classes : list string := {coq_strs(loop_classes)}.\n")
    o.append("(* guppylang/decorator.py _parse_kwargs; nodes.py ModifiedBlock.flags *)")
    names = ["unitary", "control", "dagger", "power"]
    if sorted(k for k, _ in kws) != sorted(names):
        raise TranslatorError(f"_parse_kwargs keywords changed: {kws}")
    e = "F_NoFlags"
    for k, fl in kws:
        e = f"(let acc := {e} in if {k} then Z.lor acc F_{fl} else acc)"
    o.append(f"Definition parse_kwargs (unitary control dagger power : bool) : Z := {e}.")
    mfl, mtests = mfl
    if sorted(k for k, _ in mfl) != ["control", "dagger", "power"]:
        raise TranslatorError(f"ModifiedBlock.flags changed: {mfl}")
    e = "F_NoFlags"
    for k, fl in mfl:
        e = f"(let acc := {e} in if {mtests[k]} then Z.lor acc F_{fl} else acc)"
    o.append("(* arguments: how many dagger / control / power modifiers the `with` statement lists *)")
    o.append(f"Definition modifier_flags (n_dagger n_control n_power : Z) : Z := {e}.\n")
    o.append("(* definition/function.py add_unitarity_metadata: func.metadata[key] = flags.value; its call sites *)")
    o.append(f'Definition metadata_key : string := "{key}"%string.')
    o.append("Definition metadata_value (flags : Z) : Z := flags.")
    o.append("Definition metadata_call_sites : list (string * string) := " + coq_list([f'("{a}"%string, "{b}"%string)' for a, b in sites]) + ".")
    eqf = functiontype_eq_fields(root)
    o.append("\n(* tys/ty.py class FunctionType (dataclass-generated __eq__): the fields that take part in equality *)")
    o.append(f"Definition functiontype_eq_fields : list string := {coq_strs(eqf)}.")
    qtext, qinfo = qubit_finder(root)
    o.append("")
    o.append(qtext)
    return "\n".join(o) + "\n", {**qinfo, "args_mode": mode, "check_fields": fields, "assign_visits": av, "place_idx": pidx,
                                 "flags": members, "visitor_table": table}
