"""Implementation side of the C24 correspondence.  stdin: {"module": <python source>, "funcs":
[names], "compile": [names]}.  Writes the module to a real file (inspect.getsource), wraps
check_cfg_unitary (recording every invocation: flags, a dump of the checked blocks in the
model's vocabulary, and the real verdict — behaviour unchanged) and runs `.check()` on every
listed function.  Output: JSON {name: {"verdict", "error", "missing", "calls": [...]},
"_meta": {name: {funcname: value}}}."""
import ast
import importlib.util
import json
import sys
from pathlib import Path

import repo_shim  # noqa: F401
import guppylang

guppylang.enable_experimental_features()

import guppylang_internals.checker.unitary_checker as uc  # noqa: E402
from guppylang_internals.ast_util import get_type  # noqa: E402
from guppylang_internals.checker.core import SubscriptAccess, Variable, contains_subscript  # noqa: E402
from guppylang_internals.engine import ENGINE  # noqa: E402
from guppylang_internals.error import GuppyError  # noqa: E402
from guppylang_internals.nodes import (BarrierExpr, GlobalCall, LocalCall, PlaceNode,  # noqa: E402
                                       StateResultExpr, TensorCall)
from guppylang_internals.tys.qubit import contain_qubit_ty  # noqa: E402

from guppylang_internals.tys.arg import TypeArg  # noqa: E402
from guppylang_internals.tys.qubit import qubit_ty  # noqa: E402
from guppylang_internals.tys.ty import (FunctionType, NoneType, NumericType, OpaqueType, StructType,  # noqa: E402
                                        TupleType)

CALLS = (GlobalCall, LocalCall, TensorCall)


def tydump(t):
    """the type in the model's vocabulary: "Q" qubit, "L" leaf, ["O"|"T", args], ["S", args, fields]; args: None = const"""
    def args(xs):
        return [tydump(a.ty) if isinstance(a, TypeArg) else None for a in xs]
    if isinstance(t, OpaqueType):
        return "Q" if t == qubit_ty() else ["O", args(t.args)]
    if isinstance(t, TupleType):
        return ["T", args(t.args)]
    if isinstance(t, StructType):
        return ["S", args(t.args), [tydump(f.ty) for f in t.fields]]
    if isinstance(t, FunctionType):
        unmodelled.append("function-typed argument")
        return "L"
    return "L"

unmodelled = []


def has_call(n):
    return any(isinstance(x, CALLS) for x in ast.walk(n))


def dump(n):
    if isinstance(n, CALLS):
        if isinstance(n, GlobalCall):
            cf = ENGINE.get_parsed(n.def_id).ty.unitary_flags.value
        elif isinstance(n, LocalCall):
            cf = get_type(n.func).unitary_flags.value
            if has_call(n.func):
                unmodelled.append("call inside the function expression of a LocalCall")
        else:
            cf = n.tensor_ty.unitary_flags.value
        return ["C", cf, [[dump(a), bool(contain_qubit_ty(get_type(a))), tydump(get_type(a))] for a in n.args]]
    if isinstance(n, (BarrierExpr, StateResultExpr)):
        if any(has_call(a) for a in n.args):
            unmodelled.append("call below a barrier/state_result argument")
        return ["X"]
    if isinstance(n, PlaceNode):
        idx, place = [], n.place
        while not isinstance(place, Variable):
            if isinstance(place, SubscriptAccess):
                idx.append(dump(place.item_expr))
            place = place.parent
        return ["P", contains_subscript(n.place) is not None, idx]
    if isinstance(n, (ast.Assign, ast.AnnAssign, ast.AugAssign)):
        targets = n.targets if isinstance(n, ast.Assign) else [n.target]
        return ["A", [dump(t) for t in targets], dump(n.value) if n.value is not None else None]
    return ["G", [dump(c) for c in ast.iter_child_nodes(n)]]


def classify(e):
    err = getattr(e, "error", None)
    name = type(err).__name__ if err is not None else type(e).__name__
    if name == "UnitaryCallError":
        return "call", err.flags.value
    if name == "InvalidUnderDagger":
        return ("loop" if err.things == "Loop" else "assign"), None
    if name == "UnsupportedError" and err.unsupported_in == "dagger context":
        return "subscript", None
    return "other:" + name, None


records = []
_orig = uc.check_cfg_unitary


def wrapped(cfg, unitary_flags):
    rec = {"flags": unitary_flags.value,
           "blocks": [[[dump(s) for s in bb.statements], dump(bb.branch_pred) if bb.branch_pred is not None else None]
                      for bb in cfg.bbs]}
    records.append(rec)
    try:
        _orig(cfg, unitary_flags)
    except GuppyError as e:
        rec["verdict"], rec["missing"] = classify(e)
        raise
    rec["verdict"], rec["missing"] = "accept", None


uc.check_cfg_unitary = wrapped

payload = json.load(sys.stdin)
path = Path("c24_prog.py").resolve()
path.write_text(payload["module"])
spec = importlib.util.spec_from_file_location("c24_prog", path)
mod = importlib.util.module_from_spec(spec)
sys.modules["c24_prog"] = mod
spec.loader.exec_module(mod)

out = {}
for name in payload["funcs"]:
    f = getattr(mod, name)
    records.clear()
    unmodelled.clear()
    r = {}
    try:
        f.check()
        r["verdict"], r["missing"] = "accept", None
    except GuppyError as e:
        r["verdict"], r["missing"] = classify(e)
        if r["verdict"].startswith("other"):
            r["detail"] = repr(getattr(e, "error", e))[:300]
    except Exception as e:  # noqa: BLE001
        r["verdict"], r["missing"], r["detail"] = "crash:" + type(e).__name__, None, str(e)[:300]
    r["calls"] = [dict(x) for x in records]
    r["unmodelled"] = list(unmodelled)
    out[name] = r

meta = {}
import hugr.ops as ops  # noqa: E402

for name in payload.get("compile", []):
    f = getattr(mod, name)
    try:
        pkg = f.compile_function() if hasattr(f, "compile_function") else f.compile()
        h = pkg.modules[0]
        m = {}
        for n, _d in h.nodes():
            op = h[n].op
            if isinstance(op, ops.FuncDefn):
                fname = "__with__" if op.f_name.startswith("__WithBlock__") else op.f_name
                m.setdefault(fname, []).append(h[n].metadata.as_dict().get("unitary"))
        meta[name] = m
    except Exception as e:  # noqa: BLE001
        meta[name] = {"_error": type(e).__name__ + ": " + str(e)[:200]}
out["_meta"] = meta
json.dump(out, sys.stdout)
