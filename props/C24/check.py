"""C24 — unitary contexts reject non-unitary quantum operations.

Tie: T + X.
1. T: tr_unitary.py regenerates coq/C24/GenUnitary.v (the flag test, the visitor, the block
   fields `check` visits, the tables, the dagger pre-check, the decorator/modifier flag
   parsing, the metadata writer) from /repo's current sources; Props.v is re-proved against it.
2. X (model vs implementation, on real checked ASTs): generated @guppy functions (context flags
   x `with` modifiers x callee flags x call position) go through the real `check()`.  Every
   invocation of check_cfg_unitary is recorded (flags, blocks dumped in the model's vocabulary,
   real verdict) and the generated Coq `check_cfg` is evaluated on the same dump (vm_compute).
3. Specification vs implementation (the failing-input search, always run): the verdict of the
   real `check()` is compared with the property's rule computed from the program's
   description alone.
4. X for `metadata_recorded`: the 16 keyword combinations are compiled and the "unitary"
   metadata of the FuncDefn nodes is read back."""
import itertools
import json

import vlib
from vlib import proof_coverage

LEVEL = "proof"

PRELUDE = '''from guppylang import guppy
from guppylang.std.quantum import qubit
from guppylang.std.builtins import array, barrier
from collections.abc import Callable
dagger = object(); control = object(); power = object()
'''
KW = {1: "control", 2: "dagger", 4: "power"}


def kwargs(fl, use_unitary=True):
    if fl == 7 and use_unitary:
        return "(unitary=True)"
    ks = [f"{KW[b]}=True" for b in (1, 2, 4) if fl & b]
    return "(" + ", ".join(ks) + ")" if ks else ""


# argument type shapes: (annotation, carries qubits) — qubits at nesting depth 0..3 and classical look-alikes
SHAPES = [
    ("qubit", True),
    ("array[qubit, 2]", True),
    ("tuple[qubit, qubit]", True),
    ("array[array[qubit, 2], 2]", True),
    ("array[tuple[qubit, qubit], 2]", True),
    ("tuple[array[qubit, 2], int]", True),
    ("tuple[tuple[qubit, int], int]", True),
    ("array[array[array[qubit, 1], 2], 2]", True),
    ("tuple[int, tuple[int, array[qubit, 2]]]", True),
    ("SQ", True),
    ("array[SQ, 2]", True),
    ("tuple[int, SN]", True),
    ("int", False),
    ("array[int, 2]", False),
    ("array[array[int, 2], 2]", False),
    ("tuple[array[int, 2], float]", False),
    ("SC", False),
    ("array[tuple[SC, int], 2]", False),
]
STRUCTS = """
@guppy.struct
class SQ:
    q: qubit
    n: int

@guppy.struct
class SN:
    a: array[SQ, 1]
    x: float

@guppy.struct
class SC:
    a: int
    b: tuple[float, array[int, 2]]
"""


def callee(kind, cf, sh):
    """name of the declared callee of family `kind` with flag set cf whose qubit-ish parameter has shape sh"""
    return f"{kind}{cf}" if sh == 0 else f"{kind}_s{sh}_{cf}"


def prelude(shapes=()):
    out = [PRELUDE, STRUCTS]
    for sh in sorted(set(shapes) - {0}):
        ann = SHAPES[sh][0]
        for cf in range(8):
            k = kwargs(cf)
            out += [f"@guppy.declare{k}\ndef q_s{sh}_{cf}(a: {ann}) -> None: ...",
                    f"@guppy.declare{k}\ndef qi_s{sh}_{cf}(a: {ann}) -> int: ...",
                    f"@guppy.declare{k}\ndef qb_s{sh}_{cf}(a: {ann}) -> bool: ...",
                    f"@guppy.declare{k}\ndef m_s{sh}_{cf}(a: {ann}, n: int) -> None: ...",
                    f"@guppy.declare{k}\ndef m2_s{sh}_{cf}(n: int, a: {ann}) -> None: ..."]
    for cf in range(8):
        k = kwargs(cf)
        out += [f"@guppy.declare{k}\ndef q{cf}(q: qubit) -> None: ...",
                f"@guppy.declare{k}\ndef qi{cf}(q: qubit) -> int: ...",
                f"@guppy.declare{k}\ndef qb{cf}(q: qubit) -> bool: ...",
                f"@guppy.declare{k}\ndef c{cf}(n: int) -> int: ...",
                f"@guppy.declare{k}\ndef m{cf}(q: qubit, n: int) -> None: ...",
                f"@guppy.declare{k}\ndef m2_{cf}(n: int, q: qubit) -> None: ..."]
    return "\n".join(out) + "\n"


# position -> (lines(N, cf), features)   N(kind) = callee name; `r` is the argument of the shape under test,
# `q` a plain qubit.  features: q = passes the shaped argument, loop / assign / sub
POS = {
    "stmt": (lambda N, cf: [f"{N('q')}(r)"], {"q"}),
    "arg_after_qubit": (lambda N, cf: [f"m7(q, {N('qi')}(r))"], {"q"}),
    "arg_before_qubit": (lambda N, cf: [f"m2_7({N('qi')}(r), q)"], {"q"}),
    "arg_of_classical": (lambda N, cf: [f"c0({N('qi')}(r))"], {"q"}),
    "classical_only": (lambda N, cf: [f"c{cf}(n)"], set()),
    "mixed_args": (lambda N, cf: [f"{N('m')}(r, n)"], {"q"}),
    "mixed_args_rev": (lambda N, cf: [f"{N('m2_')}(n, r)".replace("m2__s", "m2_s")], {"q"}),
    "assign_value": (lambda N, cf: [f"x = {N('qi')}(r)"], {"q", "assign"}),
    "if_cond": (lambda N, cf: [f"if {N('qb')}(r):", "    q7(q)"], {"q"}),
    "if_compare": (lambda N, cf: [f"if {N('qi')}(r) > n:", "    q7(q)"], {"q"}),
    "elif_cond": (lambda N, cf: ["if n > 0:", "    q7(q)", f"elif {N('qb')}(r):", "    q7(q)"], {"q"}),
    "and_cond": (lambda N, cf: [f"if n > 0 and {N('qb')}(r):", "    q7(q)"], {"q"}),
    "while_cond": (lambda N, cf: [f"while {N('qb')}(r):", "    q7(q)"], {"q", "loop"}),
    "ifexp_cond": (lambda N, cf: [f"c7(1 if {N('qb')}(r) else 2)"], {"q"}),
    "subscript_read": (lambda N, cf: [f"c7(xs[{N('qi')}(r)])"], {"q", "sub"}),
    "subscript_assign": (lambda N, cf: [f"xs[{N('qi')}(r)] = n"], {"q", "assign", "sub"}),
    "after_barrier": (lambda N, cf: ["barrier(q)", f"{N('q')}(r)"], {"q"}),
    "return_value": (lambda N, cf: [f"return {N('qi')}(r)"], {"q"}),
}
MODS = [None, ("dagger",), ("control",), ("power",), ("dagger", "control"), ("control", "power"),
        ("dagger", "power"), ("dagger", "control", "power"), ("dagger", "dagger")]
MOD_SRC = {"dagger": "dagger", "control": "control(c)", "power": "power(2)"}


def mod_flags(m):
    if not m:
        return 0
    f = 0
    if m.count("dagger") % 2 == 1:
        f |= 2
    if "control" in m:
        f |= 1
    if "power" in m:
        f |= 4
    return f


# calls through a LOCAL FUNCTION VALUE.  loc -> (lines before the (optional) with block, call lines, features,
# number of candidates).  {A}/{B} = the candidate callees q<A>, q<B> (same signature, flag sets A, B).
LOCAL = {
    "local_once": (["f = q{A}"], ["f(r)"], {"assign"}, 1),
    "local_if": (["if n > 0:", "    f = q{A}", "else:", "    f = q{B}"], ["f(r)"], {"assign"}, 2),
    "local_if_default": (["f = q{A}", "if n > 0:", "    f = q{B}"], ["f(r)"], {"assign"}, 2),
    "local_ifexp_call": ([], ["(q{A} if n > 0 else q{B})(r)"], set(), 2),
    "local_ifexp_assign": (["f = q{A} if n > 0 else q{B}"], ["f(r)"], {"assign"}, 2),
    "local_loop": (["f = q{A}", "i = 0", "while i < n:", "    f = q{B}", "    i += 1"], ["f(r)"], {"assign", "loop"}, 2),
    "local_param": ([], ["g(r)"], set(), 0),      # a Callable parameter: its type carries no flags
    "local_tuple": (["fs = (q{A}, q{B})"], ["fs[0](r)", "fs[1](r)"], {"assign"}, 2),
}


def local_cases():
    out = []
    for loc, (_, _, _, ncand) in LOCAL.items():
        pairs = [(a, 0) for a in (0, 1, 5, 7)] if ncand < 2 else [(a, b) for a in (0, 1, 5, 7) for b in (0, 1, 5, 7)]
        if ncand == 0:
            pairs = [(0, 0)]
        for A, B in pairs:
            for F0, M in ((1, None), (5, None), (4, None), (7, None), (0, ("control",)), (4, ("control",)), (0, ("control", "power")), (0, None)):
                out.append({"F0": F0, "M": M, "cf": A, "pos": loc, "loc": True, "B": B})
    return out


def case_name(c):
    if c.get("loc"):
        return "l_%d_%s_%d_%d_%s" % (c["F0"], "none" if c["M"] is None else "".join(x[0] for x in c["M"]), c["cf"], c["B"], c["pos"])
    return "f_%d_%s_%d_%s%s" % (c["F0"], "none" if c["M"] is None else "".join(x[0] for x in c["M"]), c["cf"], c["pos"],
                                "" if not c.get("sh") else "_s%d" % c["sh"])


def case_src(c):
    if c.get("loc"):
        pre, call, _, _ = LOCAL[c["pos"]]
        pre = [l.format(A=c["cf"], B=c["B"]) for l in pre]
        call = [l.format(A=c["cf"], B=c["B"]) for l in call]
        if c["M"] is not None:
            call = ["with " + ", ".join(MOD_SRC[m] for m in c["M"]) + ":"] + ["    " + l for l in call]
        extra = ", g: Callable[[qubit], None]" if c["pos"] == "local_param" else ""
        return (f"@guppy{kwargs(c['F0'])}\n"
                f"def {case_name(c)}(q: qubit, r: qubit, c: qubit, xs: array[int, 4], n: int{extra}) -> None:\n"
                + "\n".join("    " + l for l in pre + call) + "\n")
    lines, _ = POS[c["pos"]]
    sh = c.get("sh", 0)

    def N(kind):
        if kind == "m2_":
            return f"m2_{c['cf']}" if sh == 0 else f"m2__s{sh}_{c['cf']}"
        return callee(kind, c["cf"], sh)
    body = lines(N, c["cf"])
    ret = "int" if c["pos"] == "return_value" else "None"
    if c["M"] is not None:
        body = ["with " + ", ".join(MOD_SRC[m] for m in c["M"]) + ":"] + ["    " + l for l in body]
    return (f"@guppy{kwargs(c['F0'], use_unitary=c['cf'] % 2 == 0)}\n"
            f"def {case_name(c)}(q: qubit, r: {SHAPES[sh][0]}, c: qubit, xs: array[int, 4], n: int) -> {ret}:\n"
            + "\n".join("    " + l for l in body) + "\n")


def expected(c):
    """The property's rule, from the program description alone."""
    if c.get("loc"):
        _, _, feats, ncand = LOCAL[c["pos"]]
        cands = [0] if ncand == 0 else [c["cf"], c["B"]][:ncand]
        ctx = c["F0"] | mod_flags(c["M"])
        # the qubit may reach ANY candidate: accepted only if every candidate has all required flags
        reasons = ["call"] if any(ctx & ~cf & 7 for cf in cands) else []
        if c["F0"] & 2:      # assignments / loops sit at function level (outside the with block)
            reasons += [k for k in ("loop", "assign") if k in feats]
        return reasons
    feats = POS[c["pos"]][1]
    inner = mod_flags(c["M"])
    ctx = c["F0"] | inner
    reasons = []
    if "q" in feats and SHAPES[c.get("sh", 0)][1] and (ctx & ~c["cf"] & 7):
        reasons.append("call")
    if ctx & 2:
        for k in ("loop", "assign", "sub"):
            if k in feats:
                reasons.append(k)
    return reasons


def all_cases():
    out = []
    for F0, M, cf, pos in itertools.product(range(8), MODS, range(8), POS):
        if pos == "return_value" and M is not None:
            continue
        out.append({"F0": F0, "M": M, "cf": cf, "pos": pos})
    return out


def shaped_cases():
    """every argument shape in every call position, over a reduced context grid"""
    out = []
    for sh in range(1, len(SHAPES)):
        for pos in POS:
            if pos == "classical_only":
                continue
            for F0, M, cf in ((1, None, 0), (7, None, 5), (0, ("control",), 2), (4, ("dagger",), 4), (5, None, 7)):
                if pos == "return_value" and M is not None:
                    continue
                out.append({"F0": F0, "M": M, "cf": cf, "pos": pos, "sh": sh})
    return out


def failure_class(c, exp, verdict):
    if c.get("loc"):
        return _failure_class_local(c, exp, verdict)
    return _failure_class(c, exp, verdict)


def _failure_class_local(c, exp, verdict):
    where = "with-body" if c["M"] is not None else "function-body"
    if verdict == "accept":
        same = "same-flags" if c["cf"] == c["B"] or LOCAL[c["pos"]][3] < 2 else "candidates-differ-in-flags"
        return f"accepted-call:{c['pos']}:{where}:{same}" if "call" in exp else f"accepted-under-dagger:{c['pos']}:{where}:{'+'.join(exp)}"
    return f"rejected-valid:{c['pos']}:{where}:{verdict}"


def _failure_class(c, exp, verdict):
    """Identity of a specification disagreement: position + which part of the context the
    implementation ignored (for wrongly accepted calls) or the wrong rejection kind."""
    inner = mod_flags(c["M"])
    if verdict == "accept":
        if "call" in exp:
            miss_outer = (c["F0"] & ~inner & ~c["cf"] & 7) != 0 and (inner & ~c["cf"] & 7) == 0
            where = "with-body" if c["M"] is not None else "function-body"
            src = "flags-of-enclosing-context-only" if (c["M"] is not None and miss_outer) else "context-flags"
            shape = f":arg-type={SHAPES[c['sh']][0]}" if c.get("sh") else ""
            return f"accepted-call:{c['pos']}:{where}:{src}{shape}"
        return f"accepted-under-dagger:{c['pos']}:{'with' if c['M'] is not None else 'function'}:{'+'.join(exp)}"
    shape = f":arg-type={SHAPES[c['sh']][0]}" if c.get("sh") and not (c["pos"] == "ifexp_cond" and verdict == "assign") else ""
    return f"rejected-valid:{c['pos']}:{'with' if c['M'] is not None else 'function'}:{verdict}{shape}"


# ---------------------------------------------------------------------------------- model side
def coq_node(d):
    k = d[0]
    if k == "C":
        return "(NCall %d [%s])" % (d[1], "; ".join("(%s, %s)" % (coq_node(x[0]), "true" if x[1] else "false") for x in d[2]))
    if k == "X":
        return "NExempt"
    if k == "P":
        return "(NPlace %s [%s])" % ("true" if d[1] else "false", "; ".join(coq_node(a) for a in d[2]))
    if k == "A":
        return "(NAssign [%s] %s)" % ("; ".join(coq_node(a) for a in d[1]), "None" if d[2] is None else "(Some %s)" % coq_node(d[2]))
    return "(NGeneric [%s])" % "; ".join(coq_node(a) for a in d[1])


def coq_ty(t):
    if t == "Q":
        return "GQubit"
    if t == "L":
        return "GLeaf"
    a = "[%s]" % "; ".join("None" if x is None else "(Some %s)" % coq_ty(x) for x in t[1])
    if t[0] == "S":
        return "(GStruct %s [%s])" % (a, "; ".join(coq_ty(x) for x in t[2]))
    return "(%s %s)" % ("GOpaque" if t[0] == "O" else "GTuple", a)


def ty_occurs(t):
    """SPECIFICATION side in Python: a qubit occurs anywhere inside the (dumped) type"""
    if t == "Q":
        return True
    if t == "L":
        return False
    return any(x is not None and ty_occurs(x) for x in t[1]) or (t[0] == "S" and any(ty_occurs(x) for x in t[2]))


def arg_types(d, acc):
    """collect (type dump, implementation's contain_qubit_ty answer) of every call argument below a dumped node"""
    if d is None:
        return
    k = d[0]
    if k == "C":
        for x in d[2]:
            acc.append((json.dumps(x[2]), x[1]))
            arg_types(x[0], acc)
    elif k == "P":
        for x in d[2]:
            arg_types(x, acc)
    elif k == "A":
        for x in d[1]:
            arg_types(x, acc)
        arg_types(d[2], acc)
    elif k == "G":
        for x in d[1]:
            arg_types(x, acc)


def coq_call(rec):
    blocks = "; ".join("(mkBlock [%s] %s)" % ("; ".join(coq_node(s) for s in st), "None" if bp is None else "(Some %s)" % coq_node(bp))
                       for st, bp in rec["blocks"])
    return "enc (check_cfg %d [%s])" % (rec["flags"], blocks)


COQ_HEAD = """From Coq Require Import ZArith List Bool String.
From V.C24 Require Import ModelBase GenUnitary.
Import ListNotations. Open Scope Z_scope.
Definition enc (r : option err) : list Z := match r with None => [0] | Some (ECallFlags m) => [1; m]
  | Some EDaggerAssign => [2] | Some EDaggerLoop => [3] | Some EDaggerSubscript => [4] end.
"""


def enc_impl(rec):
    v = rec["verdict"]
    return {"accept": [0], "assign": [2], "loop": [3], "subscript": [4]}.get(v) or ([1, rec["missing"]] if v == "call" else [9])


def generate(ctx):
    import tr_unitary
    text, info = tr_unitary.translate(ctx.repo)
    ctx.gen("GenUnitary.v", text)
    return info


def run(ctx):
    # A fail-closed translator stop is a broken tie, but the search for a concrete failing program
    # against the specification still runs (it does not need the model).
    translator_error = None
    try:
        tinfo = generate(ctx)
        info = ctx.coq_props()
    except vlib.TranslatorError as e:
        translator_error = str(e)
        tinfo = {"translator_error": translator_error}
        names = [f"{f.name}:{n}" for f in sorted(ctx.coqdir.glob("*.v")) for n in vlib.count_theorems(f)]
        info = {"ok": False, "obligations": len(names), "discharged": 0, "axioms": [], "log": translator_error,
                "failed": "translator: " + translator_error[:200], "theorems": names}
    if not info["ok"]:
        info["discharged"] = 0   # every theorem depends on GenUnitary.v; stale .vo files must not count
    r = vlib.rng(ctx.seed, "C24")
    cases = all_cases()
    corpus = json.loads((ctx.dir / "corpus" / "cases.json").read_text())
    if ctx.quick:
        rest = [c for c in cases if c not in corpus]
        # stratified: every position x {function, with} a fixed number of times
        picked = []
        for pos in POS:
            for inwith in (False, True):
                pool = [c for c in rest if c["pos"] == pos and (c["M"] is not None) == inwith]
                picked += r.sample(pool, min(len(pool), 9))
        shaped = shaped_cases()
        for sh in range(1, len(SHAPES)):     # every argument shape, 12 (position, context) combinations each
            pool = [c for c in shaped if c["sh"] == sh and c not in corpus]
            picked += r.sample(pool, min(len(pool), 12))
        loc = local_cases()
        for name in LOCAL:                   # calls through local function values: 16 per kind
            pool = [c for c in loc if c["pos"] == name]
            picked += r.sample(pool, min(len(pool), 16))
        cases = corpus + picked
    else:
        cases = corpus + [c for c in cases if c not in corpus] + [c for c in shaped_cases() if c not in corpus] + local_cases()
    # ---- implementation side, in chunks (one module per chunk)
    results, meta = {}, {}
    chunks = [cases[i:i + 400] for i in range(0, len(cases), 400)]
    meta_src, meta_names = [], []
    for u, c_, d, p in itertools.product([False, True], repeat=4):
        nm = "g_%d%d%d%d" % (u, c_, d, p)
        ks = ", ".join(f"{k}=True" for k, v in (("unitary", u), ("control", c_), ("dagger", d), ("power", p)) if v)
        meta_src.append(f"@guppy{'(' + ks + ')' if ks else ''}\ndef {nm}(q: qubit, c: qubit) -> None:\n    q7(q)\n    with control(c), power(2):\n        q7(q)\n")
        meta_names.append((nm, (u, c_, d, p)))
    for i, ch in enumerate(chunks):
        module = prelude({c.get("sh", 0) for c in ch}) + "\n".join(case_src(c) for c in ch) + ("\n" + "\n".join(meta_src) if i == 0 else "")
        out = json.loads(ctx.impl("impl_unitary.py", {"module": module, "funcs": [case_name(c) for c in ch],
                                                      "compile": [n for n, _ in meta_names] if i == 0 else []}))
        meta.update(out.pop("_meta"))
        results.update(out)
    # ---- X: model vs implementation on every recorded check_cfg_unitary invocation
    recs = []
    for c in cases:
        for k, rec in enumerate(results[case_name(c)]["calls"]):
            recs.append((c, k, rec))
    model = None
    have_gen = translator_error is None and (vlib.COQ / "C24" / "GenUnitary.vo").exists()
    if have_gen:
        files = {}
        for i in range(0, len(recs), 400):
            files[f"cases{i // 400}"] = COQ_HEAD + "Definition cases : list (list Z) := [\n" + ";\n".join(coq_call(x[2]) for x in recs[i:i + 400]) + "].\nEval vm_compute in cases.\n"
        try:
            outs = ctx.coq_eval_many(files)
            model = []
            for i in range(len(files)):
                model += vlib.parse_coq_values(outs[f"cases{i}"])[0]
        except RuntimeError as e:
            ctx.notes.append(f"model evaluation failed: {e}")
            model = None
    mismatches = 0
    if model is not None and len(model) == len(recs):
        for (c, k, rec), m in zip(recs, model):
            if enc_impl(rec) != m:
                mismatches += 1
                if mismatches <= 3:
                    ctx.report(f"model-mismatch:{case_name(c)}:{k}", "correspondence", "generated check_cfg vs real check_cfg_unitary",
                               {"program": case_src(c), "invocation": k, "flags": rec["flags"], "blocks": rec["blocks"],
                                "implementation": enc_impl(rec), "model": m,
                                "encoding": "[0]=accept [1,m]=UnitaryCallError(missing m) [2]=assignment [3]=loop [4]=subscript under dagger",
                                "meaning": "the Coq checker generated from unitary_checker.py and the real one disagree on the same checked AST"})
    elif have_gen:
        ctx.notes.append("model side produced %s results for %d invocations" % (None if model is None else len(model), len(recs)))
    # ---- contain_qubit_ty: implementation vs structural specification vs generated Coq contains_qubit,
    #      on the real types of every call argument seen
    seen = {}
    for c, k, rec in recs:
        acc = []
        for st, bp in rec["blocks"]:
            for x in st:
                arg_types(x, acc)
            arg_types(bp, acc)
        for t, q in acc:
            seen.setdefault(t, (q, c))
    types = sorted(seen)
    ty_model = None
    if have_gen and types:
        try:
            out = ctx.coq_eval("types", COQ_HEAD + "Definition tys := [\n" + ";\n".join("(if contains_qubit %s then 1 else 0)" % coq_ty(json.loads(t)) for t in types)
                               + "].\nEval vm_compute in tys.\n")
            ty_model = vlib.parse_coq_values(out)[0]
        except Exception as e:  # noqa: BLE001
            ctx.notes.append(f"contains_qubit evaluation failed: {str(e)[:300]}")
    ty_bad = 0
    for i, t in enumerate(types):
        q, c = seen[t]
        want = ty_occurs(json.loads(t))
        got_model = None if ty_model is None else bool(ty_model[i])
        if q != want or (got_model is not None and got_model != q):
            ty_bad += 1
            if ty_bad <= 3:
                ctx.report(f"contain_qubit_ty:{t}", "counterexample" if q != want else "correspondence",
                           "contain_qubit_ty on the type of a call argument",
                           {"type": json.loads(t), "encoding": "Q qubit, L leaf, [O|T, args] opaque/tuple, [S, args, fields] struct",
                            "qubit_occurs_structurally": want, "contain_qubit_ty": q, "generated_coq_contains_qubit": got_model,
                            "program_using_it": case_src(c)})
    unmodelled = sorted({u for c in cases for u in results[case_name(c)]["unmodelled"]})
    # ---- specification vs implementation
    by_class, other, agree = {}, {}, 0
    for c in cases:
        res = results[case_name(c)]
        v = res["verdict"]
        exp = expected(c)
        if v.startswith(("other", "crash")):
            other.setdefault(v, []).append(case_name(c))
            continue
        ok = (v == "accept") == (not exp) and (v == "accept" or v in exp or (v == "subscript" and "sub" in exp))
        if ok:
            agree += 1
        else:
            by_class.setdefault(failure_class(c, exp, v), []).append((c, exp, v, res.get("missing")))
    new_classes = [k for k in sorted(by_class) if ctx.is_known(k) is None]
    for cls, items in sorted(by_class.items()):
        if ctx.is_known(cls) is None and new_classes.index(cls) >= 15:
            continue          # more classes of the same run: listed in the evidence (spec_disagreement_classes)
        c, exp, v, miss = items[0]
        ctx.report(cls, "counterexample",
                   "real check() disagrees with the unitary-context rule" + ("" if info["ok"] else f" (proofs broken at {info['failed']})"),
                   {"program": PRELUDE + "... declarations q<k>/qi<k>/qb<k>/c<k>/m<k>/m2_<k> carry flag set k (1=control 2=dagger 4=power) ...\n" + case_src(c),
                    "context_flags": {"function": c["F0"], "with_modifiers": c["M"], "required": c["F0"] | mod_flags(c["M"])},
                    "callee_flags": c["cf"], "expected": "reject: " + "+".join(exp) if exp else "accept", "observed": v,
                    "observed_missing": miss, "same_class_cases_in_this_run": len(items),
                    "replay": "write the program (with the declarations from props/C24/check.py:prelude()) to a file, then: "
                              "PYTHONPATH=/verif/tools:$REPO/guppylang/src:$REPO/guppylang-internals/src /venv/bin/python -c "
                              "'import repo_shim, guppylang; guppylang.enable_experimental_features(); import prog; prog.%s.check()'" % case_name(c)})
    if not info["ok"] and not ctx.violations:   # known findings do not explain a broken proof
        ctx.report(("translator:" + translator_error) if translator_error else "proof-broken:" + str(info["failed"]), "proof-broken", str(info["failed"]),
                   {"coq_error": vlib.CoqResult(False, info["log"]).error_excerpt(), "searched_cases": len(cases),
                    "translator_reading": {k: str(v) for k, v in tinfo.items()}}, found_input=False)
    # ---- metadata
    meta_bad = 0
    for nm, (u, c_, d, p) in meta_names:
        want = (1 if (u or c_) else 0) | (2 if (u or d) else 0) | (4 if (u or p) else 0)
        got = meta.get(nm, {})
        if got.get(nm) != [want] or got.get("__with__") != [5]:
            # a dagger context forbids nothing here (no loops / assignments), so every combination must compile
            meta_bad += 1
            if meta_bad <= 2:
                ctx.report(f"metadata:{nm}", "counterexample", "unitary metadata of compiled FuncDefn nodes",
                           {"kwargs": {"unitary": u, "control": c_, "dagger": d, "power": p}, "expected": {nm: [want], "__with__": [5]}, "observed": got})
    dist = {}
    for c in cases:
        dist[c["pos"]] = dist.get(c["pos"], 0) + 1
    verdicts = {}
    for c in cases:
        v = results[case_name(c)]["verdict"]
        verdicts[v] = verdicts.get(v, 0) + 1
    nontrivial = len({case_name(c) for c in cases if results[case_name(c)]["verdict"] != "accept" and not results[case_name(c)]["verdict"].startswith(("other", "crash"))})
    cov = proof_coverage(
        info, "make C24/Props.vo && coqc C24/Props.v (Print Assumptions)",
        ["Coq 8.16.1 kernel; vm_compute for the finite lattice facts",
         "props/C24/tr_unitary.py: shape-matching reading of unitary_checker.py (ast.NodeVisitor dispatch = visit_<ClassName>, generic_visit visits every AST-valued field, enum.Flag `in` = (a & b) == a, `~` = complement within defined bits)",
         "props/C24/impl_unitary.py dumper (checked AST -> model nodes) and tools/repo_shim.py",
         "not modelled: arguments of barrier/state_result, the function expression of a LocalCall, comptime (traced) functions, which never reach check_cfg_unitary"],
        evaluations=len(cases) + len(recs) + len(meta_names), distinct_nontrivial=nontrivial,
        rule="cases = @guppy functions over function flags(8) x with-modifiers(9) x callee flags(8) x call position(%d), plus 17 further argument type shapes (qubits at nesting depth 1-3 in arrays/tuples/structs and classical look-alikes) x every call position x 5 contexts; quick = corpus + stratified sample (14 per position x {function, with}), thorough = the whole product; non-trivial = the real check() rejected the program with a unitary/dagger error" % len(POS),
        exhaustive=not ctx.quick,
        traces_validated_against_impl=len(recs) if model is not None else 0, model_impl_mismatches=mismatches,
        programs=len(cases), spec_agreements=agree, spec_disagreement_classes={k: len(v) for k, v in by_class.items()},
        excluded_other_errors={k: len(v) for k, v in other.items()}, unmodelled_constructs_seen=unmodelled,
        positions=dist, verdicts=verdicts, argument_types_seen=len(types), argument_type_disagreements=ty_bad,
        argument_shapes={SHAPES[k][0]: sum(1 for c in cases if c.get("sh", 0) == k) for k in range(len(SHAPES))}, metadata_programs=len(meta_names), metadata_disagreements=meta_bad,
        translator_reading={k: str(v) for k, v in tinfo.items()},
        samples=[{"program": case_src(cases[j]), "expected": expected(cases[j]), "observed": results[case_name(cases[j])]["verdict"],
                  "check_cfg_unitary_invocations": results[case_name(cases[j])]["calls"][:2]} for j in (0, len(cases) // 3, len(cases) - 1)],
        notes=ctx.notes)
    return ctx.finish(LEVEL, cov, ["the checked AST reaches the unitary checker as dumped (dump taken at the check_cfg_unitary call boundary)",
                                   "Python enum.Flag and ast.NodeVisitor semantics as read by the translator",
                                   "callee flag sets and context flag sets lie in the generated 3-bit lattice"])
