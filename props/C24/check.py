"""C24 — unitary contexts reject non-unitary quantum operations.

Tie: T + X.
1. T: tr_unitary.py regenerates coq/C24/GenUnitary.v (the flag test, the visitor, the block
   fields `check` visits, the tables, the dagger pre-check, the decorator/modifier flag
   parsing, the metadata writer) from /repo's current sources; Props.v is re-proved against it.
2. X (model vs implementation, on real checked ASTs): generated @guppy functions (context flags
   x `with` modifiers x callee flags x call position) go through the real `check()`.  Every
   invocation of check_cfg_unitary is recorded (flags, blocks dumped in the model's vocabulary,
   real verdict) and the generated Coq `check_cfg` is evaluated on the same dump (vm_compute).
3. Specification vs implementation (the failing-input search, always run): the verdict of the
   real `check()` is compared with the property's rule computed from the program's
   description alone.
4. X for `metadata_recorded`: the 16 keyword combinations are compiled and the "unitary"
   metadata of the FuncDefn nodes is read back."""
import itertools
import json

import vlib
from vlib import proof_coverage

LEVEL = "proof"

PRELUDE = '''from guppylang import guppy
from guppylang.std.quantum import qubit
from guppylang.std.builtins import array, barrier
dagger = object(); control = object(); power = object()
'''
KW = {1: "control", 2: "dagger", 4: "power"}


def kwargs(fl, use_unitary=True):
    if fl == 7 and use_unitary:
        return "(unitary=True)"
    ks = [f"{KW[b]}=True" for b in (1, 2, 4) if fl & b]
    return "(" + ", ".join(ks) + ")" if ks else ""


def prelude():
    out = [PRELUDE]
    for cf in range(8):
        k = kwargs(cf)
        out += [f"@guppy.declare{k}\ndef q{cf}(q: qubit) -> None: ...",
                f"@guppy.declare{k}\ndef qi{cf}(q: qubit) -> int: ...",
                f"@guppy.declare{k}\ndef qb{cf}(q: qubit) -> bool: ...",
                f"@guppy.declare{k}\ndef c{cf}(n: int) -> int: ...",
                f"@guppy.declare{k}\ndef m{cf}(q: qubit, n: int) -> None: ...",
                f"@guppy.declare{k}\ndef m2_{cf}(n: int, q: qubit) -> None: ..."]
    return "\n".join(out) + "\n"


# position -> (lines(cf), features)     features: q = passes a qubit, loop / assign / sub
POS = {
    "stmt": (lambda cf: [f"q{cf}(q)"], {"q"}),
    "arg_after_qubit": (lambda cf: [f"m7(q, qi{cf}(r))"], {"q"}),
    "arg_before_qubit": (lambda cf: [f"m2_7(qi{cf}(r), q)"], {"q"}),
    "arg_of_classical": (lambda cf: [f"c0(qi{cf}(r))"], {"q"}),
    "classical_only": (lambda cf: [f"c{cf}(n)"], set()),
    "mixed_args": (lambda cf: [f"m{cf}(q, n)"], {"q"}),
    "assign_value": (lambda cf: [f"x = qi{cf}(r)"], {"q", "assign"}),
    "if_cond": (lambda cf: [f"if qb{cf}(r):", "    q7(q)"], {"q"}),
    "if_compare": (lambda cf: [f"if qi{cf}(r) > n:", "    q7(q)"], {"q"}),
    "elif_cond": (lambda cf: ["if n > 0:", "    q7(q)", f"elif qb{cf}(r):", "    q7(r)"], {"q"}),
    "and_cond": (lambda cf: [f"if n > 0 and qb{cf}(r):", "    q7(q)"], {"q"}),
    "while_cond": (lambda cf: [f"while qb{cf}(r):", "    q7(q)"], {"q", "loop"}),
    "ifexp_cond": (lambda cf: [f"c7(1 if qb{cf}(r) else 2)"], {"q"}),
    "subscript_read": (lambda cf: [f"c7(xs[qi{cf}(r)])"], {"q", "sub"}),
    "subscript_assign": (lambda cf: [f"xs[qi{cf}(r)] = n"], {"q", "assign", "sub"}),
    "after_barrier": (lambda cf: ["barrier(q, r)", f"q{cf}(q)"], {"q"}),
    "return_value": (lambda cf: [f"return qi{cf}(r)"], {"q"}),
}
MODS = [None, ("dagger",), ("control",), ("power",), ("dagger", "control"), ("control", "power"),
        ("dagger", "power"), ("dagger", "control", "power"), ("dagger", "dagger")]
MOD_SRC = {"dagger": "dagger", "control": "control(c)", "power": "power(2)"}


def mod_flags(m):
    if not m:
        return 0
    f = 0
    if m.count("dagger") % 2 == 1:
        f |= 2
    if "control" in m:
        f |= 1
    if "power" in m:
        f |= 4
    return f


def case_name(c):
    return "f_%d_%s_%d_%s" % (c["F0"], "none" if c["M"] is None else "".join(x[0] for x in c["M"]), c["cf"], c["pos"])


def case_src(c):
    lines, _ = POS[c["pos"]]
    body = lines(c["cf"])
    ret = "int" if c["pos"] == "return_value" else "None"
    if c["M"] is not None:
        body = ["with " + ", ".join(MOD_SRC[m] for m in c["M"]) + ":"] + ["    " + l for l in body]
    return (f"@guppy{kwargs(c['F0'], use_unitary=c['cf'] % 2 == 0)}\n"
            f"def {case_name(c)}(q: qubit, r: qubit, c: qubit, xs: array[int, 4], n: int) -> {ret}:\n"
            + "\n".join("    " + l for l in body) + "\n")


def expected(c):
    """The property's rule, from the program description alone."""
    feats = POS[c["pos"]][1]
    inner = mod_flags(c["M"])
    ctx = c["F0"] | inner
    reasons = []
    if "q" in feats and (ctx & ~c["cf"] & 7):
        reasons.append("call")
    if ctx & 2:
        for k in ("loop", "assign", "sub"):
            if k in feats:
                reasons.append(k)
    return reasons


def all_cases():
    out = []
    for F0, M, cf, pos in itertools.product(range(8), MODS, range(8), POS):
        if pos == "return_value" and M is not None:
            continue
        out.append({"F0": F0, "M": M, "cf": cf, "pos": pos})
    return out


def failure_class(c, exp, verdict):
    """Identity of a specification disagreement: position + which part of the context the
    implementation ignored (for wrongly accepted calls) or the wrong rejection kind."""
    inner = mod_flags(c["M"])
    if verdict == "accept":
        if "call" in exp:
            miss_outer = (c["F0"] & ~inner & ~c["cf"] & 7) != 0 and (inner & ~c["cf"] & 7) == 0
            where = "with-body" if c["M"] is not None else "function-body"
            src = "flags-of-enclosing-context-only" if (c["M"] is not None and miss_outer) else "context-flags"
            return f"accepted-call:{c['pos']}:{where}:{src}"
        return f"accepted-under-dagger:{c['pos']}:{'with' if c['M'] is not None else 'function'}:{'+'.join(exp)}"
    return f"rejected-valid:{c['pos']}:{'with' if c['M'] is not None else 'function'}:{verdict}"


# ---------------------------------------------------------------------------------- model side
def coq_node(d):
    k = d[0]
    if k == "C":
        return "(NCall %d [%s])" % (d[1], "; ".join("(%s, %s)" % (coq_node(a), "true" if q else "false") for a, q in d[2]))
    if k == "X":
        return "NExempt"
    if k == "P":
        return "(NPlace %s [%s])" % ("true" if d[1] else "false", "; ".join(coq_node(a) for a in d[2]))
    if k == "A":
        return "(NAssign [%s] %s)" % ("; ".join(coq_node(a) for a in d[1]), "None" if d[2] is None else "(Some %s)" % coq_node(d[2]))
    return "(NGeneric [%s])" % "; ".join(coq_node(a) for a in d[1])


def coq_call(rec):
    blocks = "; ".join("(mkBlock [%s] %s)" % ("; ".join(coq_node(s) for s in st), "None" if bp is None else "(Some %s)" % coq_node(bp))
                       for st, bp in rec["blocks"])
    return "enc (check_cfg %d [%s])" % (rec["flags"], blocks)


COQ_HEAD = """From Coq Require Import ZArith List Bool String.
From V.C24 Require Import ModelBase GenUnitary.
Import ListNotations. Open Scope Z_scope.
Definition enc (r : option err) : list Z := match r with None => [0] | Some (ECallFlags m) => [1; m]
  | Some EDaggerAssign => [2] | Some EDaggerLoop => [3] | Some EDaggerSubscript => [4] end.
"""


def enc_impl(rec):
    v = rec["verdict"]
    return {"accept": [0], "assign": [2], "loop": [3], "subscript": [4]}.get(v) or ([1, rec["missing"]] if v == "call" else [9])


def generate(ctx):
    import tr_unitary
    text, info = tr_unitary.translate(ctx.repo)
    ctx.gen("GenUnitary.v", text)
    return info


def run(ctx):
    tinfo = generate(ctx)
    info = ctx.coq_props()
    if not info["ok"]:
        info["discharged"] = 0   # every theorem depends on GenUnitary.v; stale .vo files must not count
    r = vlib.rng(ctx.seed, "C24")
    cases = all_cases()
    corpus = json.loads((ctx.dir / "corpus" / "cases.json").read_text())
    if ctx.quick:
        rest = [c for c in cases if c not in corpus]
        # stratified: every position x {function, with} a fixed number of times
        picked = []
        for pos in POS:
            for inwith in (False, True):
                pool = [c for c in rest if c["pos"] == pos and (c["M"] is not None) == inwith]
                picked += r.sample(pool, min(len(pool), 14))
        cases = corpus + picked
    else:
        cases = corpus + [c for c in cases if c not in corpus]
    # ---- implementation side, in chunks (one module per chunk)
    results, meta = {}, {}
    chunks = [cases[i:i + 400] for i in range(0, len(cases), 400)]
    meta_src, meta_names = [], []
    for u, c_, d, p in itertools.product([False, True], repeat=4):
        nm = "g_%d%d%d%d" % (u, c_, d, p)
        ks = ", ".join(f"{k}=True" for k, v in (("unitary", u), ("control", c_), ("dagger", d), ("power", p)) if v)
        meta_src.append(f"@guppy{'(' + ks + ')' if ks else ''}\ndef {nm}(q: qubit, c: qubit) -> None:\n    q7(q)\n    with control(c), power(2):\n        q7(q)\n")
        meta_names.append((nm, (u, c_, d, p)))
    for i, ch in enumerate(chunks):
        module = prelude() + "\n".join(case_src(c) for c in ch) + ("\n" + "\n".join(meta_src) if i == 0 else "")
        out = json.loads(ctx.impl("impl_unitary.py", {"module": module, "funcs": [case_name(c) for c in ch],
                                                      "compile": [n for n, _ in meta_names] if i == 0 else []}))
        meta.update(out.pop("_meta"))
        results.update(out)
    # ---- X: model vs implementation on every recorded check_cfg_unitary invocation
    recs = []
    for c in cases:
        for k, rec in enumerate(results[case_name(c)]["calls"]):
            recs.append((c, k, rec))
    model = None
    have_gen = (vlib.COQ / "C24" / "GenUnitary.vo").exists()
    if have_gen:
        files = {}
        for i in range(0, len(recs), 400):
            files[f"cases{i // 400}"] = COQ_HEAD + "Definition cases : list (list Z) := [\n" + ";\n".join(coq_call(x[2]) for x in recs[i:i + 400]) + "].\nEval vm_compute in cases.\n"
        try:
            outs = ctx.coq_eval_many(files)
            model = []
            for i in range(len(files)):
                model += vlib.parse_coq_values(outs[f"cases{i}"])[0]
        except RuntimeError as e:
            ctx.notes.append(f"model evaluation failed: {e}")
            model = None
    mismatches = 0
    if model is not None and len(model) == len(recs):
        for (c, k, rec), m in zip(recs, model):
            if enc_impl(rec) != m:
                mismatches += 1
                if mismatches <= 3:
                    ctx.report(f"model-mismatch:{case_name(c)}:{k}", "correspondence", "generated check_cfg vs real check_cfg_unitary",
                               {"program": case_src(c), "invocation": k, "flags": rec["flags"], "blocks": rec["blocks"],
                                "implementation": enc_impl(rec), "model": m,
                                "encoding": "[0]=accept [1,m]=UnitaryCallError(missing m) [2]=assignment [3]=loop [4]=subscript under dagger",
                                "meaning": "the Coq checker generated from unitary_checker.py and the real one disagree on the same checked AST"})
    elif have_gen:
        ctx.notes.append("model side produced %s results for %d invocations" % (None if model is None else len(model), len(recs)))
    unmodelled = sorted({u for c in cases for u in results[case_name(c)]["unmodelled"]})
    # ---- specification vs implementation
    by_class, other, agree = {}, {}, 0
    for c in cases:
        res = results[case_name(c)]
        v = res["verdict"]
        exp = expected(c)
        if v.startswith(("other", "crash")):
            other.setdefault(v, []).append(case_name(c))
            continue
        ok = (v == "accept") == (not exp) and (v == "accept" or v in exp or (v == "subscript" and "sub" in exp))
        if ok:
            agree += 1
        else:
            by_class.setdefault(failure_class(c, exp, v), []).append((c, exp, v, res.get("missing")))
    for cls, items in sorted(by_class.items()):
        c, exp, v, miss = items[0]
        ctx.report(cls, "counterexample",
                   "real check() disagrees with the unitary-context rule" + ("" if info["ok"] else f" (proofs broken at {info['failed']})"),
                   {"program": PRELUDE + "... declarations q<k>/qi<k>/qb<k>/c<k>/m<k>/m2_<k> carry flag set k (1=control 2=dagger 4=power) ...\n" + case_src(c),
                    "context_flags": {"function": c["F0"], "with_modifiers": c["M"], "required": c["F0"] | mod_flags(c["M"])},
                    "callee_flags": c["cf"], "expected": "reject: " + "+".join(exp) if exp else "accept", "observed": v,
                    "observed_missing": miss, "same_class_cases_in_this_run": len(items),
                    "replay": "write the program (with the declarations from props/C24/check.py:prelude()) to a file, then: "
                              "PYTHONPATH=/verif/tools:$REPO/guppylang/src:$REPO/guppylang-internals/src /venv/bin/python -c "
                              "'import repo_shim, guppylang; guppylang.enable_experimental_features(); import prog; prog.%s.check()'" % case_name(c)})
    if not info["ok"] and not ctx.violations:   # known findings do not explain a broken proof
        ctx.report("proof-broken:" + str(info["failed"]), "proof-broken", str(info["failed"]),
                   {"coq_error": vlib.CoqResult(False, info["log"]).error_excerpt(), "searched_cases": len(cases),
                    "translator_reading": {k: str(v) for k, v in tinfo.items()}}, found_input=False)
    # ---- metadata
    meta_bad = 0
    for nm, (u, c_, d, p) in meta_names:
        want = (1 if (u or c_) else 0) | (2 if (u or d) else 0) | (4 if (u or p) else 0)
        got = meta.get(nm, {})
        if got.get(nm) != [want] or got.get("__with__") != [5]:
            # a dagger context forbids nothing here (no loops / assignments), so every combination must compile
            meta_bad += 1
            if meta_bad <= 2:
                ctx.report(f"metadata:{nm}", "counterexample", "unitary metadata of compiled FuncDefn nodes",
                           {"kwargs": {"unitary": u, "control": c_, "dagger": d, "power": p}, "expected": {nm: [want], "__with__": [5]}, "observed": got})
    dist = {}
    for c in cases:
        dist[c["pos"]] = dist.get(c["pos"], 0) + 1
    verdicts = {}
    for c in cases:
        v = results[case_name(c)]["verdict"]
        verdicts[v] = verdicts.get(v, 0) + 1
    nontrivial = len({case_name(c) for c in cases if results[case_name(c)]["verdict"] != "accept" and not results[case_name(c)]["verdict"].startswith(("other", "crash"))})
    cov = proof_coverage(
        info, "make C24/Props.vo && coqc C24/Props.v (Print Assumptions)",
        ["Coq 8.16.1 kernel; vm_compute for the finite lattice facts",
         "props/C24/tr_unitary.py: shape-matching reading of unitary_checker.py (ast.NodeVisitor dispatch = visit_<ClassName>, generic_visit visits every AST-valued field, enum.Flag `in` = (a & b) == a, `~` = complement within defined bits)",
         "props/C24/impl_unitary.py dumper (checked AST -> model nodes) and tools/repo_shim.py",
         "not modelled: arguments of barrier/state_result, the function expression of a LocalCall, comptime (traced) functions, which never reach check_cfg_unitary"],
        evaluations=len(cases) + len(recs) + len(meta_names), distinct_nontrivial=nontrivial,
        rule="cases = @guppy functions over function flags(8) x with-modifiers(9) x callee flags(8) x call position(%d); quick = corpus + stratified sample (14 per position x {function, with}), thorough = the whole product; non-trivial = the real check() rejected the program with a unitary/dagger error" % len(POS),
        exhaustive=not ctx.quick,
        traces_validated_against_impl=len(recs) if model is not None else 0, model_impl_mismatches=mismatches,
        programs=len(cases), spec_agreements=agree, spec_disagreement_classes={k: len(v) for k, v in by_class.items()},
        excluded_other_errors={k: len(v) for k, v in other.items()}, unmodelled_constructs_seen=unmodelled,
        positions=dist, verdicts=verdicts, metadata_programs=len(meta_names), metadata_disagreements=meta_bad,
        translator_reading={k: str(v) for k, v in tinfo.items()},
        samples=[{"program": case_src(cases[j]), "expected": expected(cases[j]), "observed": results[case_name(cases[j])]["verdict"],
                  "check_cfg_unitary_invocations": results[case_name(cases[j])]["calls"][:2]} for j in (0, len(cases) // 3, len(cases) - 1)],
        notes=ctx.notes)
    return ctx.finish(LEVEL, cov, ["the checked AST reaches the unitary checker as dumped (dump taken at the check_cfg_unitary call boundary)",
                                   "Python enum.Flag and ast.NodeVisitor semantics as read by the translator",
                                   "callee flag sets and context flag sets lie in the generated 3-bit lattice"])
