"""Fail-closed translator: guppylang/std/array.py -> coq/C19/GenIter.v.

Reads (Python `ast`, nothing is executed):
  * the type variables `T`, `L` (copyable / droppable flags),
  * the custom-compiler class bound to array.__getitem__, __setitem__, copy, _array_unsafe_getitem,
    _array_discard_all_used (decorator `@custom_function(<Compiler>(), ...)`),
  * struct ArrayIter (fields xs, i) and the body of ArrayIter.__next__,
  * array.__iter__ (start index) and array.__len__.
and emits Gallina definitions over the model of Array.v.  Reading of Guppy semantics that is
trusted: `a < b` on int is the signed comparison, `a + b` wraps (int_add), `int(n)` is the signed
reading of the length, a call to a custom function whose first parameter is not `@ owned` hands
the (possibly updated) argument back to the caller's place (`self.xs`)."""
import ast

from vlib import TranslatorError

KNOWN_CALLS = {
    # (compiler class, element type variable is linear) -> model function, arity incl. array
    ("ArrayGetitemCompiler", True): "call_getitem_linear",
    ("ArrayDiscardAllUsedCompiler", True): "call_discard_all_used",
}


def fail(msg, node=None):
    where = f" (line {node.lineno})" if node is not None and hasattr(node, "lineno") else ""
    raise TranslatorError("std/array.py: " + msg + where)


def deco_compiler(fn):
    """name of the compiler class in `@custom_function(X(), ...)`"""
    for d in fn.decorator_list:
        if isinstance(d, ast.Call) and isinstance(d.func, ast.Name) and d.func.id == "custom_function":
            if d.args and isinstance(d.args[0], ast.Call) and isinstance(d.args[0].func, ast.Name) and not d.args[0].args:
                return d.args[0].func.id
            fail("custom_function decorator of unknown shape", d)
    return None


def is_guppy(fn):
    return any(isinstance(d, ast.Name) and d.id == "guppy" for d in fn.decorator_list)


def ann_array_elem(ann):
    """`array[X, n]` or `array[X, n] @ owned` -> (X, owned)"""
    owned = False
    if isinstance(ann, ast.BinOp) and isinstance(ann.op, ast.MatMult):
        if not (isinstance(ann.right, ast.Name) and ann.right.id == "owned"):
            fail("unknown parameter flag", ann)
        owned, ann = True, ann.left
    if isinstance(ann, ast.Subscript) and isinstance(ann.value, ast.Name) and ann.value.id in ("array", "ArrayIter") \
            and isinstance(ann.slice, ast.Tuple) and len(ann.slice.elts) == 2 \
            and all(isinstance(e, ast.Name) for e in ann.slice.elts) and ann.slice.elts[1].id == "n":
        return ann.value.id, ann.slice.elts[0].id, owned
    fail("unknown parameter annotation " + ast.unparse(ann), ann)


def translate(path):
    mod = ast.parse(path.read_text())
    tvars, funcs, classes = {}, {}, {}
    for node in mod.body:
        if isinstance(node, ast.Assign) and len(node.targets) == 1 and isinstance(node.targets[0], ast.Name) \
                and isinstance(node.value, ast.Call) and isinstance(node.value.func, ast.Attribute) \
                and node.value.func.attr == "type_var":
            kw = {k.arg: k.value for k in node.value.keywords}
            for k, v in kw.items():
                if k not in ("copyable", "droppable") or not isinstance(v, ast.Constant) or not isinstance(v.value, bool):
                    fail("type_var with unknown keyword", node)
            tvars[node.targets[0].id] = {"copyable": kw["copyable"].value if "copyable" in kw else True,
                                         "droppable": kw["droppable"].value if "droppable" in kw else True}
        elif isinstance(node, ast.FunctionDef):
            funcs[node.name] = node
        elif isinstance(node, ast.ClassDef):
            classes[node.name] = node
    for need in ("array", "ArrayIter"):
        if need not in classes:
            fail(f"class {need} not found")
    arr_methods = {s.name: s for s in classes["array"].body if isinstance(s, ast.FunctionDef) and (deco_compiler(s) or is_guppy(s))}
    it_cls = classes["ArrayIter"]
    fields = [(s.target.id, ast.unparse(s.annotation)) for s in it_cls.body if isinstance(s, ast.AnnAssign)]
    if fields != [("xs", "array[L, n]"), ("i", "int")]:
        fail(f"ArrayIter fields are {fields}, expected xs: array[L, n], i: int")
    it_methods = {s.name: s for s in it_cls.body if isinstance(s, ast.FunctionDef)}
    if "__next__" not in it_methods or not is_guppy(it_methods["__next__"]):
        fail("ArrayIter.__next__ is not a @guppy method")

    def linear(tv, node):
        if tv not in tvars:
            fail(f"unknown element type variable {tv}", node)
        return not tvars[tv]["copyable"]

    bindings = {}
    for name in ("__getitem__", "__setitem__", "copy"):
        if name not in arr_methods or deco_compiler(arr_methods[name]) is None:
            fail(f"array.{name} has no custom compiler")
        bindings[name] = deco_compiler(arr_methods[name])
    # declared signatures of the two subscript methods: (self: array[L, n], idx: int[, value: L @ owned])
    for name, nargs in (("__getitem__", 2), ("__setitem__", 3)):
        a = arr_methods[name].args.args
        if len(a) != nargs or ast.unparse(a[1].annotation) != "int":
            fail(f"array.{name}: unexpected parameters")
        _, tv, owned = ann_array_elem(a[0].annotation)
        if owned:
            fail(f"array.{name} takes the array @owned")

    # ---- expressions of type int / bool over the fields of self
    def expr(e):
        if isinstance(e, ast.Attribute) and isinstance(e.value, ast.Name) and e.value.id == "self" and e.attr == "i":
            return "i"
        if isinstance(e, ast.Call) and isinstance(e.func, ast.Name) and e.func.id == "int" and len(e.args) == 1 \
                and isinstance(e.args[0], ast.Name) and e.args[0].id == "n" and not e.keywords:
            return "(nat_to_int n)"
        if isinstance(e, ast.Constant) and isinstance(e.value, int) and not isinstance(e.value, bool):
            return f"({e.value})"
        if isinstance(e, ast.BinOp) and isinstance(e.op, ast.Add):
            return f"(int_add {expr(e.left)} {expr(e.right)})"
        if isinstance(e, ast.Compare) and len(e.ops) == 1 and isinstance(e.ops[0], ast.Lt):
            return f"(int_lt {expr(e.left)} {expr(e.comparators[0])})"
        fail("expression outside the translated subset: " + ast.unparse(e), e)

    def is_self_xs(e):
        return isinstance(e, ast.Attribute) and isinstance(e.value, ast.Name) and e.value.id == "self" and e.attr == "xs"

    def custom_call(call):
        """f(self.xs, args...) for a module-level custom function -> (model fn, extra arg exprs, owned)"""
        if not (isinstance(call, ast.Call) and isinstance(call.func, ast.Name) and call.func.id in funcs and not call.keywords):
            fail("call outside the translated subset: " + ast.unparse(call), call)
        fn = funcs[call.func.id]
        comp = deco_compiler(fn)
        if comp is None:
            fail(f"{fn.name} has no custom compiler", fn)
        if not call.args or not is_self_xs(call.args[0]) or len(call.args) != len(fn.args.args):
            fail("custom call must take self.xs first: " + ast.unparse(call), call)
        _, tv, owned = ann_array_elem(fn.args.args[0].annotation)
        key = (comp, linear(tv, fn))
        if key not in KNOWN_CALLS:
            fail(f"{fn.name}: compiler {comp} with {'linear' if key[1] else 'copyable'} elements has no model", fn)
        for p in fn.args.args[1:]:
            if ast.unparse(p.annotation) != "int":
                fail(f"{fn.name}: unexpected parameter {ast.unparse(p)}", fn)
        return KNOWN_CALLS[key], [expr(a) for a in call.args[1:]], owned, comp

    used = {}

    def stmts(body, env):
        """-> Coq term of type outcome (option (val * (val * Z)))"""
        if not body:
            fail("function body falls off the end")
        s, rest = body[0], body[1:]
        if isinstance(s, ast.If):
            if s.orelse:
                fail("if/else not in the translated subset", s)
            return f"(if {expr(s.test)} then {stmts(s.body, env)} else {stmts(rest, env)})"
        if isinstance(s, ast.Assign) and len(s.targets) == 1 and isinstance(s.targets[0], ast.Name):
            fn, args, owned, comp = custom_call(s.value)
            if owned or fn != "call_getitem_linear" or len(args) != 1:
                fail("assignment from an unexpected custom call", s)
            used[s.value.func.id] = comp
            name = s.targets[0].id
            return (f"(obind ({fn} n xs {args[0]}) (fun r => let {name} := fst r in let xs := snd r in "
                    f"{stmts(rest, env | {name})}))")
        if isinstance(s, ast.Expr):
            fn, args, owned, comp = custom_call(s.value)
            if not owned or fn != "call_discard_all_used" or args:
                fail("statement call of an unexpected custom function", s)
            used[s.value.func.id] = comp
            # the array is consumed: it must not be used afterwards
            return f"(obind ({fn} n xs) (fun _ => {stmts(rest, env | {'#consumed'})}))"
        if isinstance(s, ast.Return) and isinstance(s.value, ast.Call) and isinstance(s.value.func, ast.Name):
            c = s.value
            if rest:
                fail("code after return", s)
            if c.func.id == "nothing" and not c.args:
                return "(Ok None)"
            if c.func.id == "some" and len(c.args) == 1 and isinstance(c.args[0], ast.Tuple) and len(c.args[0].elts) == 2:
                el, it = c.args[0].elts
                if not (isinstance(el, ast.Name) and el.id in env):
                    fail("yielded element is not a local", s)
                if not (isinstance(it, ast.Call) and isinstance(it.func, ast.Name) and it.func.id == "ArrayIter"
                        and len(it.args) == 2 and is_self_xs(it.args[0])) or "#consumed" in env:
                    fail("next iterator is not ArrayIter(self.xs, ...)", s)
                return f"(Ok (Some ({el.id}, (xs, {expr(it.args[1])}))))"
        fail("statement outside the translated subset: " + ast.unparse(s), s)

    nxt = it_methods["__next__"]
    if [a.arg for a in nxt.args.args] != ["self"]:
        fail("__next__ takes parameters")
    _, tv, owned = ann_array_elem(nxt.args.args[0].annotation)
    if not owned or not linear(tv, nxt):
        fail("__next__ must take the iterator @owned over a non-copyable element variable")
    next_body = stmts([s for s in nxt.body if not (isinstance(s, ast.Expr) and isinstance(s.value, ast.Constant))], set())

    # array.__iter__: return SizedIter(ArrayIter(self, <const>))
    it = arr_methods.get("__iter__")
    if it is None or not is_guppy(it):
        fail("array.__iter__ is not a @guppy method")
    body = [s for s in it.body if not (isinstance(s, ast.Expr) and isinstance(s.value, ast.Constant))]
    ok = len(body) == 1 and isinstance(body[0], ast.Return) and isinstance(body[0].value, ast.Call) \
        and isinstance(body[0].value.func, ast.Name) and body[0].value.func.id == "SizedIter" and len(body[0].value.args) == 1
    inner = body[0].value.args[0] if ok else None
    if not (ok and isinstance(inner, ast.Call) and isinstance(inner.func, ast.Name) and inner.func.id == "ArrayIter"
            and len(inner.args) == 2 and isinstance(inner.args[0], ast.Name) and inner.args[0].id == "self"
            and isinstance(inner.args[1], ast.Constant) and isinstance(inner.args[1].value, int)):
        fail("array.__iter__ is not `return SizedIter(ArrayIter(self, <int>))`", it)
    start = inner.args[1].value
    ln = arr_methods.get("__len__")
    body = [s for s in ln.body if not (isinstance(s, ast.Expr) and isinstance(s.value, ast.Constant))] if ln else []
    if not (ln and is_guppy(ln) and len(body) == 1 and isinstance(body[0], ast.Return)
            and isinstance(body[0].value, ast.Name) and body[0].value.id == "n"):
        fail("array.__len__ is not `return n`")

    q = lambda s: '"' + s + '"'  # noqa: E731
    return f"""(* GENERATED by props/C19/tr_iter.py from guppylang/std/array.py - do not edit *)
From Coq Require Import ZArith List String.
From V.C19 Require Import Array.
Import ListNotations.
Open Scope Z_scope.

(* custom compilers bound by the decorators *)
Definition bind_getitem : string := {q(bindings['__getitem__'])}%string.
Definition bind_setitem : string := {q(bindings['__setitem__'])}%string.
Definition bind_copy : string := {q(bindings['copy'])}%string.
Definition bind_unsafe_getitem : string := {q(used.get('_array_unsafe_getitem', '?'))}%string.
Definition bind_discard_all_used : string := {q(used.get('_array_discard_all_used', '?'))}%string.

(* ArrayIter.__next__ : Some (element, (xs, i)) | None *)
Definition array_iter_next (n : nat) (xs : val) (i : Z) : outcome (option (val * (val * Z))) :=
  {next_body}.

(* array.__iter__ : ArrayIter(self, {start}) *)
Definition array_iter_start : Z := ({start}).

(* array.__len__ : n *)
Definition array_len (n : nat) : Z := nat_to_int n.
"""
