"""C19 — array access is bounds-safe and alias-free.   Tie: X (+ T for ArrayIter).

1. regenerate coq/C19/GenIter.v from std/array.py (ArrayIter.__next__/__iter__, array.__len__ and
   the custom-compiler bindings; fail-closed translator tr_iter.py);
2. re-check the theorems of coq/C19/Props.v (abstract borrow-array machine, Array.v);
3. X, syntactic: compile small array programs with the compiler of the tree under test
   (impl_seq.py, repo_shim) and compare the emitted op sequence of the relevant region - op names,
   static arguments and which register feeds which operand - with the model's sequence
   (`seq_*` of Array.v rendered to tokens inside Coq);
4. X, semantic (also the failing-input search): evaluate BOTH the emitted sequence and the
   model's sequence on the abstract machine (vm_compute) over a grid of arrays (full / one cell
   lent) and indices (int64 extremes, -n-1..n+1) and compare with Python list semantics
   restricted to non-negative indices: any other index, or a lent cell, must panic.
A syntactic difference with a semantic witness is reported as a counterexample (array, index);
without one as `correspondence ... no-failing-input-found`."""
import json

import vlib
from vlib import proof_coverage

import c19_lib as L

LEVEL = "proof"


def generate(ctx):
    import tr_iter
    ctx.gen("GenIter.v", tr_iter.translate(ctx.pub_src("std/array.py")))


COQ_HEAD = ("From Coq Require Import ZArith List String.\nFrom V.C19 Require Import Array.\n"
            "Import ListNotations.\nOpen Scope string_scope.\nOpen Scope list_scope.\nOpen Scope nat_scope.\n")


def find_region(case, res):
    """pick the extracted region (and post-process it) for a case.
    -> dict(instrs, outs, n_inputs, extra) or raises KeyError/ValueError with a reason"""
    mod = res["module"]
    fam = case["family"]
    blocks = mod[case["fn"]]
    if any("unsupported" in b for b in blocks):
        raise ValueError("extractor: " + str([b["unsupported"] for b in blocks if "unsupported" in b]))
    if fam != "comp":
        if len(blocks) != 1:
            raise ValueError(f"expected a single basic block, found {len(blocks)}")
        return blocks[0]
    b = blocks[0]
    loops = [i for i in b["instrs"] if "loop_body" in i]
    if len(loops) != 1:
        raise ValueError(f"expected one TailLoop, found {len(loops)}")
    loop = loops[0]
    init, init_outs, init_leaves = L.slice_region(b["n_inputs"], b["instrs"], loop["ins"][1:3], {"new_all_borrowed", "const_int"})
    body = loop["loop_body"]
    conds = [i for i in body["instrs"] if "cond" in i]
    if len(conds) != 1 or len(conds[0]["cases"]) != 2:
        raise ValueError("loop body is not one two-way Conditional")
    cond = conds[0]
    case1 = cond["cases"][1]
    # frame of the case: payload of the scrutinee's variant 1 (one value), then the other inputs,
    # which are the loop variables (array, count) in the order they were given to the loop
    n_in = 1 + len(cond["others"])
    first_out = body["n_inputs"] + sum(i["nout"] for i in body["instrs"][:body["instrs"].index(cond)])
    step, step_outs, leaves = L.slice_region(n_in, case1["body"], case1["outs"][1:3], {"itousize", "return", "const_int", "iadd"})
    return {"n_inputs": len(leaves), "instrs": step, "outs": step_outs,
            "extra": {"leaves": leaves, "init_tokens": L.tokens(init, init_outs), "init_leaves": init_leaves,
                      "loop_vars_from": [[r - first_out for r in body["outs"][1:3]], cond["others"]]}}


def run(ctx):
    import time
    timing = {}
    t = time.time()
    generate(ctx)
    info = ctx.coq_props()
    timing["coq_props_s"] = round(time.time() - t, 1)
    r = vlib.rng(ctx.seed, "C19")
    thorough = not ctx.quick
    cases = L.programs(ctx.tier, r)
    # corpus first: programs that once exposed a problem
    corpus = sorted((ctx.dir / "corpus").glob("*.json"))
    for f in corpus:
        c = json.loads(f.read_text())
        c["id"] = c["fn"] = f"c{len(cases)}"
        c["src"] = c["src"].replace("FN", c["id"])
        cases.append(c)
    source = L.HEADER + "\n".join(c["src"] for c in cases)
    t = time.time()
    raw = json.loads(ctx.impl("impl_seq.py", {"source": source, "funcs": [c["fn"] for c in cases]}, timeout=2400))
    timing["compile_programs_s"] = round(time.time() - t, 1)
    if "fatal" in raw:
        raise RuntimeError("program module failed to load: " + raw["fatal"])
    results = raw["results"]

    stats = {"programs": len(cases), "compiled": 0, "rejected_by_compiler": 0, "syntactic_equal": 0,
             "syntactic_diff": 0, "semantic_cases": 0, "semantic_nontrivial": 0, "by_family": {}}
    work = []          # (case, region) that can be evaluated
    problems = []      # (case, what) structural problems
    iter_case = None
    for c in cases:
        res = results[c["fn"]]
        fam = c["family"]
        stats["by_family"][fam] = stats["by_family"].get(fam, 0) + 1
        if not res["ok"] and c.get("expect") == "reject" and res["error"].startswith("GuppyError"):
            stats["rejected_by_compiler"] += 1
            stats["rejected_as_expected"] = stats.get("rejected_as_expected", 0) + 1
            continue
        if res["ok"] and c.get("expect") == "reject":
            c["accepted_unexpectedly"] = True
        if not res["ok"]:
            stats["rejected_by_compiler"] += 1
            c["rejected"] = res["error"]
            # a constant out-of-range index may be rejected at compile time: that is safe
            if not (fam == "get_c" and c["params"].get("index") != "var"
                    and not L.in_range(c["params"]["n"], c["params"]["index"]) and res["error"].startswith("GuppyError")):
                problems.append((c, f"compiler failed on a valid program: {res['error']}"))
            continue
        stats["compiled"] += 1
        if fam == "iter":
            iter_case = (c, res)
            continue
        try:
            c["region"] = find_region(c, res)
            work.append(c)
        except (KeyError, ValueError) as e:
            problems.append((c, f"region not found: {e}"))

    # ---- the iterator functions: three regions of the compiled std functions
    iter_items = []
    if iter_case is not None:
        c, res = iter_case
        mod = res["module"]
        try:
            nb = mod["__next__"]
            some = [b for b in nb if any(i.get("op", [""])[0] == "borrow" for i in b["instrs"])]
            none = [b for b in nb if any(i.get("op", [""])[0] == "discard_all_borrowed" for i in b["instrs"])]
            if len(nb) != 3 or len(some) != 1 or len(none) != 1:
                raise ValueError(f"__next__ has {len(nb)} blocks, {len(some)} with borrow, {len(none)} with discard_all_borrowed")
            it = mod["__iter__"]
            if len(it) != 1:
                raise ValueError("__iter__ is not a single block")
            iter_items = [("next_some", some[0], f"seq_next_some {L.SENTINEL_N}", "outs_next_some"),
                          ("next_none", none[0], f"seq_next_none {L.SENTINEL_N}", "outs_next_none"),
                          ("iter_start", it[0], "seq_iter_start", "outs_iter_start")]
        except (KeyError, ValueError) as e:
            problems.append((c, f"iterator functions: {e}"))
    for name, reg, model, outs in iter_items:
        work.append({"id": "iter_" + name, "family": name, "fn": "__next__/__iter__", "src": "guppylang/std/array.py ArrayIter",
                     "model": model, "outs": outs, "params": {"n": L.SENTINEL_N if name != "next_some" else 5, "ty": "int"},
                     "region": reg, "sym": L.SENTINEL_N})

    # ---- model tokens (one Coq evaluation)
    for c in work:
        if c.get("model") is None:      # families compared semantically only (no hand-written sequence)
            c["no_model"] = True
            c["model"] = L.coq_seq(c["region"]["instrs"], c.get("sym"))
            c["outs"] = L.coq_nats(c["region"]["outs"])
    tok_v = COQ_HEAD + "Definition toks : list (list string) := [\n" + ";\n".join(
        f"seq_tokens ({c['model']}) ({c['outs']})" for c in work) + "].\nEval vm_compute in toks.\n"
    comp_ns = sorted({c["params"]["n"] for c in work if c["family"] == "comp"})
    extra_v = COQ_HEAD + "Eval vm_compute in [" + "; ".join(f"seq_tokens (seq_comp_init {n}) [0; 1]" for n in comp_ns) + "].\n"
    model_ok = info["ok"] or (vlib.COQ / "C19" / "Array.vo").exists()
    model_tokens = None
    if model_ok and work:
        try:
            outs = ctx.coq_eval_many({"toks": tok_v, "init": extra_v})
            model_tokens = vlib.parse_coq_values(outs["toks"])[0]
            init_tokens = dict(zip(comp_ns, vlib.parse_coq_values(outs["init"])[0])) if comp_ns else {}
        except RuntimeError as e:
            ctx.notes.append(f"model token evaluation failed: {e}")
    diffs = []
    if model_tokens is not None and len(model_tokens) == len(work):
        for c, mt in zip(work, model_tokens):
            et = L.tokens(c["region"]["instrs"], c["region"]["outs"], c.get("sym"))
            c["impl_tokens"], c["model_tokens"] = et, mt
            bad = et != mt
            if c["family"] == "comp":
                ex = c["region"]["extra"]
                n = c["params"]["n"]
                want_init = init_tokens[n]
                if ex["leaves"][:2] != ["in:2", "in:1"] or ex["init_tokens"] != want_init \
                        or ex["loop_vars_from"] != [[1, 2], [1, 2]]:
                    bad = True
                    c["comp_wiring"] = {"leaves": ex["leaves"], "init_tokens": ex["init_tokens"], "expected_init": want_init,
                                        "loop_vars": ex["loop_vars_from"]}
            if c.get("no_model"):
                stats["semantic_only"] = stats.get("semantic_only", 0) + 1
            elif bad:
                diffs.append(c)
                stats["syntactic_diff"] += 1
            else:
                stats["syntactic_equal"] += 1

    # ---- semantic evaluation of emitted and model sequences against the list specification
    sem_items = []
    for c in work:
        fam = c["family"]
        if fam in ("next_none", "iter_start"):
            continue
        for inputs in L.grid(fam, c["params"], r, thorough):
            sem_items.append((c, inputs))
    sem_fail = []
    unevaluable = set()
    t = time.time()
    if model_ok and sem_items:
        files = {}
        chunk = 300
        for k in range(0, len(sem_items), chunk):
            lines, defs, names = [], [], {}
            for c, inputs in sem_items[k:k + chunk]:
                iv = "[" + "; ".join(L.coq_val(v) for v in inputs) + "]"
                if c["id"] not in names:
                    sub = str(c["params"]["n"]) if c["family"] == "next_some" else c.get("sym")
                    model = c["model"].replace(str(L.SENTINEL_N), str(c["params"]["n"])) if c["family"] == "next_some" else c["model"]
                    nm = f"s{len(names)}"
                    names[c["id"]] = nm
                    defs.append(f"Definition e_{nm} := {L.coq_seq(c['region']['instrs'], sub)}.\n"
                                f"Definition eo_{nm} := {L.coq_nats(c['region']['outs'])}.\n"
                                f"Definition m_{nm} := {model}.\nDefinition mo_{nm} := {c['outs']}.")
                nm = names[c["id"]]
                lines.append(f"(enc_outcome (run_outs e_{nm} eo_{nm} {iv}), enc_outcome (run_outs m_{nm} mo_{nm} {iv}))")
            files[f"sem{k // chunk}"] = (COQ_HEAD + "\n".join(defs) + "\nDefinition rs : list (list Z * list Z) := [\n"
                                         + ";\n".join(lines) + "].\nEval vm_compute in rs.\n")
        try:
            outs = ctx.coq_eval_many(files)
            vals = []
            for k in range(len(files)):
                vals += vlib.parse_coq_values(outs[f"sem{k}"])[0]
        except (RuntimeError, ValueError, SyntaxError) as e:
            vals = None
            ctx.notes.append(f"semantic evaluation failed: {str(e)[-1500:]}")
        if vals is not None and len(vals) == len(sem_items):
            for (c, inputs), (impl_r, model_r) in zip(sem_items, vals):
                impl_r, model_r = list(impl_r), list(model_r)
                want = L.spec(c["family"], c["params"], inputs)
                stats["semantic_cases"] += 1
                if want != L.PANIC:
                    stats["semantic_nontrivial"] += 1
                ok_spec = (lambda got: (got[:1] == [1]) if want == L.PANIC else got == L.enc_ok(want))
                if impl_r == [2]:
                    unevaluable.add(c["id"])
                    continue
                # family-independent exit invariant: arrays that came in whole go out whole
                if c["family"] not in ("next_some", "comp") and impl_r[:1] == [0] and not any(L.has_lent(v) for v in inputs):
                    stats["exit_invariant_checked"] = stats.get("exit_invariant_checked", 0) + 1
                    if any(L.has_lent(v) for v in L.decode(impl_r)[1]):
                        sem_fail.append((c, inputs, "emitted:cell-left-lent-at-exit", impl_r, want, model_r))
                        continue
                if not ok_spec(impl_r):
                    sem_fail.append((c, inputs, "emitted", impl_r, want, model_r))
                elif not ok_spec(model_r):
                    sem_fail.append((c, inputs, "model", model_r, want, impl_r))
                elif impl_r != model_r:
                    sem_fail.append((c, inputs, "emitted-vs-model", impl_r, want, model_r))

    timing["semantic_eval_s"] = round(time.time() - t, 1)

    # ---- T validation / search for the generated iterator: drive the GENERATED __next__ over
    # ---- arrays of distinct elements and compare with Python's iteration order
    iter_checked = 0
    if (vlib.COQ / "C19" / "ModelIter.vo").exists():
        ns_it = [0, 1, 2, 3, 5] + ([8, 17] if thorough else [])
        body = ("From Coq Require Import ZArith List String.\nFrom V.C19 Require Import Array GenIter ModelIter.\n"
                "Import ListNotations.\nOpen Scope Z_scope.\nEval vm_compute in [\n" + ";\n".join(
                    f"enc_outcome (for_loop_elements {n} (VArr [" + "; ".join(f"Some (VRes {100 + k})" for k in range(n)) + "]))"
                    for n in ns_it) + "].\n")
        try:
            got = vlib.parse_coq_values(ctx.coq_eval("iter", body))[0]
            for n, g in zip(ns_it, got):
                iter_checked += 1
                want = L.enc_ok([("res", 100 + k) for k in range(n)])
                if list(g) != want:
                    ctx.report(f"iter-order:n={n}", "counterexample",
                               "for-loop over an array: ArrayIter.__next__/__iter__ (as translated from std/array.py) do not deliver the cells in index order",
                               {"array": [100 + k for k in range(n)], "expected_elements": [100 + k for k in range(n)],
                                "observed_encoded": list(g), "encoding": "[0,k,(2,q)*]=Ok list of resources; [1,code]=Panic; [2]=stuck",
                                "replay": "read ArrayIter.__next__ / array.__iter__ in guppylang/src/guppylang/std/array.py; "
                                          "coq/C19/GenIter.v is their translation; evaluate `for_loop_elements` of coq/C19/ModelIter.v on the array"})
                    break
        except (RuntimeError, ValueError, SyntaxError) as e:
            ctx.notes.append(f"iterator evaluation failed: {str(e)[-800:]}")

    # ---- thorough only: cross-validate the trusted op spec on the venv's own runtime (1.0.4)
    emu = None
    if thorough:
        import os
        import subprocess
        env = {k: v for k, v in os.environ.items() if k not in ("PYTHONPATH", "VERIF_REPO")}
        try:
            p = subprocess.run([vlib.PY, str(ctx.dir / "emu_spec.py")], env=env, cwd=str(ctx.scratch), text=True,
                               stdout=subprocess.PIPE, stderr=subprocess.PIPE, timeout=600)
            emu = json.loads(p.stdout.strip().split("\n")[-1])
            want = {"main_neg": "Array index out of bounds", "main_oob": "Array index out of bounds",
                    "main_alias": "Array element is already borrowed"}
            bad = [k for k, m in want.items() if not (emu[k][0] == "exc" and m in emu[k][2])]
            order = [["a", 10], ["b", 11], ["d", 14], ["c", 12], ["c", 13], ["y", 2], ["y", 3], ["y", 4], ["r", 9]]
            if emu["main_order"] != ["ok", order]:
                bad.append("main_order")
            if bad:
                ctx.report("trusted-spec:" + ",".join(bad), "correspondence",
                           "the trusted op semantics of Array.v disagrees with the venv runtime (guppylang 1.0.4 + selene)",
                           {"observed": emu, "disagreeing": bad}, found_input=False)
        except Exception as e:  # noqa: BLE001   (supporting evidence only: absence is noted, not fatal)
            ctx.notes.append(f"runtime cross-validation of the op spec did not run: {str(e)[:300]}")

    def show(v):
        return json.loads(json.dumps(v))

    def replay_text(c, inputs=None):
        t = ("write the program below (after the header of props/C19/c19_lib.py HEADER) to a file, then "
             "PYTHONPATH=/verif/tools:$REPO/guppylang/src:$REPO/guppylang-internals/src /venv/bin/python -c "
             "'import repo_shim, prog; print(prog.%s.compile_function().modules[0].render_dot())' and read the ops of the block; "
             "or: echo '{\"source\": <module text>, \"funcs\": [\"%s\"]}' | /venv/bin/python /verif/props/C19/impl_seq.py" % (c["fn"], c["fn"]))
        return t

    # ---- static, family-independent borrow/return balance of every compared basic block
    balance_fail = {}
    for c in work:
        if c["id"].startswith("iter_") or c["family"] == "comp" or "n_inputs" not in c["region"]:
            continue
        stats["balance_checked"] = stats.get("balance_checked", 0) + 1
        pb = L.balance(c["region"])
        if pb:
            balance_fail[c["id"]] = pb

    def prog_key(c):
        return "prog:" + c["family"] + ":" + c.get("src_template", c["src"])

    for c in diffs:
        witnessed = any(f[0] is c for f in sem_fail)
        if witnessed:
            continue
        key = f"seq:{c['family']}:{json.dumps(c['params'], sort_keys=True)}"
        ctx.report(key, "correspondence", f"{c['family']}: emitted op sequence differs from the model's",
                   {"program": c["src"], "params": c["params"], "emitted_tokens": c.get("impl_tokens"),
                    "model_tokens": c.get("model_tokens"), "comp_wiring": c.get("comp_wiring"),
                    "emitted_index_events": L.index_events(c["region"]) if "n_inputs" in c["region"] else None,
                    "unevaluable_on_model_machine": c["id"] in unevaluable,
                    "note": "no (array, index) was found on which the emitted sequence disagrees with list semantics; the proofs no longer cover the emitted code",
                    "replay": replay_text(c)}, found_input=False)
    for c, what in problems:
        ctx.report(f"struct:{c['family']}:{json.dumps(c['params'], sort_keys=True)}", "correspondence", what,
                   {"program": c["src"], "params": c["params"], "replay": replay_text(c)}, found_input=False)
    reported = set()
    for c in work:
        if c["id"] in balance_fail and not any(f[0] is c for f in sem_fail):
            ctx.report(prog_key(c), "correspondence", f"{c['family']}: unbalanced borrow/return in the emitted block",
                       {"program": c["src"], "params": c["params"], "balance": balance_fail[c["id"]],
                        "emitted_index_events": L.index_events(c["region"]), "replay": replay_text(c)}, found_input=False)
        elif c.get("accepted_unexpectedly") and not any(f[0] is c for f in sem_fail):
            ctx.report(prog_key(c), "counterexample", f"{c['family']}: a by-value read through a subscript of a non-copyable element was ACCEPTED (expected: rejected)",
                       {"program": c["src"], "params": c["params"], "emitted_index_events": L.index_events(c["region"]),
                        "replay": replay_text(c)})
    for c, inputs, side, got, want, other in sem_fail:
        key = f"sem:{c['family']}:{json.dumps(c['params'], sort_keys=True)}:{side}"
        if c["family"] in L.ELEM:
            key = prog_key(c)       # known findings are keyed by the exact program text
        if key in reported:
            continue
        reported.add(key)
        ctx.report(key, "counterexample",
                   f"{c['family']}: the {side} op sequence violates list semantics on the abstract borrow-array machine",
                   {"program": c["src"], "params": c["params"], "inputs": show(inputs),
                    "expected_compiler_verdict": c.get("expect", "accept"), "accepted_unexpectedly": bool(c.get("accepted_unexpectedly")),
                    "balance": balance_fail.get(c["id"]),
                    "expected": "panic (no array produced)" if want == L.PANIC else show(want),
                    "observed_encoded": got, "other_side_encoded": other,
                    "encoding": "[0,k,vals..]=Ok; [1,code]=Panic (1 index-oob unwrap, 2 op oob, 3 already borrowed, 4 cell full, 5 some borrowed, 6 not all borrowed, 7 unpack); val: [0,z] int, [2,q] resource, [6,len,(0|1 val)..] array, [4,tag,len,..] sum, [5,len,..] tuple",
                    "emitted_index_events": L.index_events(c["region"]) if "n_inputs" in c["region"] else None,
                    "emitted_tokens": c.get("impl_tokens"), "model_tokens": c.get("model_tokens"),
                    "replay": replay_text(c, inputs)})
    if model_tokens is None and work:
        ctx.report("model-eval", "proof-broken", "the model sequences could not be evaluated", {"notes": ctx.notes}, found_input=False)
    if not info["ok"] and not ctx.violations:
        ctx.report("proof-broken:" + str(info["failed"]), "proof-broken", str(info["failed"]),
                   {"coq_error": vlib.CoqResult(False, info["log"]).error_excerpt(),
                    "searched": f"{stats['semantic_cases']} machine evaluations of emitted sequences agreed with list semantics"},
                   found_input=False)

    samples = []
    for c in work[:1] + work[len(work) // 2:len(work) // 2 + 1] + work[-1:]:
        samples.append({"family": c["family"], "params": c["params"], "emitted_tokens": c.get("impl_tokens", [])[:40]})
    cov = proof_coverage(
        info, "make -f Makefile.C19 C19/Props.vo && coqc C19/Props.v (Print Assumptions)",
        ["Coq 8.16.1 kernel (vm_compute in Examples and in the correspondence evaluation)",
         "TRUSTED SPEC: op semantics of collections.borrow_arr (get/set/borrow/return/pop_left/pop_right/unpack/clone/new_all_borrowed/discard_all_borrowed/discard_empty), arithmetic.conversions.itousize (unsigned reading of the int64, usize = 64 bit), prelude.panic, tuples/sums as written in coq/C19/Array.v part 1; quantum gates modelled as the identity on qubit identities",
         "modelled, not extracted: the TailLoop/__next__ driver of for-loops and comprehensions (comp_drive / iterate in Array.v / GenIter.v), array length n <= 2^63",
         "props/C19/impl_seq.py (reads the HUGR through hugr-py: node order, port links, op names/args), tools/repo_shim.py, props/C19/tr_iter.py (reading of ArrayIter methods)",
         "hand-written sequences seq_* of Array.v part 3 are tied to /repo only through the compiled sample programs of this run (X), not for all programs"],
        evaluations=stats["semantic_cases"] + stats["programs"], distinct_nontrivial=stats["semantic_nontrivial"],
        rule="evaluations = abstract-machine runs of emitted sequences (each also run on the model sequence and the Python list spec) + compiled programs; non-trivial = the specification expects a result (valid index, cell present), the rest must panic",
        traces_validated_against_impl=stats["syntactic_equal"], stats=stats, samples=samples,
        unevaluable_sequences=sorted(unevaluable), iterator_orders_checked=iter_checked, op_spec_cross_validation_on_venv_runtime=emu, timing=timing, notes=ctx.notes)
    return ctx.finish(LEVEL, cov, ["array length n <= 2^63 and usize is 64 bit",
                                   "HUGR op semantics as written in coq/C19/Array.v (trusted spec)",
                                   "for-loop / comprehension drivers call __next__ until Nothing (C03/C18 territory)"])
