"""C19 helpers: program generator, token/Coq renderers for extracted sequences, slicing, the
Python list-semantics specification, value encoding.  No model logic lives here: the model is
coq/C19/Array.v; the specification side (`spec_*`) is written independently over Python lists."""

M63 = 1 << 63
HEADER = """import repo_shim
from guppylang import guppy
from guppylang.std.builtins import array, owned
from guppylang.std.quantum import qubit, h, x, z, cx, cz


@guppy
def bump(ctr: array[int, 1]) -> int:
    # index oracle: returns the counter and advances it (sem_call "bump" in Array.v)
    v = ctr[0]
    ctr[0] = v + 1
    return v


@guppy
def poke(a: array[int, 1]) -> None:
    a[0] = a[0] + 1000


@guppy.struct
class Reg:
    data: array[int, 2]
    tag: int


@guppy
def tag_of(r: Reg) -> int:
    return r.tag

"""
SENTINEL_N = 777     # stands for a symbolic length `$k` in generic std functions


# ----------------------------------------------------------------------------- programs
def programs(tier, rng):
    """-> list of cases.  A case: id, family, params, src (function text), fn, model (Coq expr
    of the expected sequence), outs (Coq expr), and how to find the region."""
    cases = []

    def add(family, src, model, outs, expect="accept", **params):
        cid = f"p{len(cases)}"
        cases.append({"id": cid, "family": family, "src": src.replace("FN", cid), "fn": cid, "src_template": src,
                      "model": model, "outs": outs, "params": params, "expect": expect})

    thorough = tier == "thorough"
    ns = [1, 3, 5] + ([2, 4, 6, 8, 13] if thorough else [])
    rnd_n = sorted({rng.randint(1, 40) for _ in range(1 if not thorough else 8)})
    for n in ns + rnd_n:
        for ty in (["int", "float"] if n in (3, 5) or thorough else ["int"]):
            add("get_c", f"@guppy\ndef FN(xs: array[{ty}, {n}], i: int) -> {ty}:\n    return xs[i]\n",
                f"seq_get_classical {n}", "outs_get_classical", n=n, ty=ty, index="var")
            v = "1.5" if ty == "float" else "7"
            add("set_c", f"@guppy\ndef FN(xs: array[{ty}, {n}], i: int, v: {ty}) -> None:\n    xs[i] = v\n",
                f"seq_set_classical {n}", "outs_set_classical", n=n, ty=ty, index="var")
        # constant indices (valid, last, one past the end, negative)
        for c in sorted({0, n - 1, n, -1} if n in (3, 5) or thorough else {n - 1}):
            add("get_c", f"@guppy\ndef FN(xs: array[int, {n}]) -> int:\n    return xs[{c}]\n",
                f"(IOp (OConst (CInt ({c})%Z)) [] :: seq_get_classical {n})", "outs_get_classical", n=n, ty="int", index=c)
        for g in (["h", "x"] if n == 5 or thorough else ["h"]):
            add("use1", f"@guppy\ndef FN(qs: array[qubit, {n}], i: int) -> None:\n    {g}(qs[i])\n",
                f'seq_use1 {n} "{g.upper()}"', "outs_use1", n=n, gate=g)
        for g in (["cx", "cz"] if n == 5 or thorough else ["cx"]):
            add("use2", f"@guppy\ndef FN(qs: array[qubit, {n}], i: int, j: int) -> None:\n    {g}(qs[i], qs[j])\n",
                f'seq_use2 {n} "{g.upper()}"', "outs_use2", n=n, gate=g)
        add("copy", f"@guppy\ndef FN(xs: array[int, {n}]) -> array[int, {n}]:\n    return xs.copy()\n",
            f"seq_copy {n}", "outs_copy", n=n)
    # unpacking: every (l, r, star) for small n, random ones for larger n
    combos = []
    for n in ([1, 2, 3, 4] + ([5, 6] if thorough else [])):
        for l in range(n + 1):
            for r in range(n + 1 - l):
                if l == n:
                    combos.append((n, n, 0, False))     # without a star every pattern is a "left" one
                if l + r > 0:
                    combos.append((n, l, r, True))
    if not thorough:
        combos = [c for c in combos if c[0] <= 3] + rng.sample([c for c in combos if c[0] == 4], 4)
    for _ in range(3 if not thorough else 12):
        n = rng.randint(5, 12)
        l = rng.randint(0, n)
        r = rng.randint(0, n - l)
        star = (l + r < n) or rng.random() < 0.5
        if not star:
            l, r = n, 0
        if l + r > 0:
            combos.append((n, l, r, star))
    for k, (n, l, r, star) in enumerate(combos):
        ty = "qubit" if k % 3 == 2 else "int"
        names = [f"a{j}" for j in range(l)] + (["*st"] if star else []) + [f"b{j}" for j in range(r)]
        rets = [f"a{j}" for j in range(l)] + (["st"] if star else []) + [f"b{j}" for j in range(r)]
        tys = [ty] * l + ([f"array[{ty}, {n - l - r}]"] if star else []) + [ty] * r
        lhs = ", ".join(names) + ("," if len(names) == 1 else "")
        ret_ty = f"tuple[{', '.join(tys)}]" if len(tys) > 1 else tys[0]
        add("unpack", f"@guppy\ndef FN(xs: array[{ty}, {n}] @ owned) -> {ret_ty}:\n    {lhs} = xs\n    return {', '.join(rets)}\n",
            f"seq_unpack {n} {l} {r} {'true' if star else 'false'}",
            f"(outs_unpack_left {l} ++ {'[out_unpack_star ' + str(l) + ' ' + str(r) + ']' if star else '[]'} ++ outs_unpack_right {l} {r})",
            n=n, l=l, r=r, star=star, ty=ty)
    # ---- nested subscripts (arrays of arrays), pure and EFFECTFUL index expressions
    shapes = [(3, 2), (2, 3)] + ([(1, 1), (4, 2), (2, 5)] if thorough else [])
    for n, m in shapes:
        for g in (["h", "x"] if thorough else ["h"]):
            G = g.upper()
            add("lend_nested", f"@guppy\ndef FN(qs: array[array[qubit, {m}], {n}], i: int, j: int) -> None:\n    {g}(qs[i][j])\n",
                f'seq_lend_nested {n} {m} (OGate "{G}")', "outs_lend_nested", n=n, m=m, leaf="qubit")
            for c in sorted({0, m - 1}):
                add("lend_nested_oracle", f"@guppy\ndef FN(qs: array[array[qubit, {m}], {n}], ctr: array[int, 1]) -> None:\n    {g}(qs[bump(ctr)][{c}])\n",
                    f'seq_lend_nested_oracle {n} {m} (OGate "{G}") ({c})%Z', "outs_lend_nested_oracle", n=n, m=m, c=c, leaf="qubit")
            add("lend_nested_inner_oracle", f"@guppy\ndef FN(qs: array[array[qubit, {m}], {n}], i: int, ctr: array[int, 1]) -> None:\n    {g}(qs[i][bump(ctr)])\n",
                f'(IOp (OCall "bump" 2) [2] :: seq_lend_nested_at {n} {m} (OGate "{G}") 0 1 3 5)', "[20; 4]", n=n, m=m, leaf="qubit")
            add("lend_nested_arith", f"@guppy\ndef FN(qs: array[array[qubit, {m}], {n}], i: int) -> None:\n    {g}(qs[i + 1][0])\n",
                f'(IOp (OConst (CInt 0%Z)) [] :: IOp (OConst (CInt 1%Z)) [] :: IOp OIadd [1; 3] :: seq_lend_nested_at {n} {m} (OGate "{G}") 0 4 2 5)',
                "[20]", n=n, m=m, leaf="qubit")
        if m >= 2:
            add("lend2_nested_oracle", f"@guppy\ndef FN(qs: array[array[qubit, {m}], {n}], ctr: array[int, 1]) -> None:\n    cx(qs[bump(ctr)][0], qs[bump(ctr)][{m - 1}])\n",
                f'seq_lend2_nested_oracle {n} {m} "CX" 0%Z ({m - 1})%Z', "outs_lend2_nested_oracle", n=n, m=m, c0=0, c1=m - 1, leaf="qubit")
        add("lend_nested_poke", f"@guppy\ndef FN(xs: array[array[array[int, 1], {m}], {n}], ctr: array[int, 1]) -> None:\n    poke(xs[bump(ctr)][{m - 1}])\n",
            f'seq_lend_nested_oracle {n} {m} (OCall "poke" 1) ({m - 1})%Z', "outs_lend_nested_oracle", n=n, m=m, c=m - 1, leaf="intarr")
        add("get_nested", f"@guppy\ndef FN(xs: array[array[int, {m}], {n}], i: int, j: int) -> int:\n    return xs[i][j]\n",
            f"seq_get_nested {n} {m}", "outs_get_nested", n=n, m=m, leaf="int")
        add("set_nested", f"@guppy\ndef FN(xs: array[array[int, {m}], {n}], i: int, j: int, v: int) -> None:\n    xs[i][j] = v\n",
            f"seq_set_nested {n} {m}", "outs_set_nested", n=n, m=m, leaf="int")
    for n in ([3] + ([1, 5] if thorough else [])):
        add("use1_oracle", f"@guppy\ndef FN(qs: array[qubit, {n}], ctr: array[int, 1]) -> None:\n    h(qs[bump(ctr)])\n",
            f'[IOp (OCall "bump" 2) [1]; IOp OItoUsize [2]; IOp (OBorrow {n}) [0; 4]; IOp (OGate "H") [6]; IOp OItoUsize [2]; IOp (OReturn {n}) [5; 8; 7]]',
            "[9; 3]", n=n, leaf="qubit")
    for (n, m, p_) in ([(3, 2, 2)] + ([(2, 1, 3)] if thorough else [])):
        add("lend_nested3", f"@guppy\ndef FN(qs: array[array[array[qubit, {p_}], {m}], {n}], i: int, j: int, k: int) -> None:\n    h(qs[i][j][k])\n",
            f'seq_lend_nested3 {n} {m} {p_} "H"', "outs_lend_nested3", n=n, m=m, p=p_, leaf="qubit")
    # ---- arrays whose elements are NOT copyable but droppable and have a copyable projection
    # ---- (struct Reg = (array[int, 2], int), tuple (array, int)).  A by-value read of the projection
    # ---- through a subscript must be REJECTED (it would have to take the element out for good);
    # ---- lending the element, reading through to a copyable leaf, assigning are accepted.
    for n in ([3] + ([1, 4] if thorough else [])):
        add("elem_read", f"@guppy\ndef FN(rs: array[Reg, {n}], i: int) -> int:\n    return rs[i].tag\n", None, None,
            expect="reject", n=n, elem="struct", reads=1)
        add("elem_read", f"@guppy\ndef FN(rs: array[Reg, {n}], i: int) -> int:\n    a = rs[i].tag\n    b = rs[i].tag\n    return a + b\n", None, None,
            expect="reject", n=n, elem="struct", reads=2)
        add("elem_read", f"@guppy\ndef FN(ts: array[tuple[array[int, 2], int], {n}], i: int) -> int:\n    return ts[i][1]\n", None, None,
            expect="reject", n=n, elem="tuple", reads=1)
        add("elem_lend", f"@guppy\ndef FN(rs: array[Reg, {n}], i: int) -> int:\n    return tag_of(rs[i])\n", None, None, n=n, elem="struct")
        add("elem_leaf_read", f"@guppy\ndef FN(rs: array[Reg, {n}], i: int) -> int:\n    return rs[i].data[1]\n", None, None, n=n, elem="struct")
        if n == 3:   # fixed program texts: both are KNOWN FINDINGS on /repo (props/C19/known_findings.json)
            add("elem_assign", f"@guppy\ndef FN(rs: array[Reg, {n}], i: int) -> None:\n    rs[i] = Reg(array(1, 2), 5)\n", None, None, n=n, elem="struct")
            add("elem_assign", f"@guppy\ndef FN(xss: array[array[int, 2], {n}], i: int) -> None:\n    xss[i] = array(1, 2)\n", None, None, n=n, elem="row")
        add("augassign", f"@guppy\ndef FN(xs: array[int, {n}], i: int) -> None:\n    xs[i] += 1\n", None, None, n=n, index="var")
        if n == 3:   # KNOWN FINDING (also C05): the index expression of an augmented assignment is evaluated twice
            add("augassign", f"@guppy\ndef FN(xs: array[int, {n}], ctr: array[int, 1]) -> None:\n    xs[bump(ctr)] += 1\n", None, None, n=n, index="oracle")
    add("elem_read2", "@guppy\ndef FN(rss: array[array[Reg, 2], 2], i: int, j: int) -> int:\n    return rss[i][j].tag\n", None, None,
        expect="reject", n=2, m=2, elem="struct")
    for n in ([2, 4] + ([1, 7] if thorough else [])):
        add("comp", f"@guppy\ndef FN(xs: array[int, {n}] @ owned) -> array[int, {n}]:\n    return array(x for x in xs)\n",
            f"seq_comp_step {n}", "outs_comp_step", n=n, ty="int")
    add("comp", "@guppy\ndef FN(qs: array[qubit, 3] @ owned) -> array[qubit, 3]:\n    return array(q for q in qs)\n",
        "seq_comp_step 3", "outs_comp_step", n=3, ty="qubit")
    add("iter", "@guppy\ndef FN(xs: array[int, 4] @ owned) -> int:\n    s = 0\n    for x in xs:\n        s += x\n    return s\n",
        None, None, n=SENTINEL_N)
    return cases


# ------------------------------------------------------------------ rendering of sequences
def tokens(instrs, outs, sym=None):
    out = []

    def tok(t):
        t = str(t)
        return str(sym) if (sym is not None and t.startswith("$")) else t

    def go(ins):
        if "cond" in ins:
            out.extend(["cond", str(ins["cond"]), "with"] + [str(r) for r in ins["others"]])
            for c in ins["cases"]:
                out.append("{")
                for j in c["body"]:
                    go(j)
                out.extend(["=>"] + [str(r) for r in c["outs"]] + ["}"])
            out.append("end")
        else:
            out.extend(["("] + [tok(t) for t in ins["op"]] + ["<-"] + [str(r) for r in ins["ins"]] + [")"])
    for i in instrs:
        go(i)
    return out + ["outs"] + [str(r) for r in outs]


def coq_str(s):
    return '"' + s.replace('"', '""') + '"'


def coq_op(op, sym=None):
    name, args = op[0], op[1:]

    def nat(a):
        a = str(a)
        return str(sym) if (sym is not None and a.startswith("$")) else a
    table = {"get": "OGet", "set": "OSet", "borrow": "OBorrow", "return": "OReturn", "pop_left": "OPopLeft",
             "pop_right": "OPopRight", "unpack": "OUnpack", "new_array": "ONewArray",
             "new_all_borrowed": "ONewAllBorrowed", "discard_all_borrowed": "ODiscardAllBorrowed", "clone": "OClone"}
    if name in table:
        return f"({table[name]} {nat(args[0])})"
    simple = {"itousize": "OItoUsize", "discard_empty": "ODiscardEmpty", "make_tuple": "OMakeTuple",
              "unpack_tuple": "OUnpackTuple", "iadd": "OIadd"}
    if name in simple:
        return simple[name]
    if name == "panic":
        return f"(OPanic {args[0]})"
    if name == "tag":
        return f"(OTag {args[0]})"
    if name == "const_int":
        return f"(OConst (CInt ({args[0]})%Z))"
    if name == "const_err":
        return f"(OConst (CErr {coq_str(args[0])}))"
    if name == "const_other":
        return f"(OConst (COther {coq_str(args[0])}))"
    if name == "gate":
        return f"(OGate {coq_str(args[0])})"
    if name == "call":
        return f"(OCall {coq_str(args[0])} {args[1]})"
    if name == "other" and args[0] == "tket.guppy.drop":
        return "ODrop"
    if name == "other":
        return f"(OOther {coq_str(args[0])} {args[1]})"
    raise ValueError(f"unknown op token {op}")


def coq_nats(rs):
    return "[" + "; ".join(str(r) for r in rs) + "]"


def coq_seq(instrs, sym=None):
    def go(i):
        if "cond" in i:
            cases = "; ".join(f"({coq_seq(c['body'], sym)}, {coq_nats(c['outs'])})" for c in i["cases"])
            return f"ICond {i['cond']} {coq_nats(i['others'])} [{cases}]"
        return f"IOp {coq_op(i['op'], sym)} {coq_nats(i['ins'])}"
    return "[" + "; ".join(go(i) for i in instrs) + "]"


def index_events(region):
    """for every get/set/borrow/return of a region (top level): which register feeds the index
    operand, traced back through itousize to the int wire, and how often each call happens"""
    k = region["n_inputs"]
    src = {}
    events, calls = [], {}
    for i in region["instrs"]:
        if "op" in i:
            name = i["op"][0]
            if name == "itousize":
                src[k] = i["ins"][0]
            elif name in ("get", "set", "borrow", "return"):
                u = i["ins"][1]
                events.append(f"{name}<{i['op'][1]}> array=r{i['ins'][0]} index=r{src.get(u, u)}")
            elif name == "call":
                calls[i["op"][1]] = calls.get(i["op"][1], 0) + 1
                events.append(f"call {i['op'][1]} -> r{k}")
        k += i["nout"]
    return {"events": events, "calls": calls}


def slice_region(n_inputs, instrs, roots, allowed):
    """Sub-sequence of `instrs` computing the registers `roots`, restricted to ops whose name is in
    `allowed`; every other register it needs becomes an input of the slice (numbered in order of
    first use).  -> (instrs', outs', leaf descriptions)"""
    defs = {}
    k = n_inputs
    for idx, i in enumerate(instrs):
        for j in range(i["nout"]):
            defs[k] = (idx, j)
            k += 1
    keep = set()
    todo = list(roots)
    while todo:
        r = todo.pop()
        if r in defs:
            idx = defs[r][0]
            i = instrs[idx]
            if "op" in i and i["op"][0] in allowed and idx not in keep:
                keep.add(idx)
                todo.extend(i["ins"])
    leaves, new_reg = [], {}

    def leaf(r):
        if r not in new_reg:
            new_reg[r] = len(leaves)
            if r < n_inputs:
                leaves.append(f"in:{r}")
            else:
                i = instrs[defs[r][0]]
                leaves.append("op:" + (i["op"][0] if "op" in i else "cond"))
        return new_reg[r]
    order = sorted(keep)
    for idx in order:
        for r in instrs[idx]["ins"]:
            if r < n_inputs or defs[r][0] not in keep:
                leaf(r)
    for r in roots:
        if r < n_inputs or defs[r][0] not in keep:
            leaf(r)
    k = len(leaves)
    first = {}
    for idx in order:
        first[idx] = k
        k += instrs[idx]["nout"]

    def ren(r):
        if r in new_reg:
            return new_reg[r]
        idx, j = defs[r]
        return first[idx] + j
    new = [{"op": instrs[idx]["op"], "ins": [ren(r) for r in instrs[idx]["ins"]], "nout": instrs[idx]["nout"]} for idx in order]
    return new, [ren(r) for r in roots], leaves


# ------------------------------------------------------------------------ values, encoding
def enc_val(v):
    t = v[0]
    if t == "int":
        return [0, v[1]]
    if t == "res":
        return [2, v[1]]
    if t == "sum":
        out = [4, v[1], len(v[2])]
        for x in v[2]:
            out += enc_val(x)
        return out
    if t == "tuple":
        out = [5, len(v[1])]
        for x in v[1]:
            out += enc_val(x)
        return out
    if t == "arr":
        out = [6, len(v[1])]
        for c in v[1]:
            out += [0] if c is None else [1] + enc_val(c)
        return out
    raise ValueError(v)


def coq_val(v):
    t = v[0]
    if t == "int":
        return f"(VInt ({v[1]})%Z)"
    if t == "res":
        return f"(VRes ({v[1]})%Z)"
    if t == "arr":
        return "(VArr [" + "; ".join("None" if c is None else f"Some {coq_val(c)}" for c in v[1]) + "])"
    if t == "tuple":
        return "(VTuple [" + "; ".join(coq_val(x) for x in v[1]) + "])"
    if t == "sum":
        return f"(VSum {v[1]} [" + "; ".join(coq_val(x) for x in v[2]) + "])"
    raise ValueError(v)


def enc_ok(vals):
    out = [0, len(vals)]
    for v in vals:
        out += enc_val(v)
    return out


PANIC = "panic"


def indices(n, thorough=True):
    base = {-M63, -n, -1, 0, n - 1, n, M63 - 1} | set(range(min(n, 3)))
    if thorough:
        base |= {-n - 1, n // 2, n + 1, -M63 + 1, M63 - 2} | set(range(min(n, 6)))
    return sorted(base)


def in_range(n, i):
    return 0 <= i < n


# ---- the specification: Python list semantics restricted to non-negative indices; every other
# ---- index, and every access to a cell that is lent out, must panic and produce nothing.
def spec(family, params, inputs):
    """-> list of expected output values, or PANIC"""
    n = params["n"]
    if family == "get_c":
        cells, i = inputs[0][1], inputs[-1][1] if params.get("index") == "var" else params["index"]
        if in_range(n, i) and cells[i] is not None:
            return [cells[i], ("arr", list(cells))]
        return PANIC
    if family == "set_c":
        cells, i, v = inputs[0][1], inputs[1][1], inputs[2]
        if in_range(n, i) and cells[i] is not None:
            new = list(cells)
            new[i] = v
            return [("arr", new)]
        return PANIC
    if family == "use1":
        cells, i = inputs[0][1], inputs[1][1]
        return [("arr", list(cells))] if in_range(n, i) and cells[i] is not None else PANIC
    if family == "use2":
        cells, i, j = inputs[0][1], inputs[1][1], inputs[2][1]
        ok = in_range(n, i) and in_range(n, j) and i != j and cells[i] is not None and cells[j] is not None
        return [("arr", list(cells))] if ok else PANIC
    if family == "copy":
        cells = inputs[0][1]
        return [("arr", list(cells)), ("arr", list(cells))] if all(c is not None for c in cells) else PANIC
    if family == "unpack":
        cells = inputs[0][1]
        l, r = params["l"], params["r"]
        left, right, mid = cells[:l], cells[n - r:] if r else [], cells[l:n - r]
        if any(c is None for c in left + right):      # a popped cell is lent out
            return PANIC
        return list(left) + ([("arr", list(mid))] if params["star"] else []) + list(right)
    if family == "comp":
        count, cells, elt = inputs[0][1], inputs[1][1], inputs[2]
        if in_range(n, count) and cells[count] is None:
            new = list(cells)
            new[count] = elt
            return [("arr", new), ("int", count + 1)]
        return PANIC
    if family in NESTED:
        return spec_nested(family, params, inputs)
    if family in ELEM:
        return spec_elem(family, params, inputs)
    if family == "next_some":
        i, cells = inputs[0][1], inputs[1][1]
        if in_range(n, i) and cells[i] is not None:
            new = list(cells)
            new[i] = None
            return [("sum", 1, [("tuple", [cells[i], ("tuple", [("arr", new), ("int", i + 1)])])])]
        return PANIC
    raise ValueError(family)


ELEM = {"elem_read", "elem_lend", "elem_leaf_read", "elem_assign", "augassign", "elem_read2"}


def elem_val(kind, k):
    """element number k of an array of structs / tuples / rows"""
    if kind == "row":
        return ("arr", [("int", 10 * k), ("int", 10 * k + 1)])
    return ("tuple", [("arr", [("int", 10 * k), ("int", 10 * k + 1)]), ("int", 7 + k)])


def spec_elem(family, params, inputs):
    n = params["n"]
    arr = inputs[0]
    if family == "elem_read2":
        e = leaf_at(arr, (n, params["m"]), (inputs[1][1], inputs[2][1]))
        return [e[1][1], arr] if e is not None else PANIC
    if family == "augassign":
        if params["index"] == "var":
            i = inputs[1][1]
            e = leaf_at(arr, (n,), (i,))
            return [replace_at(arr, (i,), ("int", e[1] + 1))] if e is not None else PANIC
        k = inputs[1][1][0][1]      # xs[e] += 1 evaluates e ONCE: element k is read and written
        e = leaf_at(arr, (n,), (k,))
        return [replace_at(arr, (k,), ("int", e[1] + 1)), ("arr", [("int", k + 1)])] if e is not None else PANIC
    i = inputs[1][1]
    e = leaf_at(arr, (n,), (i,))
    if e is None:
        return PANIC
    if family == "elem_read":
        return [("int", e[1][1][1] * params["reads"]), arr]
    if family == "elem_lend":
        return [e[1][1], arr]
    if family == "elem_leaf_read":
        return [e[1][0][1][1], arr]
    if family == "elem_assign":
        new = ("arr", [("int", 1), ("int", 2)])
        return [replace_at(arr, (i,), new if params["elem"] == "row" else ("tuple", [new, ("int", 5)]))]
    raise ValueError(family)


def grid_elem(family, params, rng, thorough):
    n = params["n"]
    I = indices(n, thorough)
    if family == "augassign":
        full = ("arr", [("int", 100 + k) for k in range(n)])
        return [[full, ("int", i)] if params["index"] == "var" else [full, ("arr", [("int", i)])] for i in I]
    if family == "elem_read2":
        full = ("arr", [("arr", [elem_val("struct", 2 * a + b) for b in range(params["m"])]) for a in range(n)])
        return [[full, ("int", i), ("int", j)] for i in sorted(set(range(n)) | {-1, n}) for j in sorted(set(range(params["m"])) | {-1, params["m"]})]
    full = ("arr", [elem_val(params["elem"], k) for k in range(n)])
    lent = replace_at(full, (rng.randrange(n),), None)
    return [[a, ("int", i)] for a in (full, lent) for i in I]


def has_lent(v):
    if v is None:
        return True
    if v[0] == "arr":
        return any(has_lent(c) for c in v[1])
    if v[0] == "tuple":
        return any(has_lent(c) for c in v[1])
    if v[0] == "sum":
        return any(has_lent(c) for c in v[2])
    return False


def decode(enc):
    """inverse of enc_outcome (Array.v): -> ("ok", [values]) | ("panic", code) | ("stuck",)"""
    pos = [0]

    def nxt():
        pos[0] += 1
        return enc[pos[0] - 1]

    def val():
        t = nxt()
        if t == 0:
            return ("int", nxt())
        if t == 1:
            return ("usize", nxt())
        if t == 2:
            return ("res", nxt())
        if t == 3:
            return ("err",)
        if t == 4:
            tag, k = nxt(), nxt()
            return ("sum", tag, [val() for _ in range(k)])
        if t == 5:
            k = nxt()
            return ("tuple", [val() for _ in range(k)])
        if t == 6:
            k = nxt()
            return ("arr", [val() if nxt() == 1 else None for _ in range(k)])
        raise ValueError(t)
    head = nxt()
    if head == 1:
        return ("panic", nxt())
    if head == 2:
        return ("stuck",)
    k = nxt()
    return ("ok", [val() for _ in range(k)])


def balance(region):
    """Static, family-independent invariant on a basic block: follow every borrow_array value from
    the block inputs through borrow/return/get/set/unwrap and report
      * a `return` into an array that came into the block whole (a parameter) with no outstanding
        borrow at that index wire  (it can only panic: the slot is occupied), and
      * a block output array that still has an outstanding borrow (a cell left lent at exit).
    Index wires are compared by the int register feeding `itousize`.  Arrays of unknown provenance
    (elements taken out of other arrays, call results) are not judged."""
    k = region["n_inputs"]
    state = {r: ("whole", ()) for r in range(k)}      # reg -> (origin, outstanding index wires)
    src, problems = {}, []
    for i in region["instrs"]:
        if "cond" in i:
            # unwrap of a `set` result: outputs (old element, array)
            st = state.get(i["cond"])
            if st is not None and st[0] == "sum" and i["nout"] == 2:
                state[k + 1] = st[1]
        else:
            name, ins = i["op"][0], i["ins"]
            if name == "itousize":
                src[k] = ins[0]
            elif name == "borrow" and ins[0] in state:
                o, out = state[ins[0]]
                state[k] = (o, out + (src.get(ins[1], ins[1]),))
            elif name == "return" and ins[0] in state:
                o, out = state[ins[0]]
                w = src.get(ins[1], ins[1])
                if w in out:
                    lst = list(out)
                    lst.remove(w)
                    state[k] = (o, tuple(lst))
                elif o == "whole":
                    problems.append(f"return<{i['op'][1]}> into array r{ins[0]} at index wire r{w}: the array came in whole and "
                                    f"no borrow at that wire is outstanding (outstanding: {['r%d' % x for x in out]}) - the slot is occupied, the op can only panic")
                    state[k] = (o, out)
                else:
                    state[k] = (o, out)
            elif name == "get" and ins[0] in state:
                state[k + 1] = state[ins[0]]
            elif name == "set" and ins[0] in state:
                state[k] = ("sum", state[ins[0]])
            elif name == "new_all_borrowed":
                state[k] = ("unknown", ())
        k += i["nout"]
    for pos, r in enumerate(region["outs"]):
        st = state.get(r)
        if st is not None and st[0] == "whole" and st[1]:
            problems.append(f"block output {pos} (array r{r}) still has cells lent at exit: borrows at index wires "
                            f"{['r%d' % x for x in st[1]]} were never matched by a return")
    return problems


NESTED = {"lend_nested", "lend_nested_oracle", "lend_nested_inner_oracle", "lend_nested_arith", "lend2_nested_oracle",
          "lend_nested_poke", "get_nested", "set_nested", "use1_oracle", "lend_nested3"}


def wrap64(z):
    return (z + M63) % (1 << 64) - M63


def leaf_at(arr, dims, idx):
    """the leaf addressed by the index path, or None when an index is out of range / a cell on the
    path is lent"""
    cur = arr
    for d, i in zip(dims, idx):
        if not in_range(d, i) or cur[1][i] is None:
            return None
        cur = cur[1][i]
    return cur


def replace_at(arr, idx, new):
    if not idx:
        return new
    cells = list(arr[1])
    cells[idx[0]] = replace_at(cells[idx[0]], idx[1:], new)
    return ("arr", cells)


def spec_nested(family, params, inputs):
    """list semantics for nested subscripts.  Index expressions are evaluated ONCE each; the oracle
    `bump` returns the counter value k and leaves k+1 (successive different values)."""
    n, m = params["n"], params.get("m")
    arr = inputs[0]
    if family == "lend_nested":
        return [arr] if leaf_at(arr, (n, m), (inputs[1][1], inputs[2][1])) is not None else PANIC
    if family == "lend_nested3":
        return [arr] if leaf_at(arr, (n, m, params["p"]), tuple(x[1] for x in inputs[1:4])) is not None else PANIC
    if family in ("lend_nested_oracle", "lend_nested_poke"):
        k = inputs[1][1][0][1]
        leaf = leaf_at(arr, (n, m), (k, params["c"]))
        if leaf is None:
            return PANIC
        if family == "lend_nested_poke":
            arr = replace_at(arr, (k, params["c"]), ("arr", [("int", leaf[1][0][1] + 1000)]))
        return [arr, ("arr", [("int", k + 1)])]
    if family == "lend_nested_inner_oracle":
        k = inputs[2][1][0][1]
        return [arr, ("arr", [("int", k + 1)])] if leaf_at(arr, (n, m), (inputs[1][1], k)) is not None else PANIC
    if family == "lend_nested_arith":
        return [arr] if leaf_at(arr, (n, m), (wrap64(inputs[1][1] + 1), 0)) is not None else PANIC
    if family == "lend2_nested_oracle":
        k = inputs[1][1][0][1]
        ok = leaf_at(arr, (n, m), (k, params["c0"])) is not None and leaf_at(arr, (n, m), (k + 1, params["c1"])) is not None
        return [arr, ("arr", [("int", k + 2)])] if ok else PANIC
    if family == "use1_oracle":
        k = inputs[1][1][0][1]
        return [arr, ("arr", [("int", k + 1)])] if leaf_at(arr, (n,), (k,)) is not None else PANIC
    if family == "get_nested":
        leaf = leaf_at(arr, (n, m), (inputs[1][1], inputs[2][1]))
        return [leaf, arr] if leaf is not None else PANIC
    if family == "set_nested":
        i, j = inputs[1][1], inputs[2][1]
        if leaf_at(arr, (n, m), (i, j)) is None:
            return PANIC
        return [replace_at(arr, (i, j), inputs[3])]
    raise ValueError(family)


def grid_nested(family, params, rng, thorough):
    n, m = params["n"], params.get("m")
    kind = params["leaf"]

    def leaf(i, j, k=None):
        tag = 100 * i + 10 * j + (k or 0)
        return ("res", tag) if kind == "qubit" else ("arr", [("int", tag)]) if kind == "intarr" else ("int", 1000 + tag)
    if family == "use1_oracle":
        full = ("arr", [("res", 7 + k) for k in range(n)])
    elif family == "lend_nested3":
        full = ("arr", [("arr", [("arr", [leaf(i, j, k) for k in range(params["p"])]) for j in range(m)]) for i in range(n)])
    else:
        full = ("arr", [("arr", [leaf(i, j) for j in range(m)]) for i in range(n)])
    arrays = [full]
    if family != "use1_oracle":
        i0, j0 = rng.randrange(n), rng.randrange(m)
        arrays.append(replace_at(full, (i0, j0), None))     # an inner cell is lent out
    arrays.append(replace_at(full, (rng.randrange(n),), None))  # an outer cell is lent out
    out = []
    I, J = indices(n, thorough), indices(m, thorough) if m is not None else [None]
    ctr = lambda k: ("arr", [("int", k)])  # noqa: E731
    for a in arrays:
        if family in ("lend_nested", "get_nested", "set_nested"):
            pairs = [(i, j) for i in I for j in J]
            if not thorough and len(pairs) > 36:
                pairs = [(i, j) for i in range(n) for j in range(m)] + rng.sample(pairs, 24)
            for i, j in pairs:
                out.append([a, ("int", i), ("int", j)] + ([("int", 4242)] if family == "set_nested" else []))
        elif family == "lend_nested3":
            trip = [(i, j, k) for i in range(n) for j in range(m) for k in range(params["p"])]
            trip += [(rng.choice(I), rng.choice(J), rng.choice(indices(params["p"], thorough))) for _ in range(14)]
            for i, j, k in trip:
                out.append([a, ("int", i), ("int", j), ("int", k)])
        elif family in ("lend_nested_oracle", "lend_nested_poke", "lend2_nested_oracle", "use1_oracle"):
            for k in I:
                out.append([a, ctr(k)])
        elif family == "lend_nested_inner_oracle":
            for i in (I if thorough else sorted(set(range(n)) | {-1, n})):
                for k in J:
                    out.append([a, ("int", i), ctr(k)])
        elif family == "lend_nested_arith":
            for i in sorted(set(I) | {-2, M63 - 1}):
                out.append([a, ("int", i)])
    return out


def grid(family, params, rng, thorough):
    """input vectors (lists of python values) for one case"""
    if family in NESTED:
        return grid_nested(family, params, rng, thorough)
    if family in ELEM:
        return grid_elem(family, params, rng, thorough)
    n = params["n"]
    linear = family in ("use1", "use2") or params.get("ty") == "qubit"
    base = [("res", k) if linear else ("int", 100 + k) for k in range(n)]
    arrays = [list(base)]
    if n > 0:
        lent = list(base)
        lent[rng.randrange(n)] = None
        arrays.append(lent)
    out = []
    idx = indices(n, thorough)
    if family == "get_c":
        for a in arrays:
            for i in (idx if params["index"] == "var" else [None]):
                out.append([("arr", a)] + ([("int", i)] if i is not None else []))
    elif family == "set_c":
        for a in arrays:
            for i in idx:
                out.append([("arr", a), ("int", i), ("int", 7777)])
    elif family == "use1":
        for a in arrays:
            for i in idx:
                out.append([("arr", a), ("int", i)])
    elif family == "use2":
        pairs = [(i, j) for i in idx for j in idx]
        if not thorough and len(pairs) > 40:
            pairs = [(i, i) for i in idx] + rng.sample(pairs, 25)
        for a in arrays:
            for i, j in pairs:
                out.append([("arr", a), ("int", i), ("int", j)])
    elif family in ("copy", "unpack"):
        for a in arrays:
            out.append([("arr", a)])
    elif family == "comp":
        for filled in sorted({0, n // 2, n - 1, n}):
            a = [base[k] if k < filled else None for k in range(n)]
            for c in idx:
                out.append([("int", c), ("arr", a), ("res", 55) if linear else ("int", 55)])
    elif family == "next_some":
        for a in arrays:
            for i in idx:
                out.append([("int", i), ("arr", a)])
    return out
