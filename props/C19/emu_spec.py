"""Supporting evidence for the TRUSTED op spec of coq/C19/Array.v (never a theorem, never about
/repo): run four tiny array programs on the one runtime the sandbox has - the venv's own
guppylang 1.0.4 + selene, whose compiler emits the same collections.borrow_arr / itousize ops -
and print what happens.  Run with plain /venv/bin/python (no PYTHONPATH), thorough tier only.
Expected (and what Array.v says): a negative or too large index panics with /repo's unwrap
message, lending the same qubit twice panics with the op's "already borrowed" message, unpacking /
iteration / comprehension see the elements in index order."""
import json

from guppylang import guppy
from guppylang.std.builtins import array, result
from guppylang.std.quantum import cx, discard_array, qubit


@guppy
def rd(xs: array[int, 3], i: int) -> int:
    return xs[i]


@guppy
def two(qs: array[qubit, 3], i: int, j: int) -> None:
    cx(qs[i], qs[j])


@guppy
def main_neg() -> None:
    xs = array(10, 11, 12)
    result("b", rd(xs, -1))


@guppy
def main_oob() -> None:
    xs = array(10, 11, 12)
    result("b", rd(xs, 3))


@guppy
def main_alias() -> None:
    qs = array(qubit() for _ in range(3))
    two(qs, 0, 2)
    two(qs, 1, 1)
    discard_array(qs)


@guppy
def main_order() -> None:
    xs = array(10, 11, 12, 13, 14)
    a, b, *c, d = xs
    result("a", a)
    result("b", b)
    result("d", d)
    for x in c:
        result("c", x)
    ys = array(x + 1 for x in array(1, 2, 3))
    for y in ys:
        result("y", y)
    result("r", rd(array(7, 8, 9), 2))


out = {}
for name in ["main_neg", "main_oob", "main_alias", "main_order"]:
    f = globals()[name]
    try:
        res = f.emulator(n_qubits=4).with_seed(1).run()
        out[name] = ["ok", [[k, v] for shot in res.results for (k, v) in shot.entries]]
    except Exception as e:  # noqa: BLE001
        out[name] = ["exc", type(e).__name__, str(e)[:200]]
print(json.dumps(out))
