"""Implementation side of C19: compile small array programs with the compiler of the tree under
test (through repo_shim) and return, for every function of the resulting HUGR module and every
dataflow region of interest, the emitted op sequence in the canonical form of coq/C19/Array.v:

  * the registers of a region are numbered in definition order: outputs of the region's Input
    node first, then the outputs of every retained node in emission order;
  * an instruction is {"op": [name, static args...], "ins": [regs], "nout": k} or
    {"cond": reg, "others": [regs], "cases": [{"body": [...], "outs": [regs]}], "nout": k};
  * `unpack_tuple(make_tuple(a, b, ..))` forwards a, b, ..; pure plumbing nodes (LoadConst, Tag,
    MakeTuple, UnpackTuple) that nothing retained depends on are dropped from DataflowBlocks (dead-code elimination; the CFG branch value of a block is
    not a root).  Regions nested in Conditionals / TailLoops are kept verbatim.

stdin: {"source": <python module text>, "funcs": [names to compile]}
stdout: {"results": {name: {"ok": true, "module": {func_name: [region, ...]}} | {"ok": false, "error": ...}}}
No compiler logic lives here: only reading of the HUGR the compiler produced."""
import importlib.util
import json
import os
import sys

PURE = {"LoadConst", "Tag", "MakeTuple", "UnpackTuple"}
BARR = "collections.borrow_arr"
BARR_N = {"get", "set", "borrow", "return", "pop_left", "pop_right", "unpack", "new_array",
          "new_all_borrowed", "discard_all_borrowed", "clone"}


class Unsupported(Exception):
    pass


def nat_arg(a):
    n = getattr(a, "n", None)
    if isinstance(n, int):
        return str(n)
    return "$" + str(getattr(a, "idx", a))


def describe(m, node):
    """-> (tokens, n_value_inputs, n_outputs, kind)"""
    op = m[node].op
    t = type(op).__name__
    if t == "LoadConst":
        src = list(m.linked_ports(node.inp(0)))
        val = m[src[0].node].op.val if src else None
        vt = type(val).__name__
        if vt == "IntVal":
            v = val.v
            w = 1 << (1 << val.width)
            if v >= w // 2:
                v -= w
            return ["const_int", str(v)], 0, 1, t
        if vt == "ErrorVal":
            return ["const_err", val.message], 0, 1, t
        return ["const_other", str(val)[:60]], 0, 1, t
    try:
        sig = op.outer_signature()
        n_in, n_out = len(sig.input), len(sig.output)
    except Exception as e:  # noqa: BLE001
        raise Unsupported(f"no signature for {t}: {e}") from e
    if t == "ExtOp":
        d = op.op_def()
        ext = d._extension.name if d._extension is not None else "?"
        name = d.name
        if ext == BARR and name in BARR_N:
            return [name, nat_arg(op.args[0])], n_in, n_out, t
        if ext == BARR and name == "discard_empty":
            return [name], n_in, n_out, t
        if ext == "arithmetic.conversions" and name == "itousize":
            return ["itousize"], n_in, n_out, t
        if ext == "arithmetic.int" and name == "iadd":
            return ["iadd"], n_in, n_out, t
        if ext == "prelude" and name == "panic":
            return ["panic", str(n_out)], n_in, n_out, t
        if ext.startswith("tket.quantum") or ext.startswith("tket.qsystem"):
            return ["gate", name], n_in, n_out, t
        return ["other", f"{ext}.{name}", str(n_out)], n_in, n_out, t
    if t == "Tag":
        return ["tag", str(op.tag)], n_in, n_out, t
    if t == "MakeTuple":
        return ["make_tuple"], n_in, n_out, t
    if t == "UnpackTuple":
        return ["unpack_tuple"], n_in, n_out, t
    if t == "Call":
        tgt = list(m.linked_ports(node.inp(n_in)))
        fname = getattr(m[tgt[0].node].op, "f_name", "?") if tgt else "?"
        return ["call", fname, str(n_out)], n_in, n_out, t
    return ["other", t, str(n_out)], n_in, n_out, t


def region(m, parent, dce, skip_out0):
    ch = list(m.children(parent))
    if len(ch) < 2 or type(m[ch[0]].op).__name__ != "Input" or type(m[ch[1]].op).__name__ != "Output":
        raise Unsupported("region without Input/Output")
    inp, outp = ch[0], ch[1]
    nodes = []
    alias, made = {}, {}
    for c in ch[2:]:
        t = type(m[c].op).__name__
        if t in ("Const", "FuncDefn", "FuncDecl", "AliasDefn", "AliasDecl"):
            continue
        tokens, n_in, n_out, kind = describe(m, c)
        srcs = []
        for i in range(n_in):
            ps = list(m.linked_ports(c.inp(i)))
            if len(ps) != 1:
                raise Unsupported(f"in-port {i} of node {c.idx} has {len(ps)} sources")
            srcs.append((ps[0].node.idx, ps[0].offset))
        srcs = [alias.get(x, x) for x in srcs]
        if kind == "UnpackTuple" and srcs[0][0] in made and len(made[srcs[0][0]]) == n_out:
            # unpack_tuple(make_tuple(a, b, ..)) is the identity on a, b, ..: forward the wires
            for j in range(n_out):
                alias[(c.idx, j)] = made[srcs[0][0]][j]
            continue
        if kind == "MakeTuple":
            made[c.idx] = list(srcs)
        nodes.append({"node": c, "tokens": tokens, "srcs": srcs, "nout": n_out, "kind": kind})
    n_region_out = m.num_in_ports(outp)
    out_srcs = []
    for i in range(n_region_out):
        ps = list(m.linked_ports(outp.inp(i)))
        out_srcs.append(alias.get((ps[0].node.idx, ps[0].offset), (ps[0].node.idx, ps[0].offset)) if len(ps) == 1 else None)
    keep = {x["node"].idx for x in nodes}
    if dce:
        need = {x["node"].idx for x in nodes if x["kind"] not in PURE}
        roots = out_srcs[1:] if skip_out0 else out_srcs
        need |= {s[0] for s in roots if s is not None}
        changed = True
        while changed:
            changed = False
            for x in nodes:
                if x["node"].idx in need:
                    for s in x["srcs"]:
                        if s[0] not in need:
                            need.add(s[0])
                            changed = True
        keep &= need
    reg, k = {}, 0
    for j in range(m.num_out_ports(inp)):
        reg[(inp.idx, j)] = k
        k += 1
    n_inputs = k
    instrs = []
    for x in nodes:
        c = x["node"]
        if c.idx not in keep:
            continue
        try:
            ins = [reg[s] for s in x["srcs"]]
        except KeyError as e:
            raise Unsupported(f"node {c.idx} uses a value not defined earlier in its region: {e}") from e
        if x["kind"] == "Conditional":
            cases = []
            for case in m.children(c):
                sub = region(m, case, False, False)
                cases.append({"body": sub["instrs"], "outs": sub["outs"]})
            instrs.append({"cond": ins[0], "others": ins[1:], "cases": cases, "nout": x["nout"]})
        else:
            ins_d = {"op": x["tokens"], "ins": ins, "nout": x["nout"]}
            if x["kind"] == "TailLoop":
                ins_d["loop_body"] = region(m, c, False, False)
            instrs.append(ins_d)
        for j in range(x["nout"]):
            reg[(c.idx, j)] = k
            k += 1
    outs = [reg.get(s, -1) if s is not None else -1 for s in out_srcs]
    if skip_out0:
        outs = outs[1:]
    return {"n_inputs": n_inputs, "instrs": instrs, "outs": outs}


def module_regions(m):
    root = m.module_root if hasattr(m, "module_root") else m.root
    out = {}
    for f in m.children(root):
        op = m[f].op
        if type(op).__name__ != "FuncDefn":
            continue
        blocks = []
        for c in m.children(f):
            if type(m[c].op).__name__ == "CFG":
                for b in m.children(c):
                    if type(m[b].op).__name__ == "DataflowBlock":
                        try:
                            blocks.append(region(m, b, True, True))
                        except Unsupported as e:
                            blocks.append({"unsupported": str(e)})
        out[op.f_name] = blocks
    return out


def main():
    req = json.load(sys.stdin)
    import repo_shim  # noqa: F401
    from guppylang_internals.error import GuppyError
    path = os.path.join(os.getcwd(), f"c19_prog_{os.getpid()}.py")
    with open(path, "w") as fh:
        fh.write(req["source"])
    spec = importlib.util.spec_from_file_location("c19_prog", path)
    mod = importlib.util.module_from_spec(spec)
    sys.modules["c19_prog"] = mod
    results = {}
    try:
        spec.loader.exec_module(mod)
    except Exception as e:  # noqa: BLE001
        json.dump({"fatal": f"{type(e).__name__}: {e}"[:2000]}, sys.stdout)
        return
    for name in req["funcs"]:
        try:
            pkg = getattr(mod, name).compile_function()
            results[name] = {"ok": True, "module": module_regions(pkg.modules[0])}
        except GuppyError as e:
            results[name] = {"ok": False, "error": "GuppyError:" + type(e.error).__name__,
                             "text": str(getattr(e.error, "rendered_title", ""))[:200]}
        except Exception as e:  # noqa: BLE001
            results[name] = {"ok": False, "error": f"{type(e).__name__}: {e}"[:500]}
    json.dump({"results": results}, sys.stdout)


if __name__ == "__main__":
    main()
