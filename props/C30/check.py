"""C30 — span containment / intersection.  Tie: T (translator) + translator validation.

1. regenerate coq/C30/GenSpan.v from /repo's span.py (fail-closed translator);
2. re-check the theorems of coq/C30/Props.v against the regenerated definitions;
3. validate the translator's reading: evaluate the generated definitions inside Coq on a
   grid of spans/locations and compare with the real Span methods on the same inputs;
4. if a proof obligation broke: search the implementation against the interval
   specification on an exhaustive small grid for a concrete failing pair."""
import itertools

import vlib
from vlib import proof_coverage

LEVEL = "proof"
SRC = "span.py"


def generate(ctx):
    import tr_span
    ctx.gen("GenSpan.v", tr_span.translate(ctx.int_src(SRC)))


def grid(files, lines, cols):
    locs = [(f, l, c) for f in files for l in lines for c in cols]
    spans = [(a[0], a[1], a[2], b[1], b[2]) for a in locs for b in locs if a[0] == b[0] and (a[1], a[2]) <= (b[1], b[2])]
    return locs, spans


def spec(kind, a, b):
    """Interval semantics, written independently of the code (Python tuples)."""
    if kind == "cs":
        return [1 if a[0] == b[0] and (a[1], a[2]) <= (b[1], b[2]) and (b[3], b[4]) <= (a[3], a[4]) else 0]
    if kind == "cl":
        return [1 if a[0] == b[0] and (a[1], a[2]) <= (b[1], b[2]) <= (a[3], a[4]) else 0]
    if a[0] != b[0]:
        return [0]
    s, e = max((a[1], a[2]), (b[1], b[2])), min((a[3], a[4]), (b[3], b[4]))
    return [1, s[0], s[1], e[0], e[1]] if s <= e else [0]


def coq_cases(cases):
    def sp(s):
        return f'(mkSpan (mkLoc "{s[0]}" {s[1]} {s[2]}) (mkLoc "{s[0]}" {s[3]} {s[4]}))'
    lines = ["From Coq Require Import ZArith List String.", "From V.C30 Require Import SpanBase GenSpan.",
             "Import ListNotations. Open Scope Z_scope.",
             "Definition enc_b (r : res bool) : list Z := match r with Ok true => [1] | Ok false => [0] | Raise _ => [2] end.",
             "Definition enc_s (r : res (option Span)) : list Z := match r with Ok None => [0] | Raise _ => [2] | Ok (Some s) => [1; loc_line (span_start s); loc_column (span_start s); loc_line (span_end s); loc_column (span_end s)] end.",
             "Definition cases : list (list Z) := ["]
    items = []
    for kind, a, b in cases:
        if kind == "cs":
            items.append(f"enc_b (span_contains_span {sp(a)} {sp(b)})")
        elif kind == "cl":
            items.append(f'enc_b (span_contains_loc {sp(a)} (mkLoc "{b[0]}" {b[1]} {b[2]}))')
        else:
            items.append(f"enc_s (span_and {sp(a)} {sp(b)})")
    lines.append(";\n".join(items) + "].")
    lines.append("Eval vm_compute in cases.")
    return "\n".join(lines)


def run(ctx):
    generate(ctx)
    info = ctx.coq_props()
    r = vlib.rng(ctx.seed, "C30")
    # --- translator validation on a grid (all pairs on a tiny grid + random larger ones)
    locs, spans = grid(["a.py", "b.py"], [1, 2], [0, 3])
    cases = [("cs", a, b) for a in spans for b in spans] + [("and", a, b) for a in spans for b in spans] \
        + [("cl", a, l) for a in spans for l in locs]
    n_rand = 600 if ctx.quick else 6000
    blocs, bspans = grid(["a.py", "b.py", "c"], [1, 2, 3, 7], [0, 1, 4, 5, 9])
    for _ in range(n_rand):
        k = r.choice(["cs", "and", "cl"])
        cases.append((k, r.choice(bspans), r.choice(blocs) if k == "cl" else r.choice(bspans)))
    impl = __import__("json").loads(ctx.impl("impl_span.py", [[k, list(a), list(b)] for k, a, b in cases]))
    model = []
    if info["ok"] or (vlib.COQ / "C30" / "GenSpan.vo").exists():
        chunks = [cases[i:i + 500] for i in range(0, len(cases), 500)]
        try:
            outs = ctx.coq_eval_many({f"cases{i}": coq_cases(c) for i, c in enumerate(chunks)})
            for i in range(len(chunks)):
                model += vlib.parse_coq_values(outs[f"cases{i}"])[0]
        except RuntimeError as e:
            model = None
            ctx.notes.append(f"model evaluation failed: {e}")
    disagreements = 0
    if model is not None and len(model) == len(cases):
        for c, i, m in zip(cases, impl, model):
            if i != m:
                disagreements += 1
                if disagreements <= 3:
                    ctx.report(f"translator-mismatch:{c}", "correspondence", "GenSpan vs Span methods",
                               {"case": c, "impl": i, "model": m,
                                "meaning": "the generated Coq definition and the real method disagree: the translator's reading of span.py is wrong or span.py uses Python semantics outside the translated subset"})
    # --- spec-vs-implementation on the same cases (the failing-input search; always run, cheap)
    spec_fail = [(c, i, spec(*c)) for c, i in zip(cases, impl) if i != spec(*c)]
    if not info["ok"]:
        if spec_fail:
            c, i, s = spec_fail[0]
            ctx.report(f"spec:{c}", "counterexample", f"theorem file C30/Props.v no longer checks ({info['failed']})",
                       {"case": {"kind": c[0], "a": c[1], "b": c[2]}, "implementation": i, "interval_semantics": s,
                        "encoding": "contains: [1]=True [0]=False [2]=raised; and: [0]=None [1,l1,c1,l2,c2]=Span",
                        "coq_error": vlib.CoqResult(False, info["log"]).error_excerpt(),
                        "replay": "PYTHONPATH=/repo/guppylang-internals/src /venv/bin/python -c 'from guppylang_internals.span import *; ...' with the spans above"})
        else:
            ctx.report("proof-broken:" + str(info["failed"]), "proof-broken", str(info["failed"]),
                       {"coq_error": vlib.CoqResult(False, info["log"]).error_excerpt(), "searched_cases": len(cases)},
                       found_input=False)
    elif spec_fail:
        c, i, s = spec_fail[0]
        ctx.report(f"spec:{c}", "counterexample", "implementation differs from interval semantics although proofs pass (translator gap)",
                   {"case": c, "implementation": i, "interval_semantics": s})
    distinct = len({(c[0], c[1], c[2]) for c in cases})
    nontrivial = len({c for c, i in zip(cases, impl) if i != [0]})
    cov = proof_coverage(
        info, "make C30/Props.vo && coqc C30/Props.v (Print Assumptions)",
        ["Coq 8.16.1 kernel (vm_compute used in Examples only)",
         "props/C30/tr_span.py + tools/tr_common.py: reading of Python comparison chains, and/or, max/min, dataclass(order=True) as lexicographic order",
         "modelled: Loc/Span records and the four method bodies of span.py; everything else in span.py (to_span, SourceMap) is not modelled"],
        evaluations=len(cases), distinct_nontrivial=nontrivial,
        rule="cases = all pairs over a 2-file x 2-line x 2-column grid for `in`/`&` plus seeded random pairs over a larger grid; non-trivial = the implementation's answer is not False/None",
        traces_validated_against_impl=len(cases) if model else 0, translator_disagreements=disagreements,
        samples=[{"case": cases[j], "impl": impl[j]} for j in (0, len(cases) // 2, len(cases) - 1)],
        notes=ctx.notes)
    return ctx.finish(LEVEL, cov, ["span.py method bodies are read by the translator as pure boolean expressions",
                                   "String order on file names = Coq String.compare (only equality of files matters in every theorem)"])
