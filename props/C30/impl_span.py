"""Implementation side for C30: run /repo's Span methods on the given cases (stdin JSON).
Each case: [kind, spanA, spanB_or_loc] with span = [file, l1, c1, l2, c2], loc = [file, l, c].
Output: one JSON list of result codes, same encoding as the Coq side:
  contains -> [0|1] ; raise -> [2] ; and -> [0] | [1, l1, c1, l2, c2] | [2]"""
import json
import sys

from guppylang_internals.span import Loc, Span


def mk(s):
    return Span(Loc(s[0], s[1], s[2]), Loc(s[0], s[3], s[4]))


out = []
for kind, a, b in json.load(sys.stdin):
    try:
        A = mk(a)
        if kind == "cs":
            r = [1 if (mk(b) in A) else 0]          # b in a  ==  a.__contains__(b)
        elif kind == "cl":
            r = [1 if (Loc(*b) in A) else 0]
        else:
            s = A & mk(b)
            r = [0] if s is None else [1, s.start.line, s.start.column, s.end.line, s.end.column]
    except Exception as e:  # noqa: BLE001
        r = [2]
    out.append(r)
json.dump(out, sys.stdout)
