"""Translate span.py's Loc ordering contract and the bodies of Span.__post_init__,
Span.file, Span.__contains__ and Span.__and__ into Coq (coq/C30/GenSpan.v)."""
import ast

from tr_common import (ExprTr, HEADER, TranslatorError, dataclass_fields, decorator_kwargs,
                       find_class, find_func, parse_file, strip_doc, Z_OPS, BOOL_OPS, STR_OPS)

LOC_OPS = {
    "eq": ("loc_eqb {a} {b}", "bool"), "ne": ("negb (loc_eqb {a} {b})", "bool"),
    "le": ("loc_leb {a} {b}", "bool"), "lt": ("loc_ltb {a} {b}", "bool"),
    "ge": ("loc_leb {b} {a}", "bool"), "gt": ("loc_ltb {b} {a}", "bool"),
    "max": ("loc_max {a} {b}", "Loc"), "min": ("loc_min {a} {b}", "Loc"),
}


def mk_tr(env, facts=None):
    def span_ctor(tr, call):
        if len(call.args) != 2 or call.keywords:
            tr.fail(call, "Span(...) with unexpected arguments")
        (a, ta), (b, tb) = tr.expr(call.args[0]), tr.expr(call.args[1])
        if ta != "Loc" or tb != "Loc":
            tr.fail(call, "Span(...) arguments must be Loc")
        return f"(mkSpan {a} {b})", "Span!"  # '!' = freshly constructed: __post_init__ runs

    return ExprTr(
        env=env,
        attrs={("Span", "start"): ("span_start", "Loc"), ("Span", "end"): ("span_end", "Loc"),
               ("Span", "file"): ("span_file", "string"),
               ("Loc", "file"): ("loc_file", "string"), ("Loc", "line"): ("loc_line", "Z"),
               ("Loc", "column"): ("loc_column", "Z")},
        ops={"Z": Z_OPS, "bool": BOOL_OPS, "string": STR_OPS, "Loc": LOC_OPS},
        calls={"Span": span_ctor},
        isinstance_facts=facts or {},
    )


def raise_(node):
    if isinstance(node, ast.Raise) and isinstance(node.exc, ast.Call) and node.exc.args and isinstance(node.exc.args[0], ast.Constant):
        return f'(Raise "{node.exc.args[0].value}"%string)'
    if isinstance(node, ast.Assert):
        return '(Raise "AssertionError"%string)'
    raise TranslatorError(f"raise shape: {ast.unparse(node)}")


def translate(path) -> str:
    mod = parse_file(path)
    loc, span = find_class(mod, "Loc"), find_class(mod, "Span")
    # --- the ordering contract of Loc
    kw = decorator_kwargs(loc)
    if kw.get("order") is not True or kw.get("frozen") is not True:
        raise TranslatorError(f"Loc must be @dataclass(frozen=True, order=True), found {kw}")
    lf = dataclass_fields(loc)
    if lf != [("file", "str"), ("line", "int"), ("column", "int")]:
        raise TranslatorError(f"Loc fields changed: {lf}")
    for m in loc.body:
        if isinstance(m, ast.FunctionDef) and m.name in ("__lt__", "__le__", "__gt__", "__ge__", "__eq__"):
            raise TranslatorError(f"Loc overrides {m.name}: ordering is no longer the dataclass one")
    sf = dataclass_fields(span)
    if sf != [("start", "Loc"), ("end", "Loc")]:
        raise TranslatorError(f"Span fields changed: {sf}")
    skw = decorator_kwargs(span)
    if skw.get("order"):
        raise TranslatorError("Span became ordered")
    out = [HEADER.format(src="guppylang_internals/span.py", tool="props/C30/tr_span.py"),
           "From Coq Require Import ZArith String Bool.\nFrom V.C30 Require Import SpanBase.\nOpen Scope Z_scope.\n"]
    # --- Span.file (a property returning self.start.file)
    f = find_func(span, "file")
    if not any(ast.unparse(d) == "property" for d in f.decorator_list):
        raise TranslatorError("Span.file is not a property")
    tr = mk_tr({"self": ("self", "Span")})
    tr.attrs.pop(("Span", "file"))
    body = strip_doc(f.body)
    if len(body) != 1 or not isinstance(body[0], ast.Return):
        raise TranslatorError("Span.file body shape")
    t, ty = tr.expr(body[0].value)
    if ty != "string":
        raise TranslatorError("Span.file type")
    out.append(f"Definition span_file (self : Span) : string := {t}.\n")
    # --- __post_init__
    f = find_func(span, "__post_init__")
    tr = mk_tr({"self": ("self", "Span")})
    stmts = strip_doc(f.body) + [ast.Return(value=None)]
    t = tr.body(stmts, lambda term, ty: "(Ok tt)", raise_)
    out.append(f"Definition span_post_init (self : Span) : res unit := {t}.\n")

    def ret_bool(term, ty):
        if ty != "bool":
            raise TranslatorError(f"__contains__ returns {ty}")
        return f"(Ok {term})"

    def ret_optspan(term, ty):
        if ty == "none":
            return "(Ok None)"
        if ty == "Span!":
            return f"(match span_post_init {term} with Ok _ => Ok (Some {term}) | Raise e => Raise e end)"
        if ty == "Span":
            return f"(Ok (Some {term}))"
        raise TranslatorError(f"__and__ returns {ty}")

    # --- __contains__, specialised on the dynamic type of x
    f = find_func(span, "__contains__")
    if [a.arg for a in f.args.args] != ["self", "x"]:
        raise TranslatorError("__contains__ signature")
    tr = mk_tr({"self": ("self", "Span"), "x": ("x", "Span")}, {("x", "Span"): True})
    out.append(f"Definition span_contains_span (self x : Span) : res bool := {tr.body(f.body, ret_bool, raise_)}.\n")
    tr = mk_tr({"self": ("self", "Span"), "x": ("x", "Loc")}, {("x", "Span"): False})
    out.append(f"Definition span_contains_loc (self : Span) (x : Loc) : res bool := {tr.body(f.body, ret_bool, raise_)}.\n")
    # --- __and__
    f = find_func(span, "__and__")
    if [a.arg for a in f.args.args] != ["self", "other"]:
        raise TranslatorError("__and__ signature")
    tr = mk_tr({"self": ("self", "Span"), "other": ("other", "Span")})
    out.append(f"Definition span_and (self other : Span) : res (option Span) := {tr.body(f.body, ret_optspan, raise_)}.\n")
    return "\n".join(out)
