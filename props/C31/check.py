"""C31 — printed types read back as the same type; distinct variables get distinct names.

Tie: T + X.
 1. T: tr_printer.py regenerates coq/C31/GenPrinter.v (bracket/separator/suffix tokens, names,
    fresh-name separator, `?` prefix, free-bound-variable switch, visitor set) from printing.py/ty.py;
    the theorems of coq/C31/Props.v are re-checked against it.
 2. X: random first-order types (0/1/2-tuples, nested arrays/frozenarrays/options, generic structs
    defined with @guppy.struct in a scratch module) are built as real /repo objects under repo_shim;
    str(ty) is compared token by token with the model's print, Python's ast.parse of the string with
    the model's py_parse, and type_from_ast of it with the model's parse; random token streams
    (mostly valid shapes + malformed) compare py_parse/parse with ast.parse/type_from_ast; random
    (generic) function types with bound/existential variables compare the printed names.
 3. search = the same loop against the specification: str(ty) must read back as ty, and distinct
    variables must get distinct names."""
import json

import vlib
from vlib import proof_coverage

LEVEL = "proof"

STRUCT_SRC = '''from typing import Generic
from guppylang import guppy
from guppylang.std.builtins import array, nat, Option, frozenarray
L = guppy.type_var("L", copyable=False, droppable=False)
M = guppy.type_var("M", copyable=False, droppable=False)
C = guppy.type_var("C", copyable=True, droppable=True)
n = guppy.nat_var("n")

@guppy.struct
class S0:
    x: int

@guppy.struct
class Lin:
    xs: array[int, 2]

@guppy.struct
class Box(Generic[L]):
    x: L

@guppy.struct
class Pair(Generic[L, M]):
    a: L
    b: M

@guppy.struct
class Vec(Generic[L, n]):
    xs: array[L, n]

@guppy.struct
class Cp(Generic[C]):
    x: C
    y: frozenarray[C, 2]

@guppy.struct
class Sz(Generic[n]):
    x: frozenarray[int, n]

# structs declared in nested scopes, through the real decorator path; read back in their declaring frame
SCOPED = {}


def declared_in_function():
    @guppy.struct
    class FFlag:
        b: bool

    @guppy.struct
    class FBox(Generic[L, n]):
        x: L

    SCOPED["FFlag"] = FFlag
    SCOPED["FBox"] = FBox


declared_in_function()


class Shapes:
    @guppy.struct
    class CTag:
        x: int

    @guppy.struct
    class CCircle(Generic[L]):
        r: L

    SCOPED["CTag"] = CTag
    SCOPED["CCircle"] = CCircle
'''
STRUCT_NAMES = ["S0", "Lin", "Box", "Pair", "Vec", "Cp", "Sz"]
SCOPES = {"fn": ["FFlag", "FBox"], "cls": ["CTag", "CCircle"]}
TY, NAT = ("type", False, False), ("nat",)
# name -> (params, copyable-if-args-are, droppable-if-args-are); validated against the real definitions
ENV = {
    "bool": ([], True, True), "str": ([], True, True),
    "array": ([TY, NAT], False, True), "frozenarray": ([("type", True, True), NAT], True, True),
    "Option": ([TY], True, True),
    "S0": ([], True, True), "Lin": ([], False, True), "Box": ([TY], True, True), "Pair": ([TY, TY], True, True),
    "Vec": ([TY, NAT], False, True), "Cp": ([("type", True, True)], True, True), "Sz": ([NAT], True, True),
    "FFlag": ([], True, True), "FBox": ([TY, NAT], True, True), "CTag": ([], True, True), "CCircle": ([TY], True, True),
}
NUMS = ["nat", "int", "float"]


# ----------------------------------------------------------------------------- generators

def copyable(t):
    k = t[0]
    if k in ("num", "none"):
        return True
    if k == "tuple":
        return all(copyable(x) for x in t[1])
    if k == "app":
        return ENV[t[1]][1] and all(a[0] == "nat" or copyable(a) for a in t[2])
    return False


def droppable(t):
    k = t[0]
    if k in ("num", "none"):
        return True
    if k == "tuple":
        return all(droppable(x) for x in t[1])
    if k == "app":
        return ENV[t[1]][2] and all(a[0] == "nat" or droppable(a) for a in t[2])
    return False


_SCOPE = []      # names of the nested-scope structs the generator may use right now


def gen_scoped(r, depth):
    """a type that mentions at least one struct declared in a function / class body (one scope per type)"""
    scope = r.choice(sorted(SCOPES))
    _SCOPE[:] = SCOPES[scope]
    try:
        t = gen_ty(r, depth)
        if not (_names(t) & set(SCOPES[scope])):
            leaf = r.choice([["app", SCOPES[scope][0], []],
                             ["app", SCOPES[scope][1], [["num", "int"], ["nat", 3]] if scope == "fn" else [["app", "bool", []]]]])
            t = r.choice([leaf, ["tuple", [t, leaf]], ["app", "Option", [leaf]], ["app", "array", [leaf, ["nat", 2]]],
                          ["app", "Pair", [leaf, t]], ["app", "Option", [["app", "array", [["tuple", [leaf, t]], ["nat", 2]]]]]])
        return t
    finally:
        _SCOPE[:] = []


def _names(t):
    if t[0] == "tuple":
        return set().union(*[_names(x) for x in t[1]]) if t[1] else set()
    if t[0] == "app":
        return {t[1]}.union(*[_names(x) for x in t[2]])
    return set()


def gen_ty(r, depth, mc=False, md=False, check_bounds=True):
    """random first-order type (JSON) respecting the Copy/Drop bounds when check_bounds"""
    for _ in range(20):
        t = _gen_ty(r, depth, check_bounds)
        if not check_bounds or ((not mc or copyable(t)) and (not md or droppable(t))):
            return t
    return ["num", "int"]


def _gen_ty(r, depth, cb):
    c = r.random()
    if depth <= 0 or c < 0.18:
        return r.choice([["num", r.choice(NUMS)], ["none"], ["app", "bool", []], ["app", "str", []],
                         ["app", "S0", []], ["app", "Lin", []], ["tuple", []]]
                        + [["app", x, []] for x in _SCOPE if not ENV[x][0]] * 2)
    if c < 0.5:
        n = r.choice([0, 2, 2, 2, 3, 3, 4])      # 1-tuples are outside the partial theorem (known finding)
        return ["tuple", [gen_ty(r, depth - 1, check_bounds=cb) for _ in range(n)]]
    name = r.choice(["array", "frozenarray", "Option", "Option", "Box", "Box", "Pair", "Vec", "Cp", "Sz"]
                    + [x for x in _SCOPE if ENV[x][0]] * 3)
    args = []
    for p in ENV[name][0]:
        if p[0] == "nat":
            args.append(["nat", r.choice([0, 1, 2, 3, 7, 10, 42, 100, 2 ** 64])])
        else:
            a = gen_ty(r, depth - 1, p[1], p[2], cb)
            for _ in range(20):   # a sole tuple argument is outside the partial theorem (known finding)
                if not (len(ENV[name][0]) == 1 and a[0] == "tuple"):
                    break
                a = gen_ty(r, depth - 1, p[1], p[2], cb)
            else:
                a = ["num", "int"]
            args.append(a)
    return ["app", name, args]


ALPHA_NAMES = ["int", "nat", "float", "bool", "str", "tuple", "array", "frozenarray", "Option", "None", "True",
               "False", "S0", "Box", "Pair", "Vec", "Cp", "Sz", "Lin", "zzz"]


def gen_toks(r, n_max=12):
    """token streams: mutated printed shapes + free random streams"""
    toks = []
    n = r.randint(0, n_max)
    for _ in range(n):
        c = r.random()
        if c < 0.35:
            toks.append(r.choice(ALPHA_NAMES))
        elif c < 0.45:
            toks.append(str(r.choice([0, 1, 2, 3, 10])))
        else:
            toks.append(r.choice(["(", ")", "[", "]", ",", ",", "(", ")"]))
    return toks


def mutate(r, toks):
    toks = list(toks)
    for _ in range(r.choice([0, 1, 1, 2])):
        c = r.random()
        i = r.randrange(len(toks) + 1)
        if c < 0.4 and toks:
            del toks[min(i, len(toks) - 1)]
        elif c < 0.8:
            toks.insert(i, r.choice(["(", ")", "[", "]", ",", "int", "tuple", "3", "None"]))
        elif toks:
            toks[min(i, len(toks) - 1)] = r.choice(["(", ")", "[", "]", ",", "int", "Option", "2"])
    return toks


VNAMES = ["T", "T", "U", "n", "x", "nat", "Option"]   # incl. variables named like builtins


def gen_var_ty(r, depth, nparams, const=False):
    """types with variables (for the naming part); const=True: nat-const argument position"""
    c = r.random()
    if const:
        if c < 0.4:
            return ["nat", r.choice([1, 2, 3])]
        if c < 0.75:
            return ["bound", r.choice(VNAMES), r.randrange(0, nparams + 3)]
        return ["exist", r.choice(VNAMES), r.randrange(0, 6)]
    if depth <= 0 or c < 0.45:
        c2 = r.random()
        if c2 < 0.2:
            return ["num", r.choice(NUMS)]
        if c2 < 0.65:
            return ["bound", r.choice(VNAMES), r.randrange(0, nparams + 3)]
        return ["exist", r.choice(VNAMES), r.randrange(0, 6)]
    if c < 0.6:
        return ["tuple", [gen_var_ty(r, depth - 1, nparams) for _ in range(r.choice([0, 1, 2, 3]))]]
    if c < 0.9:
        name = r.choice(["array", "Option", "Pair", "Vec", "Box"])
        return ["app", name, [gen_var_ty(r, depth - 1, nparams, const=(p[0] == "nat")) for p in ENV[name][0]]]
    nin = r.choice([0, 1, 2])
    return ["fun", [], [gen_var_ty(r, depth - 1, nparams) for _ in range(nin)],
            [[False, False]] * nin, gen_var_ty(r, depth - 1, nparams)]


def gen_fun(r):
    if r.random() < 0.25:       # no binder at all: every bound variable is free
        return gen_var_ty(r, 3, 0)
    np_ = r.choice([0, 1, 2, 2, 3, 4])
    params = [[r.choice(VNAMES), r.choice(["type", "type", "nat", "natc"])] for _ in range(np_)]
    nin = r.choice([0, 1, 1, 2, 3])
    ins = [gen_var_ty(r, 2, np_) for _ in range(nin)]
    fl = [[r.random() < 0.2, r.random() < 0.15] for _ in range(nin)]
    return ["fun", params, ins, fl, gen_var_ty(r, 2, np_)]


# ----------------------------------------------------------------------------- Coq syntax

def cs(s):
    assert '"' not in s
    return f'"{s}"'


# ----------------------------------------------------------------------------- shadowing definitions

PY_BUILTINS = ["list", "tuple", "float", "str", "dict", "set", "len", "object", "type", "range"]
_RESERVED = {"guppy", "Generic", "L", "SHADOW", "declared_in_function", "Shapes", "TvUser", "int"}


def shadow_modules(builtin_names):
    """Two scratch modules whose structs are named like every entry of Globals.builtin_defs() and like
    Python builtins, declared at module level, in a function body and in a class body, alternately plain
    and generic.  Module A shadows everything but `int` (its field type); module B shadows `int`, the
    Python builtins and binds a type variable to a builtin name.  -> (modules, {key: (name, params, simple)})"""
    import keyword
    ok = lambda n: n.isidentifier() and not keyword.iskeyword(n) and not n.startswith("_") and n not in _RESERVED  # noqa: E731
    names_a = sorted({n for n in list(builtin_names) + PY_BUILTINS if ok(n)})
    names_b = ["int"] + [n for n in PY_BUILTINS if ok(n)]
    tv = next((n for n in ("SizedIter", "Range", "Option") if n in builtin_names and n not in names_b), None)
    keys, mods = {}, []

    def decl(mod, scope, name, generic, field, indent):
        key = f"{mod}:{scope}:{name}"
        keys[key] = (name, [TY] if generic else [], field)
        head = f"class {name}(Generic[L]):" if generic else f"class {name}:"
        body = "x: L" if generic else f"x: {field}"
        return [f"{indent}@guppy.struct", f"{indent}{head}", f"{indent}    {body}", f"{indent}SHADOW[{key!r}] = {name}", ""]

    for mod, names, field in (("c31_shadow_a", names_a, "int"), ("c31_shadow_b", names_b, "bool")):
        src = ["from typing import Generic", "from guppylang import guppy",
               'L = guppy.type_var("L", copyable=False, droppable=False)', "SHADOW = {}", ""]
        tag = mod[-1].upper()
        for i, n in enumerate(names):
            src += decl(tag, "mod", n, i % 2 == 1, field, "")
        if tag == "B" and tv:
            src += [f'{tv} = guppy.type_var("{tv}", copyable=False, droppable=False)', "@guppy.struct",
                    f"class TvUser(Generic[{tv}]):", f"    x: {tv}", f"SHADOW['B:mod:TvUser'] = TvUser", ""]
            keys["B:mod:TvUser"] = ("TvUser", [TY], field)
        src += ["def declared_in_function():"]
        sub = names[::3] if tag == "A" else names
        for i, n in enumerate(sub):
            src += decl(tag, "fn", n, i % 2 == 0, field, "    ")
        src += ["declared_in_function()", "", "class Shapes:"]
        sub = names[1::4] if tag == "A" else names
        for i, n in enumerate(sub):
            src += decl(tag, "cls", n, i % 2 == 0, field, "    ")
        mods.append({"name": mod, "src": "\n".join(src) + "\n"})
    return mods, keys


def gen_shadow_case(r, key, keys):
    """a type around the shadowing struct `key`, using only names that still mean the builtin in its scope"""
    name, params, field = keys[key]
    simple_a = [["num", "int"], ["none"], ["tuple", []], ["tuple", [["num", "int"], ["none"]]]]
    simple_b = [["app", "bool", []], ["num", "nat"], ["none"], ["tuple", [["app", "bool", []], ["num", "nat"]]],
                ["app", "array", [["app", "bool", []], ["nat", 2]]], ["app", "Option", [["num", "nat"]]]]
    simple = simple_a if key.startswith("A:") else simple_b
    def arg():
        a = r.choice(simple)
        return a if a[0] != "tuple" else r.choice([x for x in simple if x[0] != "tuple"])   # sole tuple argument = known finding
    leaf = ["app", key, [arg()] if params else []]
    mod, scope, _ = key.split(":")
    generic_same = [k for k, v in keys.items() if k.startswith(f"{mod}:{scope}:") and v[1] and k != key]
    c = r.random()
    if c < 0.3:
        t = leaf
    elif c < 0.6:
        t = ["tuple", [leaf, r.choice(simple)] if r.random() < 0.5 else [r.choice(simple), leaf, leaf]]
    elif c < 0.8 and generic_same:
        t = ["app", r.choice(generic_same), [leaf]]
    elif key.startswith("B:"):
        t = r.choice([["app", "array", [leaf, ["nat", 3]]], ["app", "Option", [leaf]],
                      ["app", "Option", [["app", "array", [["tuple", [leaf, r.choice(simple)]], ["nat", 2]]]]]])
    else:
        t = ["tuple", [["tuple", [leaf, leaf]], r.choice(simple)]]
    used = sorted(_names(t) & set(keys))
    return ["rt", t, {"shadow": {k: [keys[k][0], len(keys[k][1])] for k in used}, "module": "c31_shadow_" + key[0].lower()}]


def coq_ty(t):
    k = t[0]
    if k == "num":
        return f"(TNum K{t[1].capitalize()})"
    if k == "none":
        return "TNone"
    if k == "tuple":
        return "(TTuple [" + "; ".join(coq_ty(x) for x in t[1]) + "])"
    if k == "app":
        return f"(TApp {cs(t[1].split(':')[-1])} [" + "; ".join(coq_ty(x) for x in t[2]) + "])"
    if k == "nat":
        return f"(CNat {t[1]}%N)"
    if k == "bound":
        return f"(TBound {cs(t[1])} {t[2]})"
    if k == "exist":
        return f"(TExist {cs(t[1])} {t[2]})"
    if k == "fun":
        pk = {"type": "PKType", "nat": "(PKConst CKNat false)", "natc": "(PKConst CKNat true)"}
        ps = "; ".join(f"({cs(n)}, {pk[p]})" for n, p in t[1])
        fl = "; ".join(f"({str(a).lower()}, {str(b).lower()})" for a, b in t[3])
        return f"(TFun [{ps}] [" + "; ".join(coq_ty(x) for x in t[2]) + f"] [{fl}] {coq_ty(t[4])})"
    raise ValueError(t)


def coq_tok(s):
    m = {"(": "TLP", ")": "TRP", "[": "TLB", "]": "TRB", ",": "TComma"}
    if s in m:
        return m[s]
    return f"TNumber {s}%N" if s.isdigit() else f"TName {cs(s)}"


def coq_env():
    items = ['("int", DNum KInt)', '("nat", DNum KNat)', '("float", DNum KFloat)', '("tuple", DTuple)']
    for name, (ps, c, d) in ENV.items():
        if ":" in name:
            continue
        pp = "; ".join("DPNat" if p[0] == "nat" else f"DPType {str(p[1]).lower()} {str(p[2]).lower()}" for p in ps)
        items.append(f'({cs(name)}, DApp [{pp}] {str(c).lower()} {str(d).lower()})')
    return "[" + "; ".join(items) + "]"


HDR = """From Coq Require Import String List NArith Bool.
From V.C31 Require Import Tokens GenPrinter Model Spec Ser.
Import ListNotations. Open Scope string_scope.
Definition E : env := %s.
Definition rtE (S : env) (t : ty) := (map tok_text (print t), ser_opt ser_py (py_parse (print t)), ser_opt ser_ty (parse (S ++ E)%%list (print t)), wf (S ++ E)%%list t).
Definition rt := rtE [].
Definition sh (n : string) (k : nat) : string * defn := (n, DApp (repeat (DPType false false) k) true true).
Definition tk (l : list token) := (ser_opt ser_py (py_parse l), ser_opt ser_ty (parse E l)).
Definition fn (t : ty) := (map tok_text (print t), ser_tags (tags (print t))).
"""


def _coq_rt(c):
    if len(c) > 2 and c[2].get("shadow"):
        S = "; ".join(f"sh {cs(n)} {k}" for n, k in c[2]["shadow"].values())
        return f"rtE [{S}] {coq_ty(c[1])}"
    return f"rt {coq_ty(c[1])}"


def coq_file(cases):
    kinds = {"rt": [], "toks": [], "fun": []}
    for c in cases:
        kinds[c[0]].append(c)
    out = [HDR % coq_env()]
    out.append("Eval vm_compute in [" + ";\n".join(_coq_rt(c) for c in kinds["rt"]) + "].")
    out.append("Eval vm_compute in [" + ";\n".join("tk [" + "; ".join(coq_tok(s) for s in c[1]) + "]" for c in kinds["toks"]) + "].")
    out.append("Eval vm_compute in [" + ";\n".join(f"fn {coq_ty(c[1])}" for c in kinds["fun"]) + "].")
    return "\n".join(out)


def ser_ty(t):
    if t is None:
        return ["NONE"]
    k = t[0]
    if k == "num":
        return ["num", t[1]]
    if k == "none":
        return ["none"]
    if k == "tuple":
        return ["tuple", str(len(t[1]))] + [y for x in t[1] for y in ser_ty(x)]
    if k == "app":
        return ["app", t[1], str(len(t[2]))] + [y for x in t[2] for y in ser_ty(x)]
    if k == "nat":
        return ["nat", str(t[1])]
    return ["other"]


def ser_py(e):
    if e is None:
        return ["NONE"]
    k = e[0]
    if k == "name":
        return ["name", e[1]]
    if k == "num":
        return ["num", str(e[1])]
    if k == "none":
        return ["none"]
    if k == "bool":
        return ["bool", "1" if e[1] else "0"]
    if k == "tuple":
        return ["tuple", str(len(e[1]))] + [y for x in e[1] for y in ser_py(x)]
    return ["sub"] + ser_py(e[1]) + ser_py(e[2])


# ----------------------------------------------------------------------------- the check

def generate(ctx):
    import tr_printer
    text, info = tr_printer.translate(ctx.int_src("tys/printing.py"), ctx.int_src("tys/ty.py"), ctx.pub_src("decorator.py"))
    ctx.gen("GenPrinter.v", text)
    return info


REPLAY = ("cd <scratch dir containing c31_structs.py = STRUCT_SRC of props/C31/check.py>; "
          "PYTHONPATH=/verif/tools:$VERIF_REPO/guppylang/src:$VERIF_REPO/guppylang-internals/src /venv/bin/python "
          "props/C31/impl_types.py <<< '{\"structs\": STRUCT_SRC, \"struct_names\": [...], \"cases\": [[\"%s\", %s]]}'  "
          "(or simply: ./check C31 — corpus and seeded cases are deterministic)")


def run(ctx):
    import os
    try:
        tinfo = generate(ctx)
        info = ctx.coq_props()
        tr_error = None
    except vlib.TranslatorError as e:
        # the tie is broken: no model for this source.  Still search the real code against the
        # specification so that a property-breaking change is reported with a failing input.
        tr_error = str(e)
        tinfo = {"translator_error": tr_error}
        info = {"ok": False, "obligations": 1, "discharged": 0, "failed": "translator: " + tr_error.split("\n")[0],
                "log": tr_error, "theorems": [], "axioms": []}
    r = vlib.rng(ctx.seed, "C31")
    n_rt, n_tk, n_fn = (700, 500, 400) if ctx.quick else (7000, 5000, 4000)
    scale = float(os.environ.get("C31_SCALE", "1"))      # development only
    n_rt, n_tk, n_fn = int(n_rt * scale), int(n_tk * scale), int(n_fn * scale)
    cases = []
    for f in sorted((ctx.dir / "corpus").glob("*.json")):
        cases += json.loads(f.read_text())
    n_corpus = len(cases)
    for i in range(n_rt):
        if i % 4 == 3:
            cases.append(["rt", gen_scoped(r, r.choice([0, 1, 2, 3]))])
        else:
            cases.append(["rt", gen_ty(r, r.choice([1, 2, 3, 4, 5]), check_bounds=(i % 10 != 0))])
    rt_printed = []
    for i in range(n_tk):
        if i % 2 == 0:
            cases.append(["toks", gen_toks(r)])
        else:  # a mutated spelling of a printed type: filled in after the implementation printed it
            cases.append(["toks", None])
    for _ in range(n_fn):
        cases.append(["fun", gen_fun(r)])
    # first pass on the implementation: print the rt types, so that token-stream cases can be
    # mutations of real printed strings
    payload = {"structs": STRUCT_SRC, "struct_names": STRUCT_NAMES, "scoped_names": [n for v in SCOPES.values() for n in v], "cases": [c for c in cases if c[0] == "rt"]}
    first = json.loads(ctx.impl("impl_types.py", payload))
    rt_printed = [x["toks"] for x in first["results"] if "toks" in x]
    # structs shadowing every builtin definition name (known only at run time) and Python builtins
    mods, shkeys = shadow_modules(first.get("builtin_names", []))
    for k, (nm, ps, _f) in shkeys.items():
        ENV[k] = (ps, True, True)
    payload["shadow_modules"] = mods
    klist = sorted(shkeys)
    if ctx.quick:      # every name at module level, a seeded sample of the nested ones
        klist = [k for k in klist if ":mod:" in k] + r.sample([k for k in klist if ":mod:" not in k], min(120, len([k for k in klist if ":mod:" not in k])))
    n_shadow = 0
    for rep in range(1 if ctx.quick else 3):
        for k in klist:
            cases.append(gen_shadow_case(r, k, shkeys))
            n_shadow += 1
    for c in cases:
        if c[0] == "toks" and c[1] is None:
            c[1] = mutate(r, r.choice(rt_printed)) if rt_printed else gen_toks(r)
    payload["cases"] = cases
    impl = json.loads(ctx.impl("impl_types.py", payload))
    res = impl["results"]
    # --- the declared environment is the real one
    real_env = {e[0]: ([tuple(p) for p in e[2]], e[3], e[4]) for e in impl["env"]}
    if real_env != {k: ([tuple(p) for p in v[0]], v[1], v[2]) for k, v in ENV.items() if ":" not in k}:
        ctx.report("env-mismatch", "correspondence", "type definitions in scope",
                   {"declared": {k: str(v) for k, v in ENV.items()}, "real": {k: str(v) for k, v in real_env.items()}},
                   found_input=False)
    # --- model side
    model = None
    if tr_error is None:
        ctx.coq_make(["C31/Ser.vo", "C31/Spec.vo"])
    vo_ok = all((vlib.COQ / "C31" / f"{m}.vo").exists() and (vlib.COQ / "C31" / f"{m}.vo").stat().st_mtime
                >= (vlib.COQ / "C31" / "GenPrinter.vo").stat().st_mtime for m in ("Model", "Ser", "Spec"))
    if vo_ok and tr_error is None:
        chunks = [cases[i:i + 450] for i in range(0, len(cases), 450)]
        try:
            outs = ctx.coq_eval_many({f"cases{i}": coq_file(c) for i, c in enumerate(chunks)})
            model = []
            for i, ch in enumerate(chunks):
                vals = vlib.parse_coq_values(outs[f"cases{i}"])
                it = {"rt": iter(vals[0]), "toks": iter(vals[1]), "fun": iter(vals[2])}
                model += [next(it[c[0]]) for c in ch]
        except (RuntimeError, StopIteration) as e:
            model = None
            ctx.notes.append(f"model evaluation failed: {e}")
    else:
        ctx.notes.append("model not built: " + str(info.get("failed")))
    # --- compare
    stats = {"rt": 0, "toks": 0, "fun": 0, "rt_wf": 0, "rt_same": 0, "toks_syntax_ok": 0, "toks_type_ok": 0,
             "fun_with_collision_candidates": 0, "corpus": n_corpus}
    hist = {"tuple0": 0, "tuple1": 0, "tuple2+": 0, "sole_tuple_arg": 0, "array": 0, "frozenarray": 0, "Option": 0, "struct": 0}
    disagreements, spec_fail = 0, 0
    nontrivial = set()

    def walk(t):
        if t[0] == "tuple":
            hist["tuple0" if not t[1] else "tuple1" if len(t[1]) == 1 else "tuple2+"] += 1
            for x in t[1]:
                walk(x)
        elif t[0] == "app":
            if t[1] in hist:
                hist[t[1]] += 1
            elif t[1] in STRUCT_NAMES:
                hist["struct"] += 1
            elif ":" in t[1]:
                hist["shadowing_struct"] = hist.get("shadowing_struct", 0) + 1
            elif t[1] in ENV:
                hist["scoped_struct"] = hist.get("scoped_struct", 0) + 1
            if len(t[2]) == 1 and t[2][0][0] == "tuple":
                hist["sole_tuple_arg"] += 1
            for x in t[2]:
                walk(x)

    def disagree(key, what, detail):
        nonlocal disagreements
        disagreements += 1
        if disagreements <= 3:
            ctx.report(key, "correspondence", what, detail)

    per_kind = {}

    known_hits = 0

    def specfail(key, what, detail):
        nonlocal spec_fail, known_hits
        if ctx.is_known(key) is not None:      # refuted-theorem witnesses kept in the corpus
            known_hits += 1
            ctx.report(key, "counterexample", what, detail)
            return
        spec_fail += 1
        k = key.split(":")[0]
        per_kind[k] = per_kind.get(k, 0) + 1
        if per_kind[k] <= 3:
            ctx.report(key, "counterexample", what, detail)

    for i, (c, x) in enumerate(zip(cases, res)):
        m = model[i] if model is not None else None
        kind = c[0]
        stats[kind] += 1
        if "crash" in x:
            disagree(f"crash:{json.dumps(c)}", "implementation harness crashed on a case", {"case": c, "crash": x["crash"]})
            continue
        if kind == "rt":
            walk(c[1])
            wf_py = _wf(c[1])
            stats["rt_wf"] += wf_py
            stats["rt_same"] += bool(x["same"])
            if c[1][0] in ("tuple", "app") and (c[1][1] if c[1][0] == "tuple" else c[1][2]):
                nontrivial.add(json.dumps(c[1]))
            # specification: a well-formed first-order type reads back as itself
            safe_py = _safe(c[1])
            stats["rt_safe"] = stats.get("rt_safe", 0) + (wf_py and safe_py)
            if wf_py and safe_py and not x["same"] or (wf_py and not safe_py and not x["same"] and i < n_corpus):
                specfail(f"roundtrip:{x['str']}", "print_parse_roundtrip: str(ty) does not read back as ty",
                         {"type": c[1], "printed": x["str"], "read_back": x["back"], "error": x["err"],
                          "expected": "type_from_ast(ast.parse(str(ty)).body[0].value) == ty",
                          "replay": REPLAY % ("rt", json.dumps(c[1]))})
            stats["rt_shadowing"] = stats.get("rt_shadowing", 0) + (len(c) > 2)
            scoped = bool(_names(c[1]) & {n for v in SCOPES.values() for n in v})
            stats["rt_scoped"] = stats.get("rt_scoped", 0) + scoped
            if x.get("bad_struct_names"):
                specfail(f"structname:{x['str']}", "a printed struct name is not an identifier that resolves, in the struct's declaring scope, to that struct",
                         {"type": c[1], "printed": x["str"], "bad_names": x["bad_struct_names"], "read_back": x["back"], "error": x["err"],
                          "expected": "ty.defn.name is the identifier the class is bound to in the frame Guppy resolves the struct's annotations in",
                          "replay": REPLAY % ("rt", json.dumps(c[1]))})
            if not x["pytok_agrees"]:
                disagree(f"lexer:{x['str']}", "check lexer vs Python tokenize", {"str": x["str"], "lex": x["toks"]})
            if m is not None:
                mt, mpy, mback, mwf = m
                if mt != x["toks"]:
                    disagree(f"print:{json.dumps(c[1])}", "model print vs str(ty)", {"type": c[1], "impl": x["toks"], "model": mt})
                elif mpy != ser_py(x["pyexpr"]):
                    disagree(f"pyparse:{x['str']}", "model py_parse vs ast.parse", {"str": x["str"], "impl": x["pyexpr"], "model": mpy})
                elif mback != ser_ty(x["back"]):
                    disagree(f"parse:{x['str']}", "model parse vs type_from_ast", {"str": x["str"], "impl": x["back"], "impl_err": x["err"], "model": mback})
                if bool(mwf) != bool(wf_py):
                    disagree(f"wf:{json.dumps(c[1])}", "model wf vs generator wf", {"type": c[1], "model": mwf, "gen": wf_py})
                if wf_py and (copyable(c[1]) != x["copyable"] or droppable(c[1]) != x["droppable"]):
                    disagree(f"copy:{json.dumps(c[1])}", "copyable/droppable vs real", {"type": c[1], "real": [x["copyable"], x["droppable"]]})
        elif kind == "toks":
            stats["toks_syntax_ok"] += x["pyexpr"] is not None
            stats["toks_type_ok"] += x["back"] is not None
            if x["pyexpr"] is not None:
                nontrivial.add(x["str"])
            if m is not None:
                mpy, mback = m
                if mpy != ser_py(x["pyexpr"]):
                    disagree(f"pyparse:{x['str']}", "model py_parse vs ast.parse", {"str": x["str"], "impl": x["pyexpr"], "model": mpy})
                elif mback != ser_ty(x["back"]):
                    disagree(f"parse:{x['str']}", "model parse vs type_from_ast", {"str": x["str"], "impl": x["back"], "impl_err": x["err"], "model": mback})
        else:
            # model-independent search: fewer distinct variable-name tokens than distinct variables
            dvars = _distinct_vars(c[1])
            disp = {n for (n, *_r) in _vars(c[1])}     # variables may be named like definitions (`nat`, `Option`)
            vtoks = {t for t in x["toks"] if _is_var_token(t) or t.lstrip("?").split("'")[0] in disp}
            if len(vtoks) < len(dvars):
                specfail(f"names:{x['str']}", "distinct_vars_distinct_names: fewer printed variable names than distinct variables",
                         {"type": c[1], "printed": x["str"], "distinct_variables": sorted(map(str, dvars)),
                          "variable_name_tokens": sorted(vtoks), "replay": REPLAY % ("fun", json.dumps(c[1]))})
                continue
            if m is not None:
                mt, mtags = m
                if mt != x["toks"]:
                    disagree(f"print:{json.dumps(c[1])}", "model print vs str(ty) (variables)", {"type": c[1], "impl": x["toks"], "model": mt})
                    continue
                names = {}
                for a, b, s in mtags:
                    names.setdefault((a, b), set()).add(s)
                if len(names) >= 2:
                    nontrivial.add(json.dumps(c[1]))
                dn = {}
                for v, ss in names.items():
                    for s in ss:
                        dn.setdefault(s, set()).add(v)
                stats["fun_with_collision_candidates"] += len({n for (n, *_r) in _vars(c[1])}) < len(names)
                bad = [s for s, vs in dn.items() if len(vs) > 1] + [str(v) for v, ss in names.items() if len(ss) > 1]
                if bad:
                    specfail(f"names:{x['str']}", "distinct_vars_distinct_names: two variables share a printed name",
                             {"type": c[1], "printed": x["str"], "colliding": bad,
                              "variables_to_names": {f"{'bound' if a == 0 else 'exist'}#{b}": sorted(s) for (a, b), s in names.items()},
                              "replay": REPLAY % ("fun", json.dumps(c[1]))})
    if not info["ok"] and spec_fail == 0:
        ctx.report("proof-broken:" + str(info["failed"]), "proof-broken", str(info["failed"]),
                   {"coq_error": vlib.CoqResult(False, info["log"]).error_excerpt(), "table": tinfo,
                    "searched_cases": len(cases)}, found_input=False)
    elif not info["ok"]:
        ctx.notes.append("theorem file does not check: " + str(info["failed"]) + "; failing inputs reported above")
    if model is None and info["ok"]:
        ctx.report("model-eval", "correspondence", "model evaluation failed", {"notes": ctx.notes}, found_input=False)
    samples = [{"case": cases[j], "impl": res[j]} for j in (n_corpus, n_corpus + n_rt + 1, len(cases) - 1) if j < len(cases)]
    cov = proof_coverage(
        info, "make -f Makefile.C31 C31/Props.vo && coqc C31/Props.v (Print Assumptions)",
        ["Coq 8.16.1 kernel (vm_compute in Examples, in print_parse_roundtrip_refuted and in num_name_plain)",
         "props/C31/tr_printer.py: template matching of every TypePrinter method (fail-closed), extraction of the string literals; "
         "reading of a printed string as its token list (check lexer, compared with Python's tokenize on every printed type)",
         "hand-written model coq/C31/Model.v of TypePrinter._visit*, Python's expression grammar on NAME NUMBER ( ) [ ] , "
         "and parsing.py arg_from_ast/type_from_ast/check_instantiate, tied by the differential harness only",
         "tools/repo_shim.py; the scratch module of @guppy.struct definitions"],
        evaluations=len(cases), distinct_nontrivial=len(nontrivial),
        rule="rt: non-empty tuple or applied definition; toks: Python accepts the stream as an expression of the fragment; fun: at least two distinct variables printed",
        traces_validated_against_impl=len(cases) if model is not None else 0,
        disagreements=disagreements, spec_failures=spec_fail, known_finding_witnesses_replayed=known_hits, case_counts=stats, constructor_histogram=hist,
        generated_table=tinfo, samples=samples, notes=ctx.notes,
        shadowed_names={"builtin_defs": len(first.get("builtin_names", [])), "shadowing_structs_declared": len(shkeys),
                        "cases": n_shadow, "declaration_errors": impl.get("shadow_errors", {})})
    return ctx.finish(LEVEL, cov, [
        "a printed string is identified with its token list; blanks are irrelevant to Python's tokenizer",
        "names printed for definitions resolve, in the scope where the string is read, to the same definitions (env_ok / wf)",
        "display names of variables are Python identifiers (no quote, no question mark)"])


def _wf(t):
    k = t[0]
    if k in ("num", "none"):
        return True
    if k == "tuple":
        return all(_wf(x) for x in t[1])
    if k == "app":
        ps = ENV[t[1]][0]
        if len(ps) != len(t[2]):
            return False
        for p, a in zip(ps, t[2]):
            if p[0] == "nat":
                if a[0] != "nat":
                    return False
            else:
                if a[0] == "nat" or not _wf(a) or (p[1] and not copyable(a)) or (p[2] and not droppable(a)):
                    return False
        return True
    return False


def _vars(t):
    k = t[0]
    if k in ("bound", "exist"):
        return [(t[1], k, t[2])]
    if k == "tuple":
        return [v for x in t[1] for v in _vars(x)]
    if k == "app":
        return [v for x in t[2] for v in _vars(x)]
    if k == "fun":
        return [(n, "param", i) for i, (n, _) in enumerate(t[1])] + [v for x in t[2] for v in _vars(x)] + _vars(t[4])
    return []


def _distinct_vars(t, nparams=0):
    """distinct variables of a rank-1 type: ('b', idx) / ('e', id); parameters count as ('b', position)"""
    k = t[0]
    if k == "bound":
        return {("b", t[2])}
    if k == "exist":
        return {("e", t[2])}
    if k == "tuple":
        return set().union(*[_distinct_vars(x) for x in t[1]]) if t[1] else set()
    if k == "app":
        return set().union(*[_distinct_vars(x) for x in t[2]]) if t[2] else set()
    if k == "fun":
        out = {("b", i) for i, (n, pk) in enumerate(t[1]) if pk != "natc"}
        for x in t[2] + [t[4]]:
            out |= _distinct_vars(x)
        return out
    return set()


_NONVAR = set(ENV) | {"int", "nat", "float", "tuple", "None", "forall", "True", "False"}


def _is_var_token(tok):
    return (tok[0] == "?" or tok[0].isalpha() or tok[0] == "_") and tok not in _NONVAR


def _safe(t):
    """precondition of print_parse_roundtrip_partial: no 1-tuple, no sole tuple argument"""
    k = t[0]
    if k == "tuple":
        return len(t[1]) != 1 and all(_safe(x) for x in t[1])
    if k == "app":
        return not (len(t[2]) == 1 and t[2][0][0] == "tuple") and all(_safe(x) for x in t[2])
    return True
