"""Implementation side for C31 (runs /repo's guppylang under repo_shim).

stdin JSON: {"structs": <python source of a module with @guppy.struct definitions>,
             "struct_names": [...], "cases": [case, ...]}
  case = ["rt", ty]      build the real type, str() it, parse the string back with type_from_ast
       | ["toks", [..]]  a raw token stream: ast.parse + type_from_ast on " ".join(tokens)
       | ["fun", ty]     build the real (function) type with variables, str() it
  ty   = ["num", "nat"|"int"|"float"] | ["none"] | ["tuple", [ty..]] | ["app", name, [arg..]]
       | ["nat", n] | ["bound", name, idx] | ["exist", name, id]
       | ["fun", [[name, "type"|"nat"|"natc"]..], [ty..], [[owned, comptime]..], ty]
stdout JSON: {"env": [[name, kind, params, copy, drop]..], "results": [...]} (see below)."""
import ast
import importlib
import io
import json
import re
import sys
import tokenize
import warnings

import repo_shim  # noqa: F401

from guppylang_internals.checker.core import Globals
from guppylang_internals.engine import DEF_STORE, ENGINE
from guppylang_internals.error import GuppyError
from guppylang_internals.tys import builtin as B
from guppylang_internals.tys.arg import ConstArg, TypeArg
from guppylang_internals.tys.const import BoundConstVar, ConstValue, ExistentialConstVar
from guppylang_internals.tys.param import ConstParam, TypeParam
from guppylang_internals.tys.parsing import TypeParsingCtx, type_from_ast
from guppylang_internals.tys.ty import (
    BoundTypeVar, ExistentialTypeVar, FuncInput, FunctionType, InputFlags, NoneType, NumericType,
    OpaqueType, StructType, TupleType,
)

warnings.simplefilter("ignore")
inp = json.load(sys.stdin)
with open("c31_structs.py", "w") as f:
    f.write(inp["structs"])
sys.path.insert(0, ".")
structs = importlib.import_module("c31_structs")

NUM = {"nat": NumericType.Kind.Nat, "int": NumericType.Kind.Int, "float": NumericType.Kind.Float}
OPAQUE = {"bool": B.bool_type_def, "str": B.string_type_def, "array": B.array_type_def,
          "frozenarray": B.frozenarray_type_def, "Option": B.option_type_def}
STRUCT = {n: ENGINE.get_checked(getattr(structs, n).id) for n in inp["struct_names"]}
# structs declared in a function body / class body: read back in their declaring frame
SCOPED_FRAME = {}
for _n in inp.get("scoped_names", []):
    _obj = structs.SCOPED[_n]
    STRUCT[_n] = ENGINE.get_checked(_obj.id)
    SCOPED_FRAME[_n] = DEF_STORE.frames[_obj.id]
g = Globals(None)
g.f_globals = dict(structs.__dict__)


# ---- shadow modules: user structs named like builtin definitions / Python builtins, declared through
# the real decorator at module level and in nested scopes; read back in their declaring frame
SHADOW_ERR = {}
for _m in inp.get("shadow_modules", []):
    try:
        with open(_m["name"] + ".py", "w") as f:
            f.write(_m["src"])
        _mod = importlib.import_module(_m["name"])
        _sh = dict(_mod.SHADOW)
    except Exception as e:  # noqa: BLE001
        SHADOW_ERR[_m["name"]] = f"{type(e).__name__}: {str(e)[:300]}"
        continue
    for _k, _obj in _sh.items():
        try:
            STRUCT[_k] = ENGINE.get_checked(_obj.id)
            SCOPED_FRAME[_k] = DEF_STORE.frames[_obj.id]
        except Exception as e:  # noqa: BLE001
            SHADOW_ERR[_k] = f"{type(e).__name__}: {str(e)[:300]}"


def params_of(name):
    return (OPAQUE.get(name) or STRUCT[name]).params


def mk(t, const=False):
    """JSON -> real Type (const=True: the node sits in a nat-const argument position)."""
    k = t[0]
    if k == "num":
        return NumericType(NUM[t[1]])
    if k == "none":
        return NoneType()
    if k == "tuple":
        return TupleType([mk(x) for x in t[1]])
    if k == "nat":
        return ConstValue(B.nat_type(), t[1])
    if k == "bound":
        return BoundConstVar(B.nat_type(), t[1], t[2]) if const else BoundTypeVar(t[1], t[2], True, True)
    if k == "exist":
        return ExistentialConstVar(ty=B.nat_type(), display_name=t[1], id=t[2]) if const \
            else ExistentialTypeVar(t[1], t[2], True, True)
    if k == "app":
        ps = params_of(t[1])
        args = []
        for i, a in enumerate(t[2]):
            isconst = (isinstance(ps[i], ConstParam) if i < len(ps) else a[0] == "nat")
            v = mk(a, isconst)
            args.append(ConstArg(v) if isconst else TypeArg(v))
        return OpaqueType(args, OPAQUE[t[1]]) if t[1] in OPAQUE else StructType(args, STRUCT[t[1]])
    if k == "fun":
        params = []
        for i, (nm, pk) in enumerate(t[1]):
            params.append(TypeParam(i, nm, False, False) if pk == "type"
                          else ConstParam(i, nm, B.nat_type(), from_comptime_arg=(pk == "natc")))
        ins = []
        for x, (ow, ct) in zip(t[2], t[3]):
            fl = InputFlags.NoFlags
            if ow:
                fl |= InputFlags.Owned
            if ct:
                fl |= InputFlags.Comptime
            ins.append(FuncInput(mk(x), fl))
        return FunctionType(ins, mk(t[4]), params)
    raise ValueError(t)


def def_ids(ty, out):
    """name -> id of every opaque/struct definition mentioned in a real type"""
    if isinstance(ty, TypeArg):
        return def_ids(ty.ty, out)
    if isinstance(ty, (TupleType, OpaqueType, StructType)):
        if not isinstance(ty, TupleType):
            out.setdefault(ty.defn.name, ty.defn.id)
        for a in ty.args:
            def_ids(a, out)
    return out


def unmk(ty, expected=None):
    """real Type/Argument -> JSON (first-order part).  `expected`: name -> definition id of the
    original type; a same-named but different definition is marked (names alone cannot tell)."""
    if isinstance(ty, TypeArg):
        return unmk(ty.ty, expected)
    if isinstance(ty, ConstArg):
        c = ty.const
        if isinstance(c, ConstValue) and c.ty == B.nat_type() and isinstance(c.value, int) and not isinstance(c.value, bool):
            return ["nat", c.value]
        return ["other", repr(c)]
    if isinstance(ty, NumericType):
        return ["num", ty.kind.name.lower()]
    if isinstance(ty, NoneType):
        return ["none"]
    if isinstance(ty, TupleType):
        return ["tuple", [unmk(x, expected) for x in ty.element_types]]
    if isinstance(ty, (OpaqueType, StructType)):
        nm = ty.defn.name
        if expected and nm in expected and expected[nm] != ty.defn.id:
            nm += "#other-definition"
        return ["app", nm, [unmk(a, expected) for a in ty.args]]
    return ["other", repr(ty)]


def pyexpr(n):
    """Python AST -> model pyexpr JSON; raises KeyError on nodes outside the modelled fragment."""
    if isinstance(n, ast.Name):
        return ["name", n.id]
    if isinstance(n, ast.Constant):
        if n.value is None:
            return ["none"]
        if isinstance(n.value, bool):
            return ["bool", n.value]
        if isinstance(n.value, int):
            return ["num", n.value]
        raise KeyError
    if isinstance(n, ast.Tuple):
        return ["tuple", [pyexpr(e) for e in n.elts]]
    if isinstance(n, ast.Subscript):
        return ["sub", pyexpr(n.value), pyexpr(n.slice)]
    raise KeyError


LEX = re.compile(r"\s*(?:(?P<name>\??[A-Za-z_][A-Za-z_0-9]*(?:'[0-9]+)*)|(?P<num>\d+)|(?P<op>->|@\w+|.))")


def lex(s):
    out, i = [], 0
    s = s.rstrip()
    while i < len(s):
        m = LEX.match(s, i)
        out.append(m.group("name") or m.group("num") or m.group("op"))
        i = m.end()
    return out


def pytok(s):
    try:
        return [t.string for t in tokenize.generate_tokens(io.StringIO(s).readline)
                if t.type not in (tokenize.NEWLINE, tokenize.ENDMARKER, tokenize.NL)]
    except Exception:  # noqa: BLE001
        return None


def scope_of(t):
    """Globals in which a printed type is read back: the declaring frame of the first nested-scope struct"""
    if t[0] == "app":
        if t[1] in SCOPED_FRAME:
            return Globals(SCOPED_FRAME[t[1]])
        for a in t[2]:
            if (gg := scope_of(a)) is not None:
                return gg
    if t[0] == "tuple":
        for a in t[1]:
            if (gg := scope_of(a)) is not None:
                return gg
    return None


def struct_defs(ty, out):
    if isinstance(ty, TypeArg):
        return struct_defs(ty.ty, out)
    if isinstance(ty, (TupleType, OpaqueType, StructType)):
        if isinstance(ty, StructType):
            out.append(ty.defn)
        for a in ty.args:
            struct_defs(a, out)
    return out


def bad_struct_names(ty, gl):
    """printed struct names that are not identifiers resolving in scope `gl` to the same struct"""
    bad = []
    for d in struct_defs(ty, []):
        ok = isinstance(d.name, str) and d.name.isidentifier() and d.name in gl
        if ok:
            try:
                ok = getattr(gl[d.name], "id", None) == d.id
            except Exception:  # noqa: BLE001
                ok = False
        if not ok and d.name not in bad:
            bad.append(d.name)
    return bad


def read_back(s, gl=None):
    """-> (pyexpr JSON | None, parsed type JSON | None, error class name | None)"""
    gl = gl or g
    try:
        body = ast.parse(s).body
    except (SyntaxError, ValueError, MemoryError, RecursionError):
        return None, None, "SyntaxError"
    if len(body) != 1 or not isinstance(body[0], ast.Expr):
        return None, None, "NotAnExpression"
    node = body[0].value
    try:
        pe = pyexpr(node)
    except KeyError:
        pe = None
    try:
        ty = type_from_ast(node, TypeParsingCtx(gl))
    except GuppyError as e:
        return pe, None, type(e.error).__name__
    return pe, ty, None


results = []
for case in inp["cases"]:
    kind = case[0]
    try:
        if kind == "rt":
            for _k in SHADOW_ERR:
                if json.dumps(_k) in json.dumps(case[1]) or (len(case) > 2 and _k == case[2].get("module")):
                    raise RuntimeError(f"shadow definition {_k} could not be declared/checked: {SHADOW_ERR[_k]}")
            ty = mk(case[1])
            s = str(ty)
            gl = scope_of(case[1]) or g
            pe, back, err = read_back(s, gl)
            results.append({"str": s, "toks": lex(s), "pytok_agrees": pytok(s) == lex(s), "pyexpr": pe,
                            "bad_struct_names": bad_struct_names(ty, gl),
                            "back": unmk(back, def_ids(ty, {})) if back is not None else None, "same": back == ty if back is not None else False,
                            "err": err, "copyable": ty.copyable, "droppable": ty.droppable})
        elif kind == "toks":
            s = " ".join(case[1])
            sc = [t for t in case[1] if t in SCOPED_FRAME]     # a mutated printed string mentions one scope only
            pe, back, err = read_back(s, Globals(SCOPED_FRAME[sc[0]]) if sc else g)
            results.append({"str": s, "pyexpr": pe, "back": unmk(back) if back is not None else None, "err": err})
        elif kind == "fun":
            ty = mk(case[1])
            s = str(ty)
            results.append({"str": s, "toks": lex(s)})
    except Exception as e:  # noqa: BLE001
        results.append({"crash": f"{type(e).__name__}: {e}"})

env = []
for name, d in list(OPAQUE.items()) + [(k, v) for k, v in STRUCT.items() if ":" not in k]:
    ps = [["type", p.must_be_copyable, p.must_be_droppable] if isinstance(p, TypeParam) else ["nat"] for p in d.params]
    # flags of the definition itself: instantiate with copyable+droppable arguments
    args = [TypeArg(NumericType(NUM["int"])) if isinstance(p, TypeParam) else ConstArg(ConstValue(B.nat_type(), 1)) for p in d.params]
    inst = OpaqueType(args, d) if name in OPAQUE else StructType(args, d)
    env.append([name, "app", ps, inst.copyable, inst.droppable])
builtin_names = sorted(k for k in Globals.builtin_defs() if isinstance(k, str))
json.dump({"env": env, "results": results, "builtin_names": builtin_names, "shadow_errors": SHADOW_ERR}, sys.stdout)
