"""C31 translator: reads tys/printing.py (class TypePrinter) and tys/ty.py (NumericType.Kind)
and regenerates coq/C31/GenPrinter.v: the table of bracket / separator / suffix token lists,
names and switches the Coq printer model is parameterised by.

Fail-closed: every method of TypePrinter must match one of the known shapes below *exactly*
(after renaming local variables and abstracting string literals where the table has a slot
for them); the set of registered visitors must be the expected one.  Anything else raises
TranslatorError.  A changed string literal changes the generated definitions, so the Coq
proofs are re-checked against it."""
from __future__ import annotations

import ast
import copy
import re
import textwrap

from vlib import TranslatorError

# --------------------------------------------------------------------------- templates
# `S` marks methods whose string literals are table slots (abstracted before comparison);
# all other methods must match literally.

T_FRESH = '''
def _fresh_name(self, display_name: str) -> str:
    if display_name not in self.counter:
        self.counter[display_name] = 1
        return display_name
    indexed = f"{display_name}'{self.counter[display_name]}"
    self.counter[display_name] += 1
    return indexed
'''
T_BOUND_OLD = '''
def _visit_BoundVar(self, var: BoundVar, inside_row: bool) -> str:
    if var.idx < len(self.bound_names):
        return self.bound_names[var.idx]
    return var.display_name
'''
T_BOUND_NEW = '''
def _visit_BoundVar(self, var: BoundVar, inside_row: bool) -> str:
    if var.idx < len(self.bound_names):
        return self.bound_names[var.idx]
    if var.idx not in self.free_names:
        self.free_names[var.idx] = self._fresh_name(var.display_name)
    return self.free_names[var.idx]
'''
T_EXIST = '''
def _visit_ExistentialVar(self, var: ExistentialVar, inside_row: bool) -> str:
    if var.id not in self.existential_names:
        self.existential_names[var.id] = self._fresh_name(var.display_name)
    return f"?{self.existential_names[var.id]}"
'''
T_APP_OLD = '''
def _visit_OpaqueType_StructType(self, ty: OpaqueType | StructType, inside_row: bool) -> str:
    if ty.args:
        args = ", ".join(self._visit(arg, True) for arg in ty.args)
        return f"{ty.defn.name}[{args}]"
    return ty.defn.name
'''
T_APP_NEW = '''
def _visit_OpaqueType_StructType(self, ty: OpaqueType | StructType, inside_row: bool) -> str:
    if ty.args:
        args = ", ".join(self._visit(arg, True) for arg in ty.args)
        match ty.args:
            case [TypeArg(ty=TupleType())]:
                args += ","
        return f"{ty.defn.name}[{args}]"
    return ty.defn.name
'''
T_TUPLE_OLD = '''
def _visit_TupleType(self, ty: TupleType, inside_row: bool) -> str:
    args = ", ".join(self._visit(arg, True) for arg in ty.args)
    return f"({args})"
'''
T_TUPLE_NEW = '''
def _visit_TupleType(self, ty: TupleType, inside_row: bool) -> str:
    args = ", ".join(self._visit(arg, True) for arg in ty.args)
    if len(ty.args) == 1:
        args += ","
    return f"({args})"
'''
T_NONE = '''
def _visit_NoneType(self, ty: NoneType, inside_row: bool) -> str:
    return "None"
'''
LITERAL = {
    "__init__": ['''
def __init__(self) -> None:
    self.used = {}
    self.bound_names = []
    self.existential_names = {}
    self.counter = {}
''', '''
def __init__(self) -> None:
    self.used = {}
    self.bound_names = []
    self.existential_names = {}
    self.free_names = {}
    self.counter = {}
'''],
    "visit": ['''
def visit(self, ty: Type | Const) -> str:
    return self._visit(ty, False)
'''],
    "_visit": ['''
def _visit(self, ty: Type, inside_row: bool) -> str:
    raise InternalGuppyError(f"Tried to pretty-print unknown type: {ty!r}")
'''],
    "_print_flags": ['''
def _print_flags(flags: InputFlags) -> str:
    s = ""
    if InputFlags.Owned in flags:
        s += " @owned"
    if InputFlags.Comptime in flags:
        s += " @comptime"
    return s
'''],
    "_visit_FunctionType": ['''
def _visit_FunctionType(self, ty: FunctionType, inside_row: bool) -> str:
    if ty.parametrized:
        for p in ty.params:
            self.bound_names.append(self._fresh_name(p.name))
    inputs = ", ".join(
        [
            self._visit(inp.ty, True) + self._print_flags(inp.flags)
            for inp in ty.inputs
        ]
    )
    if len(ty.inputs) != 1:
        inputs = f"({inputs})"
    output = self._visit(ty.output, True)
    if ty.parametrized:
        params = [
            self._visit(param, False)
            for param in ty.params
            if not isinstance(param, ConstParam) or not param.from_comptime_arg
        ]
        quantified = ", ".join(params)
        del self.bound_names[: -len(ty.params)]
        return _wrap(f"forall {quantified}. {inputs} -> {output}", inside_row)
    return _wrap(f"{inputs} -> {output}", inside_row)
'''],
    "_visit_NumericType": ['''
def _visit_NumericType(self, ty: NumericType, inside_row: bool) -> str:
    return ty.kind.name.lower()
'''],
    "_visit_TypeParam": ['''
def _visit_TypeParam(self, param: TypeParam, inside_row: bool) -> str:
    return self.bound_names[param.idx]
'''],
    "_visit_ConstParam": ['''
def _visit_ConstParam(self, param: ConstParam, inside_row: bool) -> str:
    kind = self._visit(param.ty, True)
    name = self.bound_names[param.idx]
    return f"{name}: {kind}"
'''],
    "_visit_TypeArg": ['''
def _visit_TypeArg(self, arg: TypeArg, inside_row: bool) -> str:
    return self._visit(arg.ty, inside_row)
'''],
    "_visit_ConstArg": ['''
def _visit_ConstArg(self, arg: ConstArg, inside_row: bool) -> str:
    return self._visit(arg.const, inside_row)
'''],
    "_visit_ConstValue": ['''
def _visit_ConstValue(self, c: ConstValue, inside_row: bool) -> str:
    return str(c.value)
'''],
}
SLOTTED = {
    "_fresh_name": [("std", T_FRESH)],
    "_visit_BoundVar": [("old", T_BOUND_OLD), ("new", T_BOUND_NEW)],
    "_visit_ExistentialVar": [("std", T_EXIST)],
    "_visit_OpaqueType_StructType": [("old", T_APP_OLD), ("new", T_APP_NEW)],
    "_visit_TupleType": [("old", T_TUPLE_OLD), ("new", T_TUPLE_NEW)],
    "_visit_NoneType": [("std", T_NONE)],
}
# visitor -> classes it is registered for (annotation of the first parameter / register(...) args)
EXPECTED_VISITORS = {
    "_visit_BoundVar": ["BoundVar"], "_visit_ExistentialVar": ["ExistentialVar"],
    "_visit_FunctionType": ["FunctionType"], "_visit_OpaqueType_StructType": ["OpaqueType", "StructType"],
    "_visit_TupleType": ["TupleType"], "_visit_NoneType": ["NoneType"], "_visit_NumericType": ["NumericType"],
    "_visit_TypeParam": ["TypeParam"], "_visit_ConstParam": ["ConstParam"], "_visit_TypeArg": ["TypeArg"],
    "_visit_ConstArg": ["ConstArg"], "_visit_ConstValue": ["ConstValue"],
}

# --------------------------------------------------------------------------- normalisation


class _Norm(ast.NodeTransformer):
    """Rename assigned locals by order of first assignment; optionally abstract str constants."""

    def __init__(self, slots: bool):
        self.slots, self.strings, self.names = slots, [], {}

    def visit_Constant(self, node):
        if self.slots and isinstance(node.value, str):
            self.strings.append(node.value)
            return ast.Constant(value="§")
        return node

    def visit_Name(self, node):
        if node.id in self.names:
            return ast.Name(id=self.names[node.id], ctx=node.ctx)
        return node


def _norm(fn: ast.FunctionDef, slots: bool):
    fn = copy.deepcopy(fn)
    fn.decorator_list = []
    if fn.body and isinstance(fn.body[0], ast.Expr) and isinstance(fn.body[0].value, ast.Constant) \
            and isinstance(fn.body[0].value.value, str):
        fn.body = fn.body[1:]
    n = _Norm(slots)
    for node in ast.walk(fn):
        if isinstance(node, ast.Name) and isinstance(node.ctx, ast.Store) and node.id not in n.names:
            n.names[node.id] = f"v{len(n.names)}"
    fn = n.visit(fn)
    return ast.dump(fn, annotate_fields=True, include_attributes=False), n.strings


def _tmpl(src: str, slots: bool):
    return _norm(ast.parse(textwrap.dedent(src)).body[0], slots)


LEX = re.compile(r"\s*(?:(?P<name>\??[A-Za-z_][A-Za-z_0-9]*(?:'[0-9]+)*)|(?P<num>\d+)|(?P<op>->|@\w+|.))")


def lex(s: str) -> list[str]:
    """The check's lexer (agrees with Python's tokenizer on first-order printed types)."""
    out, i = [], 0
    s = s.rstrip()
    while i < len(s):
        m = LEX.match(s, i)
        if not m or m.end() == i:
            raise TranslatorError(f"cannot lex {s!r} at {i}")
        out.append(m.group("name") or m.group("num") or m.group("op"))
        i = m.end()
    return out


def coq_str(s: str) -> str:
    if '"' in s or "\\" in s or not s.isascii():
        raise TranslatorError(f"string literal {s!r} outside the supported alphabet")
    return f'"{s}"'


def coq_tokens(s: str) -> str:
    m = {"(": "TLP", ")": "TRP", "[": "TLB", "]": "TRB", ",": "TComma"}
    toks = []
    for t in lex(s):
        if t in m:
            toks.append(m[t])
        elif t.isdigit():
            toks.append(f"TNumber {t}%N")
        elif re.fullmatch(r"[A-Za-z_][A-Za-z_0-9]*", t):
            toks.append(f"TName {coq_str(t)}")
        else:
            toks.append(f"TKw {coq_str(t)}")
    return "[" + "; ".join(toks) + "]"


def registered_classes(fn: ast.FunctionDef) -> list[str] | None:
    """Classes a method is registered for with @_visit.register, or None if not a visitor."""
    regs, seen = [], False
    for d in fn.decorator_list:
        if isinstance(d, ast.Attribute) and ast.unparse(d) == "_visit.register":
            seen = True
        elif isinstance(d, ast.Call) and ast.unparse(d.func) == "_visit.register":
            seen = True
            regs += [ast.unparse(a) for a in d.args]
    if not seen:
        return None
    if not regs:
        ann = fn.args.args[1].annotation
        regs = [ast.unparse(ann)]
    return sorted(regs)


def translate(printing_py, ty_py, decorator_py=None) -> tuple[str, dict]:
    mod = ast.parse(open(printing_py).read())
    cls = [n for n in mod.body if isinstance(n, ast.ClassDef) and n.name == "TypePrinter"]
    if len(cls) != 1:
        raise TranslatorError("class TypePrinter not found")
    methods = {n.name: n for n in cls[0].body if isinstance(n, ast.FunctionDef)}
    others = [n for n in cls[0].body if not isinstance(n, (ast.FunctionDef, ast.AnnAssign, ast.Expr))]
    if others:
        raise TranslatorError(f"unexpected statement in TypePrinter: {ast.unparse(others[0])[:60]}")
    known = set(LITERAL) | set(SLOTTED)
    if set(methods) != known:
        raise TranslatorError(f"TypePrinter methods differ from the modelled set: extra={sorted(set(methods) - known)} missing={sorted(known - set(methods))}")
    # visitor set
    vis = {}
    for name, fn in methods.items():
        r = registered_classes(fn)
        if r is not None:
            vis[name] = r
    if vis != {k: sorted(v) for k, v in EXPECTED_VISITORS.items()}:
        raise TranslatorError(f"registered visitor set changed: {vis}")
    # literal methods
    for name, tmpls in LITERAL.items():
        got = _norm(methods[name], False)[0]
        if got not in [_tmpl(t, False)[0] for t in tmpls]:
            raise TranslatorError(f"TypePrinter.{name} has an unknown shape:\n{ast.unparse(methods[name])}")
    # module-level _wrap
    wrap = [n for n in mod.body if isinstance(n, ast.FunctionDef) and n.name == "_wrap"]
    if len(wrap) != 1 or _norm(wrap[0], False)[0] != _tmpl('def _wrap(s: str, inside_row: bool) -> str:\n    return f"({s})" if inside_row else s\n', False)[0]:
        raise TranslatorError("_wrap has an unknown shape")
    # slotted methods
    variant, strings = {}, {}
    for name, tmpls in SLOTTED.items():
        got, strs = _norm(methods[name], True)
        for tag, t in tmpls:
            if got == _tmpl(t, True)[0]:
                variant[name], strings[name] = tag, strs
                break
        else:
            raise TranslatorError(f"TypePrinter.{name} has an unknown shape:\n{ast.unparse(methods[name])}")
    # numeric kinds (ty.py): class NumericType.Kind(Enum) members, printed as name.lower()
    tymod = ast.parse(open(ty_py).read())
    kinds = None
    for n in ast.walk(tymod):
        if isinstance(n, ast.ClassDef) and n.name == "NumericType":
            for k in n.body:
                if isinstance(k, ast.ClassDef) and k.name == "Kind":
                    kinds = [a.targets[0].id for a in k.body if isinstance(a, ast.Assign)]
    if kinds != ["Nat", "Int", "Float"]:
        raise TranslatorError(f"NumericType.Kind members changed: {kinds}")
    # the name a struct definition is registered under (printed through `ty.defn.name`):
    # `_Guppy.struct` must pass `cls.__name__` to RawStructDef — the identifier the class is bound to
    # in its declaring scope.  Anything else (e.g. __qualname__) breaks the tie.
    struct_name_src = None
    if decorator_py is not None:
        dmod = ast.parse(open(decorator_py).read())
        fns = [f for c in dmod.body if isinstance(c, ast.ClassDef) and c.name == "_Guppy"
               for f in c.body if isinstance(f, ast.FunctionDef) and f.name == "struct"]
        if len(fns) != 1:
            raise TranslatorError("_Guppy.struct not found in decorator.py")
        calls = [n for n in ast.walk(fns[0]) if isinstance(n, ast.Call) and ast.unparse(n.func) == "RawStructDef"]
        if len(calls) != 1 or len(calls[0].args) < 2 or calls[0].keywords:
            raise TranslatorError("_Guppy.struct: expected exactly one positional RawStructDef(id, name, ...) call")
        struct_name_src = ast.unparse(calls[0].args[1])
        if struct_name_src != "cls.__name__" or ast.unparse(calls[0].args[-1]) != "cls":
            raise TranslatorError(f"_Guppy.struct registers the struct under `{struct_name_src}`, not `cls.__name__`: "
                                  "printed struct names no longer are the identifier bound in the declaring scope")
    tup, app = strings["_visit_TupleType"], strings["_visit_OpaqueType_StructType"]
    tbl = {
        "tuple_sep": coq_tokens(tup[0]),
        "tuple_single_suffix": coq_tokens(tup[1]) if variant["_visit_TupleType"] == "new" else "[]",
        "tuple_open": coq_tokens(tup[-2]), "tuple_close": coq_tokens(tup[-1]),
        "app_sep": coq_tokens(app[0]),
        "app_sole_tuple_suffix": coq_tokens(app[1]) if variant["_visit_OpaqueType_StructType"] == "new" else "[]",
        "app_open": coq_tokens(app[-2]), "app_close": coq_tokens(app[-1]),
        "fun_sep": "[TComma]",
    }
    fresh_sep = strings["_fresh_name"][0]
    exist_prefix = strings["_visit_ExistentialVar"][0]
    none_name = strings["_visit_NoneType"][0]
    free_fresh = variant["_visit_BoundVar"] == "new"
    lines = [
        "(* GENERATED on every run from guppylang_internals/tys/printing.py and tys/ty.py by props/C31/tr_printer.py — do not edit; edits are overwritten *)",
        "From Coq Require Import String List NArith.", "From V.C31 Require Import Tokens.",
        "Import ListNotations.", "Open Scope string_scope.", "",
        f"(* shapes recognised: {', '.join(f'{k}={v}' for k, v in sorted(variant.items()))} *)",
    ]
    for k in ["tuple_open", "tuple_close", "tuple_sep", "tuple_single_suffix", "app_open", "app_close", "app_sep",
              "app_sole_tuple_suffix", "fun_sep"]:
        lines.append(f"Definition {k} : list token := {tbl[k]}.")
    lines += [
        f"Definition none_name : string := {coq_str(none_name)}.",
        "Definition num_name (k : numkind) : string := match k with "
        + " | ".join(f"K{k} => {coq_str(k.lower())}" for k in kinds) + " end.",
        f"Definition fresh_sep : string := {coq_str(fresh_sep)}.",
        f"Definition exist_prefix : string := {coq_str(exist_prefix)}.",
        f"Definition free_bound_fresh : bool := {'true' if free_fresh else 'false'}.",
        f"Definition struct_name_source : string := {coq_str(struct_name_src or 'unchecked')}.",
        "Definition visitors : list string := [" + "; ".join(coq_str(v) for v in sorted(vis)) + "].", "",
    ]
    info = {"variant": variant, "table": tbl, "fresh_sep": fresh_sep, "exist_prefix": exist_prefix,
            "none_name": none_name, "free_bound_fresh": free_fresh, "struct_name_source": struct_name_src, "visitors": sorted(vis)}
    return "\n".join(lines), info
