"""Implementation side for C33.  stdin: JSON
  {"histories": [{"init": 0|1|null, "acts": [...], "mode": "gate"|"prog"}...],
   "scratch": dir, "static_sites": [[file, qual, gate_fn], ...]}
Actions: ["bare",c] ["with",c,[...]] ["new",c] ["withobj",k,[...]] ["check",gate_fn,prog|null]
         ["raise"] ["try",[...]]           (c: 1 = enable, 0 = disable)
Runs every history on /repo's real classes with real `with`/`try` statements and emits the
same integer trace as coq/C33/Model.v (+ a final [9, flag, raised]).  init=null means: the
value the module global has right after import (a fresh process).
Also: one accept/reject table for one small program per gated entry point, the error
classes, and the dynamic inventory of who calls the gates."""
import importlib
import json
import sys
import warnings

warnings.simplefilter("ignore")
import repo_shim  # noqa: E402,F401
import guppylang  # noqa: E402
import guppylang.experimental as pub  # noqa: E402
import guppylang_internals.experimental as ex  # noqa: E402
from guppylang_internals.error import GuppyError  # noqa: E402

PROG = '''
from collections.abc import Callable
from guppylang import guppy, qubit
from guppylang.std.quantum import h
dagger = object(); control = object(); power = object()

@guppy
def glob(x: int) -> int:
    return x + 1

@guppy.struct
class S:
    a: int
    b: int

# ---- capturing closures: what is captured varies (int, float, Callable parameter, local holding a
# ---- runtime-chosen function value, struct, mixed), and a closure that escapes
@guppy
def f_clos_callable(f: Callable[[int], int]) -> None:
    def inner() -> int:
        return f(1)

@guppy
def f_clos_funlocal(b: bool, f: Callable[[int], int]) -> None:
    g = f if b else glob
    def inner(y: int) -> int:
        return g(y)

@guppy
def f_clos_returned(f: Callable[[int], int]) -> Callable[[int], int]:
    def twice(y: int) -> int:
        return f(f(y))
    return twice

@guppy
def f_clos_struct(s: S) -> int:
    def inner() -> int:
        return s.a + s.b
    return inner()

@guppy
def f_clos_mixed(f: Callable[[int], int]) -> None:
    x = 3
    def inner() -> int:
        return f(x)

@guppy
def f_clos_float(z: float) -> float:
    def inner(y: float) -> float:
        return y * z
    return inner(2.0)

# ---- more list shapes
@guppy
def f_list_nested() -> int:
    xs = [[1], [2, 3]]
    return 0

@guppy
def f_list_ret() -> list[int]:
    return [1, 2]

@guppy
def f_list_arg(xs: list[list[int]]) -> None:
    pass

# ---- more function tensor shapes
@guppy
def a3(x: int) -> int:
    return x * 2

@guppy
def f_tensor3() -> int:
    a, b, c = (glob, a3, glob)(1, 2, 3)
    return a + b + c

@guppy
def f_tensor_local(f: Callable[[int], int]) -> int:
    t = (f, glob)
    a, b = t(1, 2)
    return a + b

# ---- more modifier block kinds
@guppy
def f_mod_power(q: qubit) -> None:
    with power(2):
        h(q)

@guppy
def f_mod_multi(q: qubit, c: qubit) -> None:
    with control(c), dagger:
        h(q)

@guppy
def f_mod_nested(q: qubit, c: qubit) -> None:
    with control(c):
        with dagger:
            h(q)

@guppy
def a1(x: int) -> int:
    return x

@guppy
def a2(x: int) -> int:
    return x + 1

@guppy
def f_list() -> int:
    xs = [1, 2, 3]
    return 0

@guppy
def f_list_chk() -> int:
    xs: list[int] = [1, 2]
    return 0

@guppy
def f_listcomp() -> int:
    xs = [i for i in range(3)]
    return 0

@guppy
def f_listty(xs: list[int]) -> int:
    return 0

@guppy
def f_tensor() -> int:
    a, b = (a1, a2)(1, 2)
    return a + b

@guppy
def f_tensor_chk() -> tuple[int, int]:
    return (a1, a2)(1, 2)

@guppy
def f_closure(y: int) -> int:
    def g(x: int) -> int:
        return x + y
    return g(1)

@guppy
def f_closure2(y: int) -> int:
    def g(x: int) -> int:
        def k(z: int) -> int:
            return z + y
        return k(x)
    return g(1)

@guppy
def f_mod(q: qubit) -> None:
    with dagger:
        h(q)

@guppy
def f_mod_ctrl(q: qubit, c: qubit) -> None:
    with control(c):
        h(q)

@guppy
def f_plain(x: int) -> int:
    def g(z: int) -> int:
        return z + 1
    t = (x, g(x))
    return t[0] + t[1]
'''
PROGRAMS = {
    "check_lists_enabled": ["f_list", "f_list_chk", "f_listcomp", "f_listty", "f_list_nested", "f_list_ret", "f_list_arg"],
    "check_function_tensors_enabled": ["f_tensor", "f_tensor_chk", "f_tensor3", "f_tensor_local"],
    "check_capturing_closures_enabled": ["f_closure", "f_closure2", "f_clos_callable", "f_clos_funlocal", "f_clos_returned",
                                         "f_clos_struct", "f_clos_mixed", "f_clos_float"],
    "check_modifiers_enabled": ["f_mod", "f_mod_ctrl", "f_mod_power", "f_mod_multi", "f_mod_nested"],
}

inp = json.load(sys.stdin)
scratch = inp["scratch"]
with open(f"{scratch}/c33_prog.py", "w") as fh:
    fh.write(PROG)
sys.path.insert(0, scratch)
import c33_prog  # noqa: E402

FLAG = "EXPERIMENTAL_FEATURES_ENABLED"
fresh_flag = getattr(ex, FLAG)
gate_fns = sorted(n for n in dir(ex) if n.startswith("check_") and n.endswith("_enabled") and callable(getattr(ex, n)))
# gate index = order of definition in the source (the translator numbers them the same way)
gate_fns.sort(key=lambda n: getattr(ex, n).__code__.co_firstlineno)
GIDX = {n: i for i, n in enumerate(gate_fns)}
CLS = {1: ex.enable_experimental_features, 0: ex.disable_experimental_features}

# ---- dynamic inventory: record who calls a gate ----------------------------------------
calls = []
orig = {n: getattr(ex, n) for n in gate_fns}


def _wrap(n, f):
    def w(*a, **k):
        fr = sys._getframe(1)
        calls.append((fr.f_code.co_filename.replace("\\", "/").split("guppylang_internals/")[-1], fr.f_code.co_qualname, n))
        return f(*a, **k)
    return w


wrapped = {n: _wrap(n, f) for n, f in orig.items()}
for m in list(sys.modules.values()):
    if m is ex or m is None:
        continue
    for n, f in orig.items():
        try:
            if getattr(m, n, None) is f:
                setattr(m, n, wrapped[n])
        except Exception:  # noqa: BLE001
            pass


def flag():
    return 1 if getattr(ex, FLAG) else 0


def describe(e):
    err = e.error
    return [type(err).__name__, getattr(err, "things", None), getattr(err, "rendered_title", None)]


def check_prog(name):
    """Fresh definitions every time (a checked definition is cached)."""
    importlib.reload(c33_prog)
    getattr(c33_prog, name).check()


import ast as _ast  # noqa: E402
from guppylang_internals.ast_util import annotate_location  # noqa: E402
_SRC = "xs = [1, 2]\n"
LOC = _ast.parse(_SRC).body[0]
annotate_location(LOC, _SRC, "gate_call.py", 1)


class Unrelated(Exception):
    pass


def run_history(h):
    trace, errors = [], []
    objs, seen = [], []

    def run_acts(acts):
        for a in acts:
            run_act(a)

    def run_act(a):
        k = a[0]
        if k == "bare":
            CLS[a[1]]()
            trace.append([1, a[1], flag()])
        elif k == "new":
            seen.append(flag())
            objs.append((a[1], CLS[a[1]]()))
            trace.append([1, a[1], flag()])
        elif k == "withobj" and a[1] >= len(objs):
            trace.append([7, a[1]])      # the object was never constructed (an earlier exception skipped it)
        elif k in ("with", "withobj"):
            raised = [0]
            if k == "with":
                c, before = a[1], flag()
            else:
                c, before = objs[a[1]][0], seen[a[1]]
            try:
                with (CLS[c]() if k == "with" else objs[a[1]][1]):
                    trace.append([2 if k == "with" else 8, c, flag()])
                    try:
                        run_acts(a[2])
                    except BaseException:
                        raised[0] = 1
                        raise
            finally:
                trace.append([3, c, before, flag(), raised[0]])
        elif k == "check":
            f = flag()
            try:
                if a[2] is None:
                    getattr(ex, a[1])(LOC)   # direct call of the gate with a located node
                else:
                    check_prog(a[2])
            except GuppyError as e:
                trace.append([4, GIDX[a[1]], 0, f])
                errors.append(describe(e))
                raise
            trace.append([4, GIDX[a[1]], 1, f])
        elif k == "raise":
            trace.append([5])
            raise Unrelated()
        elif k == "try":
            caught = 0
            try:
                run_acts(a[1])
            except (GuppyError, Unrelated):
                caught = 1
            trace.append([6, caught])
        else:
            raise ValueError(k)

    setattr(ex, FLAG, fresh_flag if h["init"] is None else bool(h["init"]))
    raised = 0
    try:
        run_acts(h["acts"])
    except (GuppyError, Unrelated):
        raised = 1
    trace.append([9, flag(), raised])
    return {"trace": trace, "errors": errors}


out = {"fresh_flag": 1 if fresh_flag else 0, "gate_fns": gate_fns,
       "public_aliases": [guppylang.enable_experimental_features is ex.enable_experimental_features,
                          pub.enable_experimental_features is ex.enable_experimental_features,
                          pub.disable_experimental_features is ex.disable_experimental_features],
       "histories": []}

_tree = _ast.parse(PROG)
_SOURCES = {n.name: "@guppy\n" + _ast.get_source_segment(PROG, n) for n in _tree.body if isinstance(n, _ast.FunctionDef)}

# ---- accept/reject table: every program, flag off and on ---------------------------------
table = []
dyn = {}
for gfn, progs in PROGRAMS.items():
    for p in progs + ["f_plain"]:
        row = {"gate": gfn, "prog": p, "source": _SOURCES.get(p, "")}
        for en in (0, 1):
            setattr(ex, FLAG, bool(en))
            calls.clear()
            try:
                check_prog(p)
                row[str(en)] = ["accepted"]
            except GuppyError as e:
                row[str(en)] = ["rejected"] + describe(e)
            except Exception as e:  # noqa: BLE001
                row[str(en)] = ["crash", type(e).__name__, str(e)[:200]]
            row[f"calls{en}"] = sorted(set(map(tuple, calls)))
            for c in calls:
                dyn.setdefault("|".join(c), set()).add(p)
        if p != "f_plain" or gfn == "check_lists_enabled":
            table.append(row)
out["table"] = table
out["dynamic_sites"] = {k: sorted(v) for k, v in dyn.items()}

for h in inp["histories"]:
    out["histories"].append(run_history(h))
setattr(ex, FLAG, fresh_flag)
json.dump(out, sys.stdout)
