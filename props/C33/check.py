"""C33 — experimental features are gated and the gate state is restored.
Tie: T (translator, regenerated every run) + translator validation + X (histories).

1. regenerate coq/C33/GenExperimental.v (flag, constructor/__enter__/__exit__ bodies, gate
   table) and coq/C33/GenSites.v (every call of a gate in the package sources);
2. re-check coq/C33/Props.v against them;
3. run random histories (nested with blocks, bare calls, kept objects used later, checks
   of one small program per gated entry point, injected exceptions, try/except) on the
   real classes; evaluate the same histories in Coq on the generated definitions; run them
   through an independent Python statement of the property (`spec_run`); compare all three;
4. accept/reject table of every program with the flag off/on, error classes, and the
   dynamic inventory of gate callers vs. the static one."""
import json
import re

import vlib
from vlib import proof_coverage

LEVEL = "proof"
SRC = "experimental.py"
GATE_RE = re.compile(r"^check_(\w+)_enabled$")
FEATURE_THINGS = {"check_lists_enabled": "Lists", "check_function_tensors_enabled": "Function tensors",
                  "check_capturing_closures_enabled": "Capturing closures", "check_modifiers_enabled": "Modifiers"}
PROGRAMS = {
    "check_lists_enabled": ["f_list", "f_list_chk", "f_listcomp", "f_listty", "f_list_nested", "f_list_ret", "f_list_arg"],
    "check_function_tensors_enabled": ["f_tensor", "f_tensor_chk", "f_tensor3", "f_tensor_local"],
    "check_capturing_closures_enabled": ["f_closure", "f_closure2", "f_clos_callable", "f_clos_funlocal", "f_clos_returned",
                                         "f_clos_struct", "f_clos_mixed", "f_clos_float"],
    "check_modifiers_enabled": ["f_mod", "f_mod_ctrl", "f_mod_power", "f_mod_multi", "f_mod_nested"],
}


def _scan(ctx):
    import tr_experimental as t
    exp = ctx.int_src(SRC)
    roots = [exp.parent]
    sites, foreign, aliases = t.scan_sites(roots, exp)
    # the public package must not hold a copy of the flag either
    psites, pforeign, paliases = t.scan_sites([ctx.pub_src("__init__.py").parent], exp)
    for s in psites:
        s["file"] = "guppylang/" + s["file"]
    return sites + psites, foreign + ["guppylang/" + x for x in pforeign], aliases + paliases, exp


def generate(ctx):
    import tr_experimental as t
    ctx.gen("GenExperimental.v", t.translate(ctx.int_src(SRC)))
    sites, foreign, aliases, exp = _scan(ctx)
    ctx.gen("GenSites.v", t.sites_text(sites, foreign, aliases, exp))
    return sites


# ---------------------------------------------------------------------------------------
# histories


def gen_acts(r, gates, depth, nobj, mode, budget):
    """nobj: one-element list = number of kept objects so far (shared down the recursion)."""
    acts = []
    n = r.randint(0, 4 if depth else 5)
    for _ in range(n):
        if budget[0] <= 0:
            break
        budget[0] -= 1
        x = r.random()
        if x < 0.14:
            acts.append(["bare", r.randint(0, 1)])
        elif x < 0.38 and depth < 4:
            acts.append(["with", r.randint(0, 1), gen_acts(r, gates, depth + 1, nobj, mode, budget)])
        elif x < 0.46:
            acts.append(["new", r.randint(0, 1)])
            nobj[0] += 1
        elif x < 0.56 and nobj[0] > 0 and depth < 4:
            acts.append(["withobj", r.randrange(nobj[0]), gen_acts(r, gates, depth + 1, nobj, mode, budget)])
        elif x < 0.80:
            g = r.choice(gates)
            prog = r.choice(PROGRAMS[g]) if mode == "prog" and g in PROGRAMS else None
            a = ["check", g, prog]
            acts.append(["try", [a]] if depth == 0 and r.random() < 0.6 else a)
        elif x < 0.87:
            acts.append(["try", [["raise"]]] if depth == 0 and r.random() < 0.6 else ["raise"])
        elif depth < 4:
            acts.append(["try", gen_acts(r, gates, depth + 1, nobj, mode, budget)])
    return acts


def spec_run(h, fresh):
    """The property, stated directly (not read from the code): a with block saves the flag
    seen before its manager was constructed and puts it back on the way out however it is
    left; constructing a manager sets the flag to what the class stands for; a gated
    program is accepted iff the flag is set; exceptions propagate."""
    flag = fresh if h["init"] is None else h["init"]
    trace, objs = [], []

    class Exc(Exception):
        pass

    def acts(l):
        for a in l:
            act(a)

    def act(a):
        nonlocal flag
        k = a[0]
        if k == "bare":
            flag = a[1]
            trace.append([1, a[1], flag])
        elif k == "new":
            objs.append((a[1], flag))
            flag = a[1]
            trace.append([1, a[1], flag])
        elif k == "with":
            saved, flag = flag, a[1]
            trace.append([2, a[1], flag])
            try:
                acts(a[2])
            except Exc:
                flag = saved
                trace.append([3, a[1], saved, flag, 1])
                raise
            flag = saved
            trace.append([3, a[1], saved, flag, 0])
        elif k == "withobj" and a[1] >= len(objs):
            trace.append([7, a[1]])
        elif k == "withobj":
            c, saved = objs[a[1]]
            trace.append([8, c, flag])
            try:
                acts(a[2])
            except Exc:
                flag = saved
                trace.append([3, c, saved, flag, 1])
                raise
            flag = saved
            trace.append([3, c, saved, flag, 0])
        elif k == "check":
            trace.append([4, h["gidx"][a[1]], flag, flag])
            if not flag:
                raise Exc()
        elif k == "raise":
            trace.append([5])
            raise Exc()
        elif k == "try":
            try:
                acts(a[1])
                trace.append([6, 0])
            except Exc:
                trace.append([6, 1])

    raised = 0
    try:
        acts(h["acts"])
    except Exc:
        raised = 1
    trace.append([9, flag, raised])
    return trace


def coq_acts(l):
    out = "ANil"
    for a in reversed(l):
        k = a[0]
        c = lambda v: "Enable" if v else "Disable"
        if k == "bare":
            t = f"(ABare {c(a[1])})"
        elif k == "new":
            t = f"(ANew {c(a[1])})"
        elif k == "with":
            t = f"(AWith {c(a[1])} {coq_acts(a[2])})"
        elif k == "withobj":
            t = f"(AWithObj {a[1]} {coq_acts(a[2])})"
        elif k == "check":
            t = f"(ACheck G_{GATE_RE.match(a[1]).group(1)})"
        elif k == "raise":
            t = "ARaise"
        else:
            t = f"(ATry {coq_acts(a[1])})"
        out = f"(ACons {t} {out})"
    return out


def coq_cases(hs):
    lines = ["From Coq Require Import ZArith List Bool.", "From V.C33 Require Import ModelBase GenExperimental GenSites Model.",
             "Import ListNotations. Open Scope Z_scope.",
             "Definition enc (r : state * bool * list event) : list (list Z) := let '(st, raised, tr) := r in tr ++ [[9; b2z (flag st); b2z raised]].",
             "Definition cases : list (list (list Z)) := ["]
    items = []
    for h in hs:
        init = "initial_flag" if h["init"] is None else ("true" if h["init"] else "false")
        items.append(f"enc (run_acts {coq_acts(h['acts'])} (init_state {init}))")
    lines.append(";\n".join(items) + "].")
    lines.append("Eval vm_compute in cases.")
    return "\n".join(lines)


def count_kinds(l, acc, depth=0):
    for a in l:
        acc[a[0]] = acc.get(a[0], 0) + 1
        acc["max_depth"] = max(acc.get("max_depth", 0), depth)
        for x in a[1:]:
            if isinstance(x, list):
                count_kinds(x, acc, depth + 1)


def py_source(h, spec_trace):
    """The history as a stand-alone Python script over the real classes."""
    cls = {1: "ex.enable_experimental_features", 0: "ex.disable_experimental_features"}
    out = ["import guppylang_internals.experimental as ex"]
    if any(a for a in _progs_used(h["acts"])):
        out = ["import repo_shim, sys; sys.path.insert(0, '.')  # c33_prog.py = PROG of props/C33/impl_experimental.py", "import importlib, c33_prog"] + out
    if h["init"] is not None:
        out.append(f"ex.EXPERIMENTAL_FEATURES_ENABLED = {bool(h['init'])}")
    out.append("try:")
    nobj = [0]

    def emit(l, ind):
        pad = "    " * ind
        if not l:
            out.append(pad + "pass")
        for a in l:
            k = a[0]
            if k == "bare":
                out.append(f"{pad}{cls[a[1]]}()")
            elif k == "new":
                out.append(f"{pad}o{nobj[0]} = {cls[a[1]]}()")
                nobj[0] += 1
            elif k in ("with", "withobj"):
                out.append(f"{pad}with {cls[a[1]] + '()' if k == 'with' else 'o%d' % a[1]}:")
                emit(a[2], ind + 1)
                out.append(f"{pad}print('flag after this with block:', ex.EXPERIMENTAL_FEATURES_ENABLED)")
            elif k == "check":
                if a[2] is None:
                    out.append(f"{pad}ex.{a[1]}()   # raises iff the flag is off")
                else:
                    out.append(f"{pad}importlib.reload(c33_prog).{a[2]}.check()")
            elif k == "raise":
                out.append(f"{pad}raise RuntimeError('injected')")
            else:
                out.append(f"{pad}try:")
                emit(a[1], ind + 1)
                out.append(f"{pad}except Exception: pass")

    emit(h["acts"], 1)
    out.append("except Exception as e: print('history left by', type(e).__name__)")
    out.append(f"print('final flag:', ex.EXPERIMENTAL_FEATURES_ENABLED, ' # the property requires {bool(spec_trace[-1][1])}')")
    return "\n".join(out)


def _progs_used(l):
    for a in l:
        if a[0] == "check" and a[2] is not None:
            yield a[2]
        for x in a[1:]:
            if isinstance(x, list):
                yield from _progs_used(x)


def probes(gates):
    """Exhaustive small histories (run before the random ones; smallest failing input first)."""
    out = []
    g0 = gates[0]
    for init in (0, 1, None):
        for c in (0, 1):
            out += [[["with", c, []]], [["try", [["with", c, [["raise"]]]]]], [["bare", c], ["try", [["check", g0, None]]]],
                    [["with", c, [["check", g0, None]]]], [["new", c], ["bare", 1 - c], ["withobj", 0, []]],
                    [["with", c, [["bare", 1 - c]]]]]
            for c2 in (0, 1):
                out += [[["with", c, [["with", c2, []]]]], [["with", c, [["try", [["with", c2, [["raise"]]]]]]]],
                        [["try", [["with", c, [["with", c2, [["raise"]]]]]]]], [["with", c, [["with", c2, [["try", [["check", g0, None]]]]]]]]]
        out += [[["try", [["check", g, None]]]] for g in gates]
        yield from ({"init": init, "mode": "gate", "acts": a} for a in out)
        out = []


def replay_text(h):
    return ("cd <scratch>; PYTHONPATH=/verif/tools:<repo>/guppylang/src:<repo>/guppylang-internals/src /venv/bin/python "
            "/verif/props/C33/impl_experimental.py <<< '" + json.dumps({"histories": [h], "scratch": ".", "static_sites": []}) + "'")


def run(ctx):
    import tr_experimental as t
    try:
        sites = generate(ctx)
        info = ctx.coq_props()
    except vlib.TranslatorError as e:
        # fail closed: no theorem is claimed for this tree; still run the histories and the
        # program table on the real code to look for a concrete failing input
        sites = []
        info = {"ok": False, "failed": f"translator failed closed: {e}", "log": f"Error: translator: {e}",
                "obligations": 1, "discharged": 0, "theorems": [], "axioms": []}
        try:
            sites = _scan(ctx)[0]
        except vlib.TranslatorError:
            pass
    r = vlib.rng(ctx.seed, "C33")
    gates = t.gate_names(ctx.int_src(SRC))
    gidx = {g: i for i, g in enumerate(gates)}
    # ---- histories: corpus first, then fresh
    hs = []
    for p in sorted((ctx.dir / "corpus").glob("*.json")):
        for h in json.loads(p.read_text()):
            if all(a in gates for a in _gates_used(h["acts"])):
                hs.append(h)
    hs += list(probes(gates))
    n_corpus = len(hs)
    n_gate, n_prog = (400, 60) if ctx.quick else (12000, 1500)
    for i in range(n_gate + n_prog):
        mode = "gate" if i < n_gate else "prog"
        budget = [r.choice([6, 12, 25])]
        hs.append({"init": r.choice([None, 0, 1]), "mode": mode,
                   "acts": gen_acts(r, gates, 0, [0], mode, budget)})
    for h in hs:
        h["gidx"] = gidx
    payload = {"histories": [{k: h[k] for k in ("init", "acts", "mode")} for h in hs],
               "scratch": str(ctx.scratch), "static_sites": [[s["file"], s["qual"], s["gate"]] for s in sites]}
    impl = json.loads(ctx.impl("impl_experimental.py", payload))
    fresh = impl["fresh_flag"]
    # ---- model side (generated definitions evaluated in Coq)
    model = None
    if not str(info["failed"] or "").startswith("translator") and (vlib.COQ / "C33" / "Model.vo").exists() and (info["ok"] or _model_built()):
        try:
            chunks = [hs[i:i + 400] for i in range(0, len(hs), 400)]
            outs = ctx.coq_eval_many({f"cases{i}": coq_cases(c) for i, c in enumerate(chunks)})
            model = []
            for i in range(len(chunks)):
                model += vlib.parse_coq_values(outs[f"cases{i}"])[0]
        except Exception as e:  # noqa: BLE001
            model = None
            ctx.notes.append(f"model evaluation failed: {str(e)[:600]}")
    # ---- compare
    spec_bad, model_bad = [], 0
    nontrivial = set()
    for j, h in enumerate(hs):
        it = impl["histories"][j]["trace"]
        st = spec_run(h, fresh)
        key = json.dumps(h["acts"]) + str(h["init"])
        if any(e[0] == 3 for e in it) and any(e[0] == 4 for e in it):
            nontrivial.add(key)
        if it != st:
            spec_bad.append((h, it, st))
        if model is not None and j < len(model) and model[j] != it:
            model_bad += 1
            if model_bad <= 3:
                ctx.report(f"model-mismatch:{key}", "correspondence", "Coq model (generated definitions) vs real classes",
                           {"history": h["acts"], "init": h["init"], "impl_trace": it, "model_trace": model[j],
                            "replay": replay_text({k: h[k] for k in ("init", "acts", "mode")})})
    spec_bad.sort(key=lambda x: len(json.dumps(x[0]["acts"])))
    for h, it, st in spec_bad[:2]:
        first = next((i for i, (a, b) in enumerate(zip(it, st)) if a != b), min(len(it), len(st)))
        ctx.report("spec:" + json.dumps(h["acts"]) + str(h["init"]), "counterexample",
                   "history violates the property on the real classes" + ("" if info["ok"] else f" (and Props.v no longer checks: {info['failed']})"),
                   {"history": h["acts"], "init_flag": "fresh process" if h["init"] is None else h["init"], "mode": h["mode"],
                    "expected_trace(property)": st, "observed_trace(/repo)": it, "first_difference_at_event": first,
                    "encoding": "[1,c,f] ctor; [2,c,f] with-body start; [3,c,before,after,exc] with exit; [4,gate,accepted,flag] check; [5] raise; [6,caught] try; [8,c,f] with-kept-object body; [9,flag,raised] end",
                    "replay_script": py_source(h, st),
                    "replay": "save replay_script as r.py; PYTHONPATH=/verif/tools:<repo>/guppylang/src:<repo>/guppylang-internals/src /venv/bin/python r.py   (or: " + replay_text({k: h[k] for k in ("init", "acts", "mode")}) + ")"})
    # ---- accept/reject table, error classes, aliases
    table_bad = 0
    for row in impl["table"]:
        g, p = row["gate"], row["prog"]
        exp0 = "accepted" if p == "f_plain" else "rejected"
        for en, want in (("0", exp0), ("1", "accepted")):
            if row[en][0] != want:
                table_bad += 1
                ctx.report(f"table:{p}:{en}", "counterexample", f"program {p} with experimental features {'enabled' if en == '1' else 'disabled'}",
                           {"program": p, "program_source": row.get("source", ""), "feature_gate": g, "flag": int(en), "expected": want, "observed": row[en],
                            "replay_script": "import repo_shim, sys; sys.path.insert(0, '.')\n# c33_prog.py = the PROG text of /verif/props/C33/impl_experimental.py\nimport guppylang_internals.experimental as ex, c33_prog\nex.EXPERIMENTAL_FEATURES_ENABLED = " + str(en == "1") + "\nc33_prog." + p + ".check()   # expected: " + want,
                            "replay": "see PROG in props/C33/impl_experimental.py; set guppylang_internals.experimental.EXPERIMENTAL_FEATURES_ENABLED and call <prog>.check() under repo_shim"})
        if p != "f_plain" and row["0"][0] == "rejected":
            cls, things = row["0"][1], row["0"][2]
            if cls != "ExperimentalFeatureError":
                ctx.report(f"error-class:{g}:{cls}", "counterexample", "gated feature rejected with a different diagnostic than the experimental-feature error",
                           {"program": p, "gate": g, "observed_error": row["0"][1:], "expected": ["ExperimentalFeatureError", FEATURE_THINGS.get(g)],
                            "replay": f"flag off; c33_prog.{p}.check() raises GuppyError whose .error is {cls}"})
            elif things != FEATURE_THINGS.get(g):
                ctx.report(f"error-things:{g}:{things}", "counterexample", "experimental-feature error names the wrong feature",
                           {"program": p, "gate": g, "observed": things, "expected": FEATURE_THINGS.get(g)})
    if not all(impl["public_aliases"]):
        ctx.report("aliases", "correspondence", "guppylang.enable_experimental_features / guppylang.experimental.* are not the modelled classes",
                   {"identities": impl["public_aliases"]})
    if impl["gate_fns"] != gates:
        ctx.report("gate-order", "correspondence", "gate functions seen at run time differ from the translated ones",
                   {"runtime": impl["gate_fns"], "translated": gates})
    # ---- dynamic vs static inventory
    static = {f"{s['file']}|{s['qual']}|{s['gate']}" for s in sites}
    dyn = impl["dynamic_sites"]
    unknown = sorted(set(dyn) - static)
    for u in unknown[:3]:
        ctx.report(f"dyn-site:{u}", "correspondence", "a gate was called from a place the source scan did not list",
                   {"caller": u, "programs": dyn[u]})
    uncovered = sorted(static - set(dyn))
    if uncovered:
        ctx.notes.append(f"static gate call sites not reached by the sample programs: {uncovered}")
    # ---- proofs broke and nothing concrete was found
    if not info["ok"] and not ctx.violations:
        ctx.report("proof-broken:" + str(info["failed"]), "proof-broken", str(info["failed"]),
                   {"coq_error": vlib.CoqResult(False, info["log"]).error_excerpt(),
                    "searched": f"{len(hs)} histories and {len(impl['table'])} programs on the real code agree with the property"},
                   found_input=False)
    kinds = {}
    for h in hs:
        count_kinds(h["acts"], kinds)
    samp = [0, n_corpus + n_gate // 2, len(hs) - 1]
    cov = proof_coverage(
        info, "make -f Makefile.C33 C33/Props.vo && coqc C33/Props.v (Print Assumptions)",
        ["Coq 8.16.1 kernel (vm_compute in sites_ok / history_demo and in the case files)",
         "props/C33/tr_experimental.py + tools/tr_common.py: reading of straight-line method bodies (global declaration, self.original, bool constants), `if not FLAG: raise GuppyError(E(loc, text))`; the AST scan for gate calls",
         "coq/C33/Model.v: semantics of Python's with / try / bare constructor calls (validated against CPython on every history)",
         "tools/repo_shim.py for the program checks; not modelled: what check() does after/before the gate (only who calls the gate and the accept/reject outcome are observed)"],
        evaluations=len(hs) + 2 * len(impl["table"]), distinct_nontrivial=len(nontrivial),
        rule="histories: seeded random trees (depth<=4, budget 6/12/25 actions) over bare/with/new/withobj/check/raise/try with initial flag fresh/off/on; 'gate' mode calls the gate function, 'prog' mode runs check() of a program using the feature; non-trivial = distinct history whose real trace contains at least one with-exit and one check",
        traces_validated_against_impl=len(hs) if model is not None else 0,
        histories={"corpus_and_probes": n_corpus, "gate_mode": n_gate, "prog_mode": n_prog}, action_histogram=kinds,
        exceptional_with_exits=sum(1 for x in impl["histories"] for e in x["trace"] if e[0] == 3 and e[4] == 1),
        normal_with_exits=sum(1 for x in impl["histories"] for e in x["trace"] if e[0] == 3 and e[4] == 0),
        checks_rejected=sum(1 for x in impl["histories"] for e in x["trace"] if e[0] == 4 and e[2] == 0),
        checks_accepted=sum(1 for x in impl["histories"] for e in x["trace"] if e[0] == 4 and e[2] == 1),
        model_disagreements=model_bad, spec_disagreements=len(spec_bad), table_rows=len(impl["table"]), table_bad=table_bad,
        static_sites=sorted(static), dynamic_sites=dyn, fresh_flag=fresh,
        samples=[{"history": hs[j]["acts"], "init": hs[j]["init"], "mode": hs[j]["mode"], "impl_trace": impl["histories"][j]["trace"]} for j in samp if j < len(hs)]
        + [impl["table"][0]],
        notes=ctx.notes)
    return ctx.finish(LEVEL, cov, ["a with statement behaves as in Model.v (constructor, __enter__, body, __exit__ always, exception swallowed iff __exit__ returns true)",
                                   "the flag is only written through the two classes (translator fails closed on any other writer inside experimental.py; GenSites lists any mention outside)",
                                   "single-threaded use (the flag is a process global, not a ContextVar)"])


def _gates_used(l):
    for a in l:
        if a[0] == "check":
            yield a[1]
        for x in a[1:]:
            if isinstance(x, list):
                yield from _gates_used(x)


def _model_built():
    d = vlib.COQ / "C33"
    return all((d / f"{n}.vo").exists() and (d / f"{n}.vo").stat().st_mtime >= (d / f"{n}.v").stat().st_mtime
               for n in ("ModelBase", "GenExperimental", "GenSites", "Model"))
